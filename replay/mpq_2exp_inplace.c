#include <stdio.h>
#include "mpir.h"
int main(void){
  mpq_t a,b,z; mpq_init(a); mpq_init(b); mpq_init(z);
  /* num = (7*2^128 + 5*2^64 + 3) * 2^64, den = 1 */
  mpz_set_str(mpq_numref(a), "7000000000000000500000000000000030000000000000000", 16);
  mpq_set(z,a);
  mpq_div_2exp(b, a, 64);   /* separate dst */
  mpq_div_2exp(a, a, 64);   /* in place */
  gmp_printf("sep: %Qx\ninp: %Qx\n", b, a);
  return !mpq_equal(a,b);
}
