/* /verif/replay/export_enum.c -- BOUNDED native stand-in for the parameter space of mpz_export / mpz_import that the contract units do not
 * reach (they prove size == 1 with every nail count, unbounded in the operand length).
 * Enumerates COMPLETELY:  size in {1,2,3,4,5,8,9,16} x nail in {0 .. 8*size-1} x order in {1,-1} x endian in {1,0,-1} x data alignment in {0,1}
 * x operands = every sequence of 1..3 limbs over the limb alphabet {1, 0x8000000000000000, 0xffffffffffffffff, 0x0123456789abcdef, 0} with a non-zero
 * top limb (and zero), both signs.  For each case: mpz_export must produce count = ceil(bitlength/numb) words, word w (least significant = 0) holding bits
 * [w*numb, (w+1)*numb) of |z| with zero nail bits, at the position order/endian prescribe, nothing outside count*size bytes; mpz_import of those
 * words must give |z| back, normalised.  mpz/export.c and mpz/import.c are compiled from /repo's working tree.
 * Prints "FAIL ..." for the first disagreement (exit 1) or "PASS <n cases>".
 */
#include <stdio.h>
#include <stdlib.h>
#include <string.h>
#include "mpir.h"
static unsigned field_of (const mpz_t z, unsigned long o, unsigned k) { unsigned v = 0; for (unsigned b = 0; b < k; b++) if (mpz_tstbit (z, o + b)) v |= 1u << b; return v; }
int main (void)
{
  const mp_limb_t alpha[5] = {1, 0x8000000000000000UL, 0xffffffffffffffffUL, 0x0123456789abcdefUL, 0};
  const size_t sizes[8] = {1, 2, 3, 4, 5, 8, 9, 16};
  long n = 0; mpz_t z, az, back; mpz_init2 (z, 64 * 4); mpz_init (az); mpz_init (back);
  unsigned char *raw = malloc (4096);
  for (int len = 0; len <= 3; len++)
    for (int code = 0; code < (len == 0 ? 1 : len == 1 ? 5 : len == 2 ? 25 : 125); code++)
      {
        int c0 = code, bad = 0;
        for (int k = 0; k < len; k++) { z->_mp_d[k] = alpha[c0 % 5]; c0 /= 5; }
        if (len && z->_mp_d[len - 1] == 0) bad = 1;
        if (bad) continue;
        for (int neg = 0; neg <= (len ? 1 : 0); neg++)
          {
            z->_mp_size = neg ? -len : len; mpz_abs (az, z);
            for (int si = 0; si < 8; si++) for (size_t nail = 0; nail < 8 * sizes[si]; nail++) for (int order = -1; order <= 1; order += 2) for (int endian = -1; endian <= 1; endian++) for (int al = 0; al <= 1; al++)
              {
                size_t size = sizes[si], numb = 8 * size - nail, count = 777, want = len ? (mpz_sizeinbase (az, 2) + numb - 1) / numb : 0;
                if (want * size + 32 > 4096) continue;
                unsigned char *buf = raw + 8 + al; memset (raw, 0xA5, 4096);
                void *ret = mpz_export (buf, &count, order, size, endian, nail, z);
                int ok = ret == buf && count == want, e = endian ? endian : -1; n++;
                for (size_t w = 0; ok && w < count; w++)
                  {
                    unsigned char *wp = buf + (order == -1 ? w : count - 1 - w) * size;
                    for (size_t j = 0; ok && j < size; j++)
                      { unsigned char got = wp[e == -1 ? j : size - 1 - j]; unsigned long lo = 8 * j; unsigned wantb = 0; if (lo < numb) wantb = field_of (az, w * numb + lo, numb - lo < 8 ? (unsigned) (numb - lo) : 8); ok = got == wantb; }
                  }
                for (int i = 1; ok && i <= 8; i++) ok = buf[-i] == 0xA5 && buf[count * size + i - 1] == 0xA5;
                if (!ok) { gmp_printf ("FAIL mpz_export z=%Zx size=%zu nail=%zu order=%d endian=%d align=%d count=%zu want_count=%zu bytes:", z, size, nail, order, endian, al, count, want); for (size_t i = 0; i < count * size && i < 48; i++) printf (" %02x", buf[i]); printf ("\n"); return 1; }
                mpz_set_ui (back, 99); mpz_import (back, count, order, size, endian, nail, buf);
                if (mpz_cmp (back, az) != 0 || (back->_mp_size && back->_mp_d[back->_mp_size - 1] == 0) || back->_mp_size < 0)
                  { gmp_printf ("FAIL mpz_import of the exported words: want %Zx got %Zx (size field %d) size=%zu nail=%zu order=%d endian=%d align=%d\n", az, back, back->_mp_size, size, nail, order, endian, al); return 1; }
              }
          }
      }
  printf ("PASS %ld\n", n);
  return 0;
}
