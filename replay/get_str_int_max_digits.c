#include <stdio.h>
#include <stdlib.h>
#include <string.h>
#include "mpir.h"
/* mpz_get_str of a number with more than INT_MAX digits: every character must be a digit character (defect fixed by /repo e76c625) */
int main(void){
  mpz_t x; mpz_init(x); mpz_set_ui(x,1); mpz_mul_2exp(x,x,(1UL<<31)+70); mpz_sub_ui(x,x,1);   /* 2^31+70 one bits */
  char *s = mpz_get_str(NULL, 2, x);
  size_t n = strlen(s); size_t bad=0; for(size_t i=0;i<n;i++) if(s[i]!='1') bad++;
  printf("len=%zu not-a-digit-character=%zu\n", n, bad); return bad!=0 || n != (1UL<<31)+70;
}
