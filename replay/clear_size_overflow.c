#include <stdio.h>
#include <stdlib.h>
#include "mpir.h"
static size_t last_free_size, last_alloc_size;
static void *al(size_t n){ last_alloc_size=n; return malloc(n);} static void *re(void*p,size_t o,size_t n){return realloc(p,n);} static void fr(void*p,size_t n){ last_free_size=n; free(p);} 
int main(){ mp_set_memory_functions(al,re,fr); mpz_t x; mpz_init2(x, (mp_bitcnt_t)1<<34); printf("allocated %zu bytes, alloc=%d limbs\n", last_alloc_size, x->_mp_alloc); mpz_clear(x); printf("free called with size %zu\n", last_free_size); return last_free_size != last_alloc_size; }
