/* /verif/replay/printf_enum.c -- BOUNDED native stand-in for the flag parser of __gmp_doprnt (printf/doprnt.c), which CBMC
 * could not reach (symex path explosion on the copied format string, va_list; DESIGN section 8).
 * Enumerates COMPLETELY the finite grammar
 *     % flags{0..3 of - + space # 0} width{none,1,4,9} precision{none,.0,.1,.3,.5} Z conv{d,i,o,x,X}
 * over values {0,1,5,8,255,4096,-1,-5,-255} and compares gmp_sprintf with the C library's sprintf of the equal long,
 * byte for byte (and then all pairs of ten representative conversions in ONE format string over four values), leaving out exactly what property C18 leaves out: combinations C gives no meaning to ('#' with d/i; '+'
 * or space with the unsigned o/x/X), negative values with o/x/X (signed in MPIR, documented), and '#' with precision 0
 * on the value zero in hex (documented).  Linked with printf/doprnt.c and printf/doprnti.c compiled from /repo's
 * working tree.   Prints "FAIL ..." for the first disagreement (exit 1) or "PASS <n compared>".
 */
#include <stdio.h>
#include <string.h>
#include "mpir.h"
int main (void)
{
  const char fl[] = "-+ #0";
  const char *widths[] = {"", "1", "4", "9"}, *precs[] = {"", ".0", ".1", ".3", ".5"};
  const char convs[] = "dioxX";
  long vals[] = {0, 1, 5, 8, 255, 4096, -1, -5, -255};
  long n = 0;
  mpz_t z; mpz_init (z);
  char fs[4], a[128], b[128], fc[40], fg[40];
  for (int len = 0; len <= 3; len++)
    for (int code = 0; code < (len == 0 ? 1 : len == 1 ? 5 : len == 2 ? 25 : 125); code++)
      {
        int c0 = code;
        for (int k = 0; k < len; k++) { fs[k] = fl[c0 % 5]; c0 /= 5; }
        fs[len] = 0;
        for (int w = 0; w < 4; w++) for (int p = 0; p < 5; p++) for (int c = 0; c < 5; c++) for (int v = 0; v < 9; v++)
          {
            int uns = c >= 2;
            if (vals[v] < 0 && uns) continue;
            if (uns && (strchr (fs, '+') || strchr (fs, ' '))) continue;
            if (!uns && strchr (fs, '#')) continue;
            if (strchr (fs, '#') && c >= 3 && p == 1 && vals[v] == 0) continue;
            sprintf (fc, "%%%s%s%sl%c", fs, widths[w], precs[p], convs[c]);
            sprintf (fg, "%%%s%s%sZ%c", fs, widths[w], precs[p], convs[c]);
            mpz_set_si (z, vals[v]);
            int ra = sprintf (a, fc, vals[v]), rb = gmp_sprintf (b, fg, z);
            n++;
            if (ra != rb || strcmp (a, b))
              { printf ("FAIL gmp_sprintf format=\"%s\" value=%ld: MPIR=[%s] (%d) C library=[%s] (%d) for \"%s\"\n", fg, vals[v], b, rb, a, ra, fc); return 1; }
          }
      }
  /* two conversions in one format: the state of one conversion must not leak into the next */
  {
    const char *c1[] = {"%Zd", "%#Zx", "%#Zo", "%+Zd", "%-6Zd|", "%06Zd", "%.3Zd", "% Zd", "%#ZX", "%08.3Zx"};
    const char *l1[] = {"%ld", "%#lx", "%#lo", "%+ld", "%-6ld|", "%06ld", "%.3ld", "% ld", "%#lX", "%08.3lx"};
    long v2[] = {0, 7, 255, -9};
    mpz_t y; mpz_init (y);
    for (int i = 0; i < 10; i++) for (int j = 0; j < 10; j++) for (int a1 = 0; a1 < 4; a1++) for (int b1 = 0; b1 < 4; b1++)
      {
        int ui = strchr (c1[i], 'x') || strchr (c1[i], 'X') || strchr (c1[i], 'o'), uj = strchr (c1[j], 'x') || strchr (c1[j], 'X') || strchr (c1[j], 'o');
        if ((ui && v2[a1] < 0) || (uj && v2[b1] < 0)) continue;
        sprintf (fc, "%s %s", l1[i], l1[j]); sprintf (fg, "%s %s", c1[i], c1[j]);
        mpz_set_si (z, v2[a1]); mpz_set_si (y, v2[b1]);
        int ra = sprintf (a, fc, v2[a1], v2[b1]), rb = gmp_sprintf (b, fg, z, y);
        n++;
        if (ra != rb || strcmp (a, b))
          { printf ("FAIL gmp_sprintf format=\"%s\" values=%ld,%ld: MPIR=[%s] (%d) C library=[%s] (%d)\n", fg, v2[a1], v2[b1], b, rb, a, ra); return 1; }
      }
  }
  printf ("PASS %ld\n", n);
  return 0;
}
