/* /verif/replay/smallops_enum.c -- BOUNDED native stand-ins (never counted as proof): complete enumeration of a small operand space
   against the real code built from /repo's working tree.
     mode logic   : mpz_and / mpz_ior / mpz_xor, every ordered pair of operands, alias modes (distinct, r == a, r == b, a == b)         [C10, C05]
     mode bits    : mpz_setbit / mpz_clrbit / mpz_combit, every operand x bit index from BITS                                           [C10]
     mode div2exp : mpz_{t,f,c}div_{q,r}_2exp, every operand x count from BITS, w == u and w != u                                        [C02, C05]
     mode aorsmul : mpz_addmul_ui / mpz_submul_ui / mpz_addmul / mpz_submul (w, x, y) and mpz_mul (all alias modes) against two's-complement
                    schoolbook arithmetic modulo 2^512 written here                                                                      [C01, C05]
     mode mpq2exp : mpq_mul_2exp / mpq_div_2exp, every canonical num/den pair from the operand table x count from BITS, dst == src or not  [C12, C05]
   Operand space: 0..3 limbs over the limb alphabet {0, 1, 5, 2^63, 2^64-5, 2^64-1} (top limb non-zero), both signs: 431 values; destination
   allocations 1 limb (forces every realloc path) or generous.
   Oracles, from first principles: the two's-complement limb function  tc(z)[k] = z >= 0 ? Z[k] : ~(|z| - 1)[k];  for division
   u == q * 2^cnt + r with the remainder range of the rounding mode (that pair of conditions defines q and r uniquely). */
#include <stdio.h>
#include <stdlib.h>
#include <string.h>
#include "mpir.h"
typedef mp_limb_t L;
static const L A[6] = {0, 1, 5, (L) 1 << 63, ~(L) 0 - 4, ~(L) 0};
static const unsigned long BITS[] = {0, 1, 2, 62, 63, 64, 65, 66, 127, 128, 129, 130, 191, 192, 193, 200, 255, 256, 260};
#define NB (sizeof BITS / sizeof BITS[0])
#define NV 431
static mpz_t V[NV]; static int nv;
static L tc (const mpz_t z, int k)
{
  int n = abs (z->_mp_size);
  if (z->_mp_size >= 0) return k < n ? z->_mp_d[k] : 0;
  /* limb k of ~(|z| - 1): borrow runs through the low zero limbs */
  int lz = 0; while (z->_mp_d[lz] == 0) lz++;
  if (k >= n) return ~(L) 0;
  return ~(z->_mp_d[k] - (k <= lz ? 1 : 0));
}
static int wf (const mpz_t z) { int n = abs (z->_mp_size); return z->_mp_alloc >= 1 && n <= z->_mp_alloc && (n == 0 || z->_mp_d[n - 1] != 0); }
static void show (const char *nm, const mpz_t z) { int n = abs (z->_mp_size); printf (" %s(size=%d)=[", nm, z->_mp_size); for (int i = 0; i < n; i++) printf ("%s%#lx", i ? "," : "", (unsigned long) z->_mp_d[i]); printf ("]"); }
static void build (void)
{
  nv = 0; mpz_init (V[nv++]);
  for (int n = 1; n <= 3; n++)
    {
      int idx[3] = {0, 0, 0};
      for (;;)
        {
          if (A[idx[n - 1]] != 0)
            for (int s = 0; s < 2; s++)
              { mpz_init2 (V[nv], 64 * n); for (int i = 0; i < n; i++) V[nv]->_mp_d[i] = A[idx[i]]; V[nv]->_mp_size = s ? -n : n; nv++; }
          int p = 0; while (p < n && ++idx[p] == 6) idx[p++] = 0;
          if (p == n) break;
        }
    }
}
static void fresh (mpz_t r, int big) { if (big) mpz_init2 (r, 64 * 6); else mpz_init (r); r->_mp_d[0] = 0x5a5a5a5a5a5a5a5aUL; }
static long cases;
static int logic (void)
{
  for (int op = 0; op < 3; op++)
    for (int i = 0; i < nv; i++)
      for (int j = 0; j < nv; j++)
        for (int al = 0; al < 4; al++)
          {
            if (al == 3 && i != j) continue;
            mpz_t a, b, r; mpz_init_set (a, V[i]); mpz_init_set (b, V[j]); fresh (r, (i + j) & 1);
            mpz_ptr rr = al == 1 ? a : al == 2 ? b : r; mpz_srcptr bb = al == 3 ? a : b;
            if (op == 0) mpz_and (rr, a, bb); else if (op == 1) mpz_ior (rr, a, bb); else mpz_xor (rr, a, bb);
            int bad = !wf (rr);
            for (int k = 0; k < 6 && !bad; k++)
              { L x = tc (V[i], k), y = tc (V[j], k), w = op == 0 ? (x & y) : op == 1 ? (x | y) : (x ^ y); if (tc (rr, k) != w) bad = 1; }
            if (al != 1 && al != 3 && mpz_cmp (a, V[i])) bad = 1;             /* input-only operands unchanged */
            if (al != 2 && mpz_cmp (b, V[j])) bad = 1;
            if (bad) { printf ("FAIL %s", op == 0 ? "mpz_and" : op == 1 ? "mpz_ior" : "mpz_xor"); show ("op1", V[i]); show ("op2", V[j]); show ("res", rr); printf (" alias=%d: two's-complement limbs differ, result not normalised, or a source changed\n", al); return 1; }
            mpz_clear (a); mpz_clear (b); mpz_clear (r); cases++;
          }
  return 0;
}
static int bits (void)
{
  for (int op = 0; op < 3; op++)
    for (int i = 0; i < nv; i++)
      for (unsigned t = 0; t < NB; t++)
        for (int big = 0; big < 2; big++)
          {
            mpz_t a; mpz_init_set (a, V[i]); if (big) mpz_realloc2 (a, 64 * 8);
            unsigned long sb = BITS[t];
            if (op == 0) mpz_setbit (a, sb); else if (op == 1) mpz_clrbit (a, sb); else mpz_combit (a, sb);
            int bad = !wf (a);
            for (int k = 0; k < 7 && !bad; k++)
              { L x = tc (V[i], k), m = (unsigned long) k == sb / 64 ? (L) 1 << (sb % 64) : 0, w = op == 0 ? (x | m) : op == 1 ? (x & ~m) : (x ^ m); if (tc (a, k) != w) bad = 1; }
            if (bad) { printf ("FAIL %s", op == 0 ? "mpz_setbit" : op == 1 ? "mpz_clrbit" : "mpz_combit"); show ("d", V[i]); printf (" bit=%lu", sb); show ("result", a); printf ("\n"); return 1; }
            mpz_clear (a); cases++;
          }
  return 0;
}
static int div2exp (void)
{
  static const char *nm[6] = {"mpz_tdiv_q_2exp", "mpz_tdiv_r_2exp", "mpz_fdiv_q_2exp", "mpz_fdiv_r_2exp", "mpz_cdiv_q_2exp", "mpz_cdiv_r_2exp"};
  mpz_t p, t, q, r; mpz_init (p); mpz_init (t); mpz_init (q); mpz_init (r);
  for (int f = 0; f < 6; f++)
    for (int i = 0; i < nv; i++)
      for (unsigned c = 0; c < NB; c++)
        for (int al = 0; al < 2; al++)
          {
            unsigned long cnt = BITS[c]; mpz_t u, w; mpz_init_set (u, V[i]); fresh (w, (i + c) & 1);
            mpz_ptr ww = al ? u : w;
            switch (f) { case 0: mpz_tdiv_q_2exp (ww, u, cnt); break; case 1: mpz_tdiv_r_2exp (ww, u, cnt); break; case 2: mpz_fdiv_q_2exp (ww, u, cnt); break;
                         case 3: mpz_fdiv_r_2exp (ww, u, cnt); break; case 4: mpz_cdiv_q_2exp (ww, u, cnt); break; default: mpz_cdiv_r_2exp (ww, u, cnt); }
            int bad = !wf (ww);
            mpz_set_ui (p, 0); mpz_setbit (p, cnt);                                   /* p = 2^cnt */
            if (f % 2 == 0) { mpz_mul_2exp (t, ww, cnt); mpz_sub (r, V[i], t); }       /* quotient form: r = u - q * 2^cnt */
            else { mpz_set (r, ww); mpz_sub (t, V[i], r); if (!mpz_divisible_2exp_p (t, cnt)) bad = 1; }
            int sr = mpz_sgn (r), su = mpz_sgn (V[i]);
            if (mpz_cmpabs (r, p) >= 0) bad = 1;                                      /* |r| < 2^cnt */
            if (f < 2 && sr != 0 && sr != su) bad = 1;                                /* truncation: r has the sign of u */
            if ((f == 2 || f == 3) && sr < 0) bad = 1;                                /* floor: r >= 0 */
            if (f >= 4 && sr > 0) bad = 1;                                            /* ceiling: r <= 0 */
            if (!al && mpz_cmp (u, V[i])) bad = 1;
            if (bad) { printf ("FAIL %s", nm[f]); show ("u", V[i]); printf (" cnt=%lu", cnt); show ("result", ww); printf (" alias=%d: u != q*2^cnt + r with the remainder range of the rounding mode, or result not normalised\n", al); return 1; }
            mpz_clear (u); mpz_clear (w); cases++;
          }
  return 0;
}
/* ---- C01: w +- x*y and x*y against arithmetic modulo 2^(64*NW) on two's-complement limb strings (every value here is below 2^448 in magnitude) */
#define NW 8
typedef unsigned __int128 LL;
static void tcv (const mpz_t z, L *o) { for (int k = 0; k < NW; k++) o[k] = tc (z, k); }
static void mulv (const L *a, const L *b, L *o)
{
  for (int k = 0; k < NW; k++) o[k] = 0;
  for (int i = 0; i < NW; i++)
    { L cy = 0; for (int j = 0; i + j < NW; j++) { LL t = (LL) a[i] * b[j] + o[i + j] + cy; o[i + j] = (L) t; cy = (L) (t >> 64); } }
}
static void addv (L *a, const L *b, int sub) { L cy = sub; for (int k = 0; k < NW; k++) { LL t = (LL) a[k] + (sub ? ~b[k] : b[k]) + cy; a[k] = (L) t; cy = (L) (t >> 64); } }
static int eqv (const mpz_t z, const L *e) { for (int k = 0; k < NW; k++) if (tc (z, k) != e[k]) return 0; return 1; }
static int aorsmul (void)
{
  static const char *nm[5] = {"mpz_addmul_ui", "mpz_submul_ui", "mpz_addmul", "mpz_submul", "mpz_mul"};
  L ew[NW], ex[NW], ey[NW], ep[NW];
  /* w +- x*y: w = V[i], x = V[j]; y over the limb alphabet (_ui forms) or over 20 values of 0..2 limbs (mpz forms); alias 0 distinct, 1 w == x, 2 w == y, 3 x == y */
  for (int op = 0; op < 4; op++)
    for (int i = 0; i < nv; i++)
      for (int j = 0; j < nv; j++)
        for (int t = 0; t < (op < 2 ? 6 : 20); t++)
          for (int al = 0; al < (op < 2 ? 2 : 4); al++)
            {
              int yi = op < 2 ? -1 : (t < 11 ? t : 11 + (t - 11) * 7);
              if (al == 1 && i != j) continue;
              if (al == 2 && yi != i) continue;
              if (al == 3 && yi != j) continue;
              mpz_t w, x, y; mpz_init_set (w, V[i]); mpz_init_set (x, V[j]); mpz_init (y);
              L yu = 0;
              if (op < 2) { yu = A[t]; mpz_set_ui (y, yu); } else mpz_set (y, V[yi]);
              tcv (V[i], ew); tcv (V[j], ex); tcv (y, ey); mulv (ex, ey, ep); addv (ew, ep, op == 1 || op == 3);
              mpz_srcptr xx = al == 1 ? w : x, yy = al == 2 ? w : al == 3 ? x : y;
              switch (op) { case 0: mpz_addmul_ui (w, xx, yu); break; case 1: mpz_submul_ui (w, xx, yu); break; case 2: mpz_addmul (w, xx, yy); break; default: mpz_submul (w, xx, yy); }
              int bad = !wf (w) || !eqv (w, ew);
              if (al != 1 && mpz_cmp (x, V[j])) bad = 1;                                /* input-only operands unchanged */
              if (op >= 2 && al != 2 && mpz_cmp (y, V[yi])) bad = 1;
              if (bad) { printf ("FAIL %s", nm[op]); show ("w", V[i]); show ("x", V[j]); if (op < 2) printf (" y=%#lx", (unsigned long) yu); else show ("y", V[yi]); show ("result", w);
                         printf (" alias=%d: result differs from w +- x*y (two's-complement schoolbook), is not normalised, or a source changed\n", al); return 1; }
              mpz_clear (w); mpz_clear (x); mpz_clear (y); cases++;
            }
  /* r = x*y: alias 0 all distinct, 1 r == x, 2 r == y, 3 x == y (r distinct), 4 r == x == y */
  for (int i = 0; i < nv; i++)
    for (int j = 0; j < nv; j++)
      for (int al = 0; al < 5; al++)
        {
          if (al >= 3 && i != j) continue;
          mpz_t r, x, y; fresh (r, (i + j) & 1); mpz_init_set (x, V[i]); mpz_init_set (y, V[j]);
          tcv (V[i], ex); tcv (V[j], ey); mulv (ex, ey, ew);
          mpz_ptr rr = (al == 1 || al == 4) ? x : al == 2 ? y : r; mpz_srcptr xx = x, yy = (al == 3 || al == 4) ? x : y;
          mpz_mul (rr, xx, yy);
          int bad = !wf (rr) || !eqv (rr, ew);
          if (rr != x && mpz_cmp (x, V[i])) bad = 1;
          if (rr != y && mpz_cmp (y, V[j])) bad = 1;
          if (bad) { printf ("FAIL mpz_mul"); show ("x", V[i]); show ("y", V[j]); show ("result", rr); printf (" alias=%d: result differs from x*y (two's-complement schoolbook), is not normalised, or a source changed\n", al); return 1; }
          mpz_clear (r); mpz_clear (x); mpz_clear (y); cases++;
        }
  return 0;
}
/* ---- C12: dst = src * 2^n (resp. / 2^n): cross-multiplied identity  num(dst) * den(src) * [2^n] == num(src) * den(dst) * [2^n], dst canonical */
static int mpq2exp (void)
{
  mpz_t g, l, r; mpz_init (g); mpz_init (l); mpz_init (r);
  for (int op = 0; op < 2; op++)
    for (int i = 0; i < nv; i++)
      for (int j = 1; j < nv; j += 2)                 /* odd indices: the positive values */
        {
          if (V[j]->_mp_size <= 0) { printf ("ERROR operand table order\n"); return 2; }
          mpz_gcd (g, V[i], V[j]);
          if (mpz_cmp_ui (g, 1) != 0) continue;        /* canonical sources only */
          for (unsigned c = 0; c < NB; c++)
            for (int al = 0; al < 2; al++)
              {
                unsigned long n = BITS[c];
                mpq_t a, b; mpq_init (a); mpq_init (b); mpz_set (mpq_numref (a), V[i]); mpz_set (mpq_denref (a), V[j]);
                mpz_set_ui (mpq_numref (b), 0x5a5a); mpz_set_ui (mpq_denref (b), 77);
                mpq_ptr d = al ? a : b;
                if (op == 0) mpq_mul_2exp (d, a, n); else mpq_div_2exp (d, a, n);
                int bad = !wf (mpq_numref (d)) || !wf (mpq_denref (d)) || mpz_sgn (mpq_denref (d)) <= 0;
                mpz_gcd (g, mpq_numref (d), mpq_denref (d));
                if (mpz_cmp_ui (g, 1) != 0) bad = 1;                                          /* canonical: gcd 1 (0 is 0/1) */
                mpz_mul (l, mpq_numref (d), V[j]); mpz_mul (r, V[i], mpq_denref (d));
                if (op == 0) mpz_mul_2exp (r, r, n); else mpz_mul_2exp (l, l, n);
                if (mpz_cmp (l, r)) bad = 1;
                if (!al && (mpz_cmp (mpq_numref (a), V[i]) || mpz_cmp (mpq_denref (a), V[j]))) bad = 1;
                if (bad) { printf ("FAIL %s", op == 0 ? "mpq_mul_2exp" : "mpq_div_2exp"); show ("num", V[i]); show ("den", V[j]); printf (" n=%lu", n); show ("result_num", mpq_numref (d)); show ("result_den", mpq_denref (d));
                           printf (" alias=%d: result is not src * 2^+-n in canonical form, or the source changed\n", al); return 1; }
                mpq_clear (a); mpq_clear (b); cases++;
              }
        }
  return 0;
}
int main (int argc, char **argv)
{
  build ();
  if (nv != NV) { printf ("ERROR operand table %d\n", nv); return 2; }
  const char *m = argc > 1 ? argv[1] : "";
  int r = !strcmp (m, "logic") ? logic () : !strcmp (m, "bits") ? bits () : !strcmp (m, "div2exp") ? div2exp () : !strcmp (m, "aorsmul") ? aorsmul () : !strcmp (m, "mpq2exp") ? mpq2exp () : 2;
  if (r == 0) printf ("PASS %ld cases (%s)\n", cases, m);
  return r;
}
