/* /verif/replay/smallops_enum.c -- BOUNDED native stand-ins (never counted as proof): complete enumeration of a small operand space
   against the real code built from /repo's working tree.
     mode logic   : mpz_and / mpz_ior / mpz_xor, every ordered pair of operands, alias modes (distinct, r == a, r == b, a == b)         [C10, C05]
     mode bits    : mpz_setbit / mpz_clrbit / mpz_combit, every operand x bit index from BITS                                           [C10]
     mode div2exp : mpz_{t,f,c}div_{q,r}_2exp, every operand x count from BITS, w == u and w != u                                        [C02, C05]
   Operand space: 0..3 limbs over the limb alphabet {0, 1, 5, 2^63, 2^64-5, 2^64-1} (top limb non-zero), both signs: 431 values; destination
   allocations 1 limb (forces every realloc path) or generous.
   Oracles, from first principles: the two's-complement limb function  tc(z)[k] = z >= 0 ? Z[k] : ~(|z| - 1)[k];  for division
   u == q * 2^cnt + r with the remainder range of the rounding mode (that pair of conditions defines q and r uniquely). */
#include <stdio.h>
#include <stdlib.h>
#include <string.h>
#include "mpir.h"
typedef mp_limb_t L;
static const L A[6] = {0, 1, 5, (L) 1 << 63, ~(L) 0 - 4, ~(L) 0};
static const unsigned long BITS[] = {0, 1, 2, 62, 63, 64, 65, 66, 127, 128, 129, 130, 191, 192, 193, 200, 255, 256, 260};
#define NB (sizeof BITS / sizeof BITS[0])
#define NV 431
static mpz_t V[NV]; static int nv;
static L tc (const mpz_t z, int k)
{
  int n = abs (z->_mp_size);
  if (z->_mp_size >= 0) return k < n ? z->_mp_d[k] : 0;
  /* limb k of ~(|z| - 1): borrow runs through the low zero limbs */
  int lz = 0; while (z->_mp_d[lz] == 0) lz++;
  if (k >= n) return ~(L) 0;
  return ~(z->_mp_d[k] - (k <= lz ? 1 : 0));
}
static int wf (const mpz_t z) { int n = abs (z->_mp_size); return z->_mp_alloc >= 1 && n <= z->_mp_alloc && (n == 0 || z->_mp_d[n - 1] != 0); }
static void show (const char *nm, const mpz_t z) { int n = abs (z->_mp_size); printf (" %s(size=%d)=[", nm, z->_mp_size); for (int i = 0; i < n; i++) printf ("%s%#lx", i ? "," : "", (unsigned long) z->_mp_d[i]); printf ("]"); }
static void build (void)
{
  nv = 0; mpz_init (V[nv++]);
  for (int n = 1; n <= 3; n++)
    {
      int idx[3] = {0, 0, 0};
      for (;;)
        {
          if (A[idx[n - 1]] != 0)
            for (int s = 0; s < 2; s++)
              { mpz_init2 (V[nv], 64 * n); for (int i = 0; i < n; i++) V[nv]->_mp_d[i] = A[idx[i]]; V[nv]->_mp_size = s ? -n : n; nv++; }
          int p = 0; while (p < n && ++idx[p] == 6) idx[p++] = 0;
          if (p == n) break;
        }
    }
}
static void fresh (mpz_t r, int big) { if (big) mpz_init2 (r, 64 * 6); else mpz_init (r); r->_mp_d[0] = 0x5a5a5a5a5a5a5a5aUL; }
static long cases;
static int logic (void)
{
  for (int op = 0; op < 3; op++)
    for (int i = 0; i < nv; i++)
      for (int j = 0; j < nv; j++)
        for (int al = 0; al < 4; al++)
          {
            if (al == 3 && i != j) continue;
            mpz_t a, b, r; mpz_init_set (a, V[i]); mpz_init_set (b, V[j]); fresh (r, (i + j) & 1);
            mpz_ptr rr = al == 1 ? a : al == 2 ? b : r; mpz_srcptr bb = al == 3 ? a : b;
            if (op == 0) mpz_and (rr, a, bb); else if (op == 1) mpz_ior (rr, a, bb); else mpz_xor (rr, a, bb);
            int bad = !wf (rr);
            for (int k = 0; k < 6 && !bad; k++)
              { L x = tc (V[i], k), y = tc (V[j], k), w = op == 0 ? (x & y) : op == 1 ? (x | y) : (x ^ y); if (tc (rr, k) != w) bad = 1; }
            if (al != 1 && al != 3 && mpz_cmp (a, V[i])) bad = 1;             /* input-only operands unchanged */
            if (al != 2 && mpz_cmp (b, V[j])) bad = 1;
            if (bad) { printf ("FAIL %s", op == 0 ? "mpz_and" : op == 1 ? "mpz_ior" : "mpz_xor"); show ("op1", V[i]); show ("op2", V[j]); show ("res", rr); printf (" alias=%d: two's-complement limbs differ, result not normalised, or a source changed\n", al); return 1; }
            mpz_clear (a); mpz_clear (b); mpz_clear (r); cases++;
          }
  return 0;
}
static int bits (void)
{
  for (int op = 0; op < 3; op++)
    for (int i = 0; i < nv; i++)
      for (unsigned t = 0; t < NB; t++)
        for (int big = 0; big < 2; big++)
          {
            mpz_t a; mpz_init_set (a, V[i]); if (big) mpz_realloc2 (a, 64 * 8);
            unsigned long sb = BITS[t];
            if (op == 0) mpz_setbit (a, sb); else if (op == 1) mpz_clrbit (a, sb); else mpz_combit (a, sb);
            int bad = !wf (a);
            for (int k = 0; k < 7 && !bad; k++)
              { L x = tc (V[i], k), m = (unsigned long) k == sb / 64 ? (L) 1 << (sb % 64) : 0, w = op == 0 ? (x | m) : op == 1 ? (x & ~m) : (x ^ m); if (tc (a, k) != w) bad = 1; }
            if (bad) { printf ("FAIL %s", op == 0 ? "mpz_setbit" : op == 1 ? "mpz_clrbit" : "mpz_combit"); show ("d", V[i]); printf (" bit=%lu", sb); show ("result", a); printf ("\n"); return 1; }
            mpz_clear (a); cases++;
          }
  return 0;
}
static int div2exp (void)
{
  static const char *nm[6] = {"mpz_tdiv_q_2exp", "mpz_tdiv_r_2exp", "mpz_fdiv_q_2exp", "mpz_fdiv_r_2exp", "mpz_cdiv_q_2exp", "mpz_cdiv_r_2exp"};
  mpz_t p, t, q, r; mpz_init (p); mpz_init (t); mpz_init (q); mpz_init (r);
  for (int f = 0; f < 6; f++)
    for (int i = 0; i < nv; i++)
      for (unsigned c = 0; c < NB; c++)
        for (int al = 0; al < 2; al++)
          {
            unsigned long cnt = BITS[c]; mpz_t u, w; mpz_init_set (u, V[i]); fresh (w, (i + c) & 1);
            mpz_ptr ww = al ? u : w;
            switch (f) { case 0: mpz_tdiv_q_2exp (ww, u, cnt); break; case 1: mpz_tdiv_r_2exp (ww, u, cnt); break; case 2: mpz_fdiv_q_2exp (ww, u, cnt); break;
                         case 3: mpz_fdiv_r_2exp (ww, u, cnt); break; case 4: mpz_cdiv_q_2exp (ww, u, cnt); break; default: mpz_cdiv_r_2exp (ww, u, cnt); }
            int bad = !wf (ww);
            mpz_set_ui (p, 0); mpz_setbit (p, cnt);                                   /* p = 2^cnt */
            if (f % 2 == 0) { mpz_mul_2exp (t, ww, cnt); mpz_sub (r, V[i], t); }       /* quotient form: r = u - q * 2^cnt */
            else { mpz_set (r, ww); mpz_sub (t, V[i], r); if (!mpz_divisible_2exp_p (t, cnt)) bad = 1; }
            int sr = mpz_sgn (r), su = mpz_sgn (V[i]);
            if (mpz_cmpabs (r, p) >= 0) bad = 1;                                      /* |r| < 2^cnt */
            if (f < 2 && sr != 0 && sr != su) bad = 1;                                /* truncation: r has the sign of u */
            if ((f == 2 || f == 3) && sr < 0) bad = 1;                                /* floor: r >= 0 */
            if (f >= 4 && sr > 0) bad = 1;                                            /* ceiling: r <= 0 */
            if (!al && mpz_cmp (u, V[i])) bad = 1;
            if (bad) { printf ("FAIL %s", nm[f]); show ("u", V[i]); printf (" cnt=%lu", cnt); show ("result", ww); printf (" alias=%d: u != q*2^cnt + r with the remainder range of the rounding mode, or result not normalised\n", al); return 1; }
            mpz_clear (u); mpz_clear (w); cases++;
          }
  return 0;
}
int main (int argc, char **argv)
{
  build ();
  if (nv != NV) { printf ("ERROR operand table %d\n", nv); return 2; }
  const char *m = argc > 1 ? argv[1] : "";
  int r = !strcmp (m, "logic") ? logic () : !strcmp (m, "bits") ? bits () : !strcmp (m, "div2exp") ? div2exp () : 2;
  if (r == 0) printf ("PASS %ld cases (%s)\n", cases, m);
  return r;
}
