#include <stdio.h>
#include <stdlib.h>
#include "mpir.h"
int main(void){
  gmp_randstate_t st; mpz_t a,x; mpz_init_set_ui(a,0x5851F42D4C957F2DUL|5); mpz_init(x);
  gmp_randinit_lc_2exp(st,a,1,129); gmp_randseed_ui(st,12345);
  mpz_realloc2(x,64);
  for(int k=0;k<4;k++){ mpz_urandomb(x,st,64); gmp_printf("%Zx alloc=%d size=%d\n",x,x->_mp_alloc,x->_mp_size); }
  gmp_randclear(st); mpz_clear(a); mpz_clear(x); return 0;
}
