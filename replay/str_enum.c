/* /verif/replay/str_enum.c -- BOUNDED native stand-in (never counted as proof) for the general-base string conversions of C06, against the real
   code built from /repo's working tree.
     for every base in {3, 6, 7, 10, 12, 36, 60, 62} x every length in LEN (around the basecase / divide-and-conquer / precomputed-power thresholds)
     x every digit pattern of the family below:
        value  = Horner evaluation of the digit string with mpz_mul_ui / mpz_add_ui (the kernels proved under C01/C03; no string code involved)
        checks : mpz_set_str (string) == value;  mpz_get_str (value) == the string without leading zeros;  strlen <= mpz_sizeinbase <= strlen + 1;
                 the same with a leading '-' and with blanks sprinkled into the string (white space is skipped by the manual's rule).
   Digit patterns: pseudo-random digits (fixed LCG seed) with a run of ZERO digits [a, b) and a run of (base-1) digits elsewhere, a and b on a grid of
   STEP positions - the inputs uniform random operands never produce (zero runs in a non-power-of-two base), which is where the divide-and-conquer
   code paths (high half zero, stripped low zero limbs of the power table) differ. */
#include <stdio.h>
#include <stdlib.h>
#include <string.h>
#include "mpir.h"
static const int BASES[] = {3, 6, 7, 10, 12, 36, 60, 62};
static const int LEN[] = {1, 2, 19, 20, 21, 40, 700, 1500, 1973, 2100, 4500};
static unsigned long lcg = 12345;
static unsigned rnd (void) { lcg = lcg * 6364136223846793005UL + 1442695040888963407UL; return (unsigned) (lcg >> 33); }
static char dch (int d, int base) { if (d < 10) return '0' + d; if (base <= 36) return 'a' + d - 10; return d < 36 ? 'A' + d - 10 : 'a' + d - 36; }
static long cases;
static int one (int base, const unsigned char *dig, int len, int neg, int blanks)
{
  mpz_t v, x; mpz_init (v); mpz_init (x);
  for (int i = 0; i < len; i++) { mpz_mul_ui (v, v, base); mpz_add_ui (v, v, dig[i]); }
  if (neg) mpz_neg (v, v);
  char *s = malloc (2 * len + 8), *p = s;
  if (blanks) *p++ = ' ';
  if (neg) *p++ = '-';
  for (int i = 0; i < len; i++) { *p++ = dch (dig[i], base); if (blanks && i % 97 == 13) *p++ = (i % 2) ? ' ' : '\t'; }
  *p = 0;
  int bad = 0; const char *why = "";
  if (mpz_set_str (x, s, base) != 0) { bad = 1; why = "mpz_set_str rejected a valid string"; }
  else if (mpz_cmp (x, v) != 0) { bad = 1; why = "mpz_set_str: value differs from the Horner evaluation of the digits"; }
  if (!bad && !blanks)
    {
      char *g = mpz_get_str (NULL, base, v);
      int lz = 0; while (lz < len - 1 && dig[lz] == 0) lz++;
      const char *want = s + neg + lz;
      int allzero = (mpz_sgn (v) == 0);
      if (allzero ? strcmp (g, "0") != 0 : (g[0] == '-') != neg || strcmp (g + neg, want) != 0) { bad = 1; why = "mpz_get_str: string differs from the digits"; }
      size_t sl = strlen (g) - (g[0] == '-'), sb = mpz_sizeinbase (v, base);
      if (!bad && !(sl <= sb && sb <= sl + 1)) { bad = 1; why = "mpz_sizeinbase outside [digits, digits + 1]"; }
      free (g);
    }
  if (bad)
    {
      printf ("FAIL base=%d len=%d neg=%d blanks=%d: %s; digits (first 60) =", base, len, neg, blanks, why);
      for (int i = 0; i < len && i < 60; i++) printf (" %d", dig[i]);
      printf ("\n");
    }
  mpz_clear (v); mpz_clear (x); free (s); cases++;
  return bad;
}
int main (void)
{
  for (unsigned b = 0; b < sizeof BASES / sizeof BASES[0]; b++)
    for (unsigned l = 0; l < sizeof LEN / sizeof LEN[0]; l++)
      {
        int base = BASES[b], len = LEN[l], step = len < 100 ? 1 : len / 18 + 1;
        unsigned char *dig = malloc (len);
        for (int a = 0; a <= len; a += step)
          for (int e = a; e <= len; e += step)
            {
              for (int i = 0; i < len; i++) dig[i] = rnd () % base;
              for (int i = a; i < e; i++) dig[i] = 0;                       /* zero run [a, e) counted from the most significant digit */
              if (a >= 2 * step) for (int i = a - 2 * step; i < a - step; i++) dig[i] = base - 1;
              if (dig[0] == 0 && a != 0) dig[0] = 1;
              int variant = (a / step + e / step) % 4;
              if (one (base, dig, len, variant & 1, variant == 2)) return 1;
            }
        free (dig);
      }
  printf ("PASS %ld cases (string conversions, general bases)\n", cases);
  return 0;
}
