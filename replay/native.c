/* /verif/replay/native.c -- native replay driver (DESIGN.md section 5).
 *
 * Linked with the unit's source file compiled by gcc from /repo's working tree (so a changed function is the one that
 * runs) and /repo/.libs/libmpir.a for everything else.  For the named function it evaluates the SAME limb-wise contract
 * the verifier proves, at EVERY position, with an independent reference (schoolbook carries in unsigned __int128), over
 * edge patterns and pseudo-random operands.   usage: native <function> <seed> <budget>
 * prints "FAIL <function> <inputs...>" for the first input that violates the contract and exits 1, else "PASS <n>".
 */
#include <stdio.h>
#include <stdlib.h>
#include <string.h>
#include "mpir.h"

typedef unsigned __int128 u128;
typedef mp_limb_t L;
#define MAXN 9
static unsigned long long rs;
static unsigned long long rnd64 (void) { rs ^= rs << 13; rs ^= rs >> 7; rs ^= rs << 17; return rs; }
static L pat (void)
{
  switch (rnd64 () % 10)
    {
    case 0: return 0;
    case 1: return ~(L) 0;
    case 2: return 1;
    case 3: return (L) 1 << 63;
    case 4: return ~(L) 0 - 1;
    case 5: return (L) 1 << (rnd64 () % 64);
    case 6: return ~((L) 1 << (rnd64 () % 64));
    default: return rnd64 ();
    }
}
static void fill (L *p, int n) { for (int i = 0; i < n; i++) p[i] = pat (); }
static void show (const char *nm, const L *p, int n) { printf (" %s=[", nm); for (int i = 0; i < n; i++) printf ("%s%#lx", i ? "," : "", (unsigned long) p[i]); printf ("]"); }
static int failed (const char *f) { printf ("FAIL %s", f); return 1; }

/* ---------------- references */
static L ref_add (L *r, const L *u, int un, const L *v, int vn) { L c = 0; for (int i = 0; i < un; i++) { u128 s = (u128) u[i] + (i < vn ? v[i] : 0) + c; r[i] = (L) s; c = (L) (s >> 64); } return c; }
static L ref_sub (L *r, const L *u, int un, const L *v, int vn) { L b = 0; for (int i = 0; i < un; i++) { u128 s = (u128) u[i] - (i < vn ? v[i] : 0) - b; r[i] = (L) s; b = (L) (s >> 64) & 1; } return b; }
static int ref_cmp (const L *u, const L *v, int n) { for (int i = n - 1; i >= 0; i--) if (u[i] != v[i]) return u[i] > v[i] ? 1 : -1; return 0; }
static int norm (const L *p, int n) { while (n > 0 && p[n - 1] == 0) n--; return n; }

/* signed reference integer: sign + magnitude */
typedef struct { int neg; int n; L d[96]; } R;
static void r_from_mpz (R *r, const mpz_t z) { int s = z->_mp_size; r->neg = s < 0; r->n = s < 0 ? -s : s; memcpy (r->d, z->_mp_d, r->n * sizeof (L)); }
static int r_eq_mpz (const R *r, const mpz_t z)
{
  int s = z->_mp_size, n = s < 0 ? -s : s;
  if (n != r->n) return 0;
  if (n && ((s < 0) != r->neg)) return 0;
  if (n && z->_mp_d[n - 1] == 0) return 0;          /* well-formedness */
  if (n > z->_mp_alloc) return 0;
  return memcmp (r->d, z->_mp_d, n * sizeof (L)) == 0;
}
static void r_addsub (R *w, const R *u, const R *v, int sub)
{
  int vneg = sub ? !v->neg : v->neg;
  if (v->n == 0) vneg = u->neg;
  if (u->n == 0) { *w = *v; w->neg = v->n ? vneg : 0; return; }
  if (u->neg == vneg)
    {
      const R *x = u->n >= v->n ? u : v, *y = u->n >= v->n ? v : u;
      L c = ref_add (w->d, x->d, x->n, y->d, y->n);
      w->n = x->n; if (c) w->d[w->n++] = c;
      w->neg = u->neg;
    }
  else
    {
      int c = u->n != v->n ? (u->n > v->n ? 1 : -1) : ref_cmp (u->d, v->d, u->n);
      if (c == 0) { w->n = 0; w->neg = 0; return; }
      const R *x = c > 0 ? u : v, *y = c > 0 ? v : u;
      ref_sub (w->d, x->d, x->n, y->d, y->n);
      w->n = norm (w->d, x->n);
      w->neg = c > 0 ? u->neg : vneg;
    }
}
static void mk_mpz (mpz_t z, int maxn)
{
  int n = rnd64 () % (maxn + 1);
  mpz_init2 (z, 64 * (1 + rnd64 () % (maxn + 2)));           /* any allocation, also too small: forces realloc paths */
  mpz_realloc2 (z, 64 * (n ? n : 1));
  if (rnd64 () % 3 == 0) mpz_realloc2 (z, 64 * (n + 1 + rnd64 () % 3));
  for (int i = 0; i < n; i++) z->_mp_d[i] = pat ();
  if (n) while (z->_mp_d[n - 1] == 0) z->_mp_d[n - 1] = pat ();
  if (n >= 2 && rnd64 () % 4 == 0) for (int i = 0; i < n - 1; i++) z->_mp_d[i] = 0;      /* low zero limbs */
  z->_mp_size = (rnd64 () & 1) ? -n : n;
}
static void show_z (const char *nm, const mpz_t z) { int n = abs (z->_mp_size); printf (" %s(size=%d,alloc=%d)", nm, z->_mp_size, z->_mp_alloc); show ("", z->_mp_d, n); }

/* ---------------- mpn tests (all positions checked against the reference; every permitted identification of buffers) */
#define BUF L U[MAXN], V[MAXN], Rr[MAXN + 1], X[MAXN + 1], U0[MAXN], V0[MAXN]
static int t_mpn3 (const char *f, int budget)
{
  BUF;
  for (int it = 0; it < budget; it++)
    {
      int n = 1 + rnd64 () % (MAXN - 1), al = rnd64 () % 4;
      fill (U, n); fill (V, n);
      if (it % 7 == 0) for (int i = 0; i < n; i++) V[i] = ~U[i];                /* full propagate chains */
      if (it % 11 == 0) memcpy (V, U, sizeof U);
      memcpy (U0, U, sizeof U); memcpy (V0, V, sizeof V);
      L *rp = Rr, *up = U, *vp = V, cy = 0, want = 0;
      if (al == 1) rp = up; else if (al == 2) rp = vp; else if (al == 3) { vp = up; memcpy (V0, U0, sizeof U0); }
      if (!strcmp (f, "mpn_add_n")) { want = ref_add (X, U0, n, V0, n); cy = mpn_add_n (rp, up, vp, n); }
      else if (!strcmp (f, "mpn_sub_n")) { want = ref_sub (X, U0, n, V0, n); cy = mpn_sub_n (rp, up, vp, n); }
      else
        {
          for (int i = 0; i < n; i++)
            {
              L a = U0[i], b = V0[i];
              X[i] = !strcmp (f, "mpn_and_n") ? (a & b) : !strcmp (f, "mpn_andn_n") ? (a & ~b) : !strcmp (f, "mpn_nand_n") ? ~(a & b)
                   : !strcmp (f, "mpn_ior_n") ? (a | b) : !strcmp (f, "mpn_iorn_n") ? (a | ~b) : !strcmp (f, "mpn_nior_n") ? ~(a | b)
                   : !strcmp (f, "mpn_xor_n") ? (a ^ b) : ~(a ^ b);
            }
          if (!strcmp (f, "mpn_and_n")) mpn_and_n (rp, up, vp, n); else if (!strcmp (f, "mpn_andn_n")) mpn_andn_n (rp, up, vp, n);
          else if (!strcmp (f, "mpn_nand_n")) mpn_nand_n (rp, up, vp, n); else if (!strcmp (f, "mpn_ior_n")) mpn_ior_n (rp, up, vp, n);
          else if (!strcmp (f, "mpn_iorn_n")) mpn_iorn_n (rp, up, vp, n); else if (!strcmp (f, "mpn_nior_n")) mpn_nior_n (rp, up, vp, n);
          else if (!strcmp (f, "mpn_xor_n")) mpn_xor_n (rp, up, vp, n); else mpn_xnor_n (rp, up, vp, n);
        }
      if (cy != want || memcmp (rp, X, n * sizeof (L)))
        { failed (f); printf (" n=%d alias=%d", n, al); show ("u", U0, n); show ("v", V0, n); show ("got", rp, n); show ("want", X, n); printf (" ret=%lu want=%lu\n", (unsigned long) cy, (unsigned long) want); return 1; }
    }
  printf ("PASS %d\n", budget); return 0;
}
static int t_mpn_aors (const char *f, int budget)           /* mpn_add, mpn_sub, add_1, sub_1 */
{
  BUF;
  for (int it = 0; it < budget; it++)
    {
      int xn = 1 + rnd64 () % (MAXN - 1), yn = rnd64 () % (xn + 1), inplace = rnd64 () & 1;
      fill (U, xn); fill (V, yn ? yn : 1);
      if (it % 5 == 0) for (int i = 0; i < xn; i++) U[i] = ~(L) 0;
      if (it % 9 == 0) for (int i = yn; i < xn; i++) U[i] = 0;
      memcpy (U0, U, sizeof U); memcpy (V0, V, sizeof V);
      L *rp = inplace ? U : Rr, cy, want;
      if (!strcmp (f, "mpn_add")) { want = ref_add (X, U0, xn, V0, yn); cy = mpn_add (rp, U, xn, V, yn); }
      else if (!strcmp (f, "mpn_sub")) { want = ref_sub (X, U0, xn, V0, yn); cy = mpn_sub (rp, U, xn, V, yn); }
      else if (!strcmp (f, "mpn_add_1")) { yn = 1; want = ref_add (X, U0, xn, V0, 1); cy = mpn_add_1 (rp, U, xn, V0[0]); }
      else { yn = 1; want = ref_sub (X, U0, xn, V0, 1); cy = mpn_sub_1 (rp, U, xn, V0[0]); }
      if (cy != want || memcmp (rp, X, xn * sizeof (L)))
        { failed (f); printf (" xn=%d yn=%d inplace=%d", xn, yn, inplace); show ("x", U0, xn); show ("y", V0, yn); show ("got", rp, xn); show ("want", X, xn); printf (" ret=%lu want=%lu\n", (unsigned long) cy, (unsigned long) want); return 1; }
    }
  printf ("PASS %d\n", budget); return 0;
}
static int t_mpn_mul1 (const char *f, int budget)
{
  BUF;
  for (int it = 0; it < budget; it++)
    {
      int n = 1 + rnd64 () % (MAXN - 1), inplace = !strcmp (f, "mpn_mul_1") ? (rnd64 () & 1) : 0;
      L v = pat (), c = 0, cy;
      fill (U, n); fill (Rr, n);
      if (it % 4 == 0) { v = ~(L) 0; for (int i = 0; i < n; i++) U[i] = ~(L) 0; }
      memcpy (U0, U, sizeof U); memcpy (V0, Rr, n * sizeof (L));
      for (int i = 0; i < n; i++)
        {
          u128 p = (u128) U0[i] * v + c;
          if (!strcmp (f, "mpn_mul_1")) { X[i] = (L) p; c = (L) (p >> 64); }
          else if (!strcmp (f, "mpn_addmul_1")) { p += V0[i]; X[i] = (L) p; c = (L) (p >> 64); }
          else { L lo = (L) p; X[i] = V0[i] - lo; c = (L) (p >> 64) + (V0[i] < lo); }
        }
      L *rp = inplace ? U : Rr;
      L OV[2 * MAXN]; const L *srcp = U;
      if (!strcmp (f, "mpn_mul_1") && it % 3 == 1)
        { /* the manual permits rp <= up with overlap: destination `off` limbs below the source inside one buffer */
          int off = 1 + rnd64 () % n; memcpy (OV + off, U0, n * sizeof (L)); rp = OV; srcp = OV + off; inplace = 2 + off;
          if (it % 2) v = (L) 1 << (1 + rnd64 () % 63);
          c = 0; for (int i = 0; i < n; i++) { u128 p = (u128) U0[i] * v + c; X[i] = (L) p; c = (L) (p >> 64); }
        }
      cy = !strcmp (f, "mpn_mul_1") ? mpn_mul_1 (rp, srcp, n, v) : !strcmp (f, "mpn_addmul_1") ? mpn_addmul_1 (rp, U, n, v) : mpn_submul_1 (rp, U, n, v);
      if (cy != c || memcmp (rp, X, n * sizeof (L)))
        { failed (f); printf (" n=%d v=%#lx inplace=%d", n, (unsigned long) v, inplace); show ("u", U0, n); show ("r0", V0, n); show ("got", rp, n); show ("want", X, n); printf (" ret=%#lx want=%#lx\n", (unsigned long) cy, (unsigned long) c); return 1; }
    }
  printf ("PASS %d\n", budget); return 0;
}
static int t_mpn_unary (const char *f, int budget)       /* copyi copyd zero com_n neg_n lshift rshift, with the permitted overlaps */
{
  L B[3 * MAXN], B0[3 * MAXN];
  for (int it = 0; it < budget; it++)
    {
      int n = 1 + rnd64 () % (MAXN - 1), off = rnd64 () % (n + 1), sep = rnd64 () % 3 == 0;
      unsigned cnt = 1 + rnd64 () % 63;
      fill (B, 3 * MAXN); if (it % 6 == 0) for (int i = 0; i < n / 2; i++) B[MAXN + i] = 0;
      memcpy (B0, B, sizeof B);
      L *sp = B + MAXN, *rp, X[MAXN], ret = 0, want = 0;
      int lower = !strcmp (f, "mpn_copyi") || !strcmp (f, "mpn_rshift");           /* dst may sit BELOW src */
      int same_only = !strcmp (f, "mpn_com_n") || !strcmp (f, "mpn_neg_n");
      rp = sep ? B : (same_only ? (off & 1 ? sp : B) : (lower ? sp - off : sp + off));
      const L *s0 = B0 + MAXN;
      if (!strcmp (f, "mpn_copyi") || !strcmp (f, "mpn_copyd")) memcpy (X, s0, n * sizeof (L));
      else if (!strcmp (f, "mpn_zero")) memset (X, 0, sizeof X);
      else if (!strcmp (f, "mpn_com_n")) for (int i = 0; i < n; i++) X[i] = ~s0[i];
      else if (!strcmp (f, "mpn_neg_n")) { L z[MAXN] = {0}; want = ref_sub (X, z, n, s0, n); }
      else if (!strcmp (f, "mpn_lshift")) { for (int i = 0; i < n; i++) X[i] = (s0[i] << cnt) | (i ? s0[i - 1] >> (64 - cnt) : 0); want = s0[n - 1] >> (64 - cnt); }
      else { for (int i = 0; i < n; i++) X[i] = (s0[i] >> cnt) | (i < n - 1 ? s0[i + 1] << (64 - cnt) : 0); want = s0[0] << (64 - cnt); }
      if (!strcmp (f, "mpn_copyi")) mpn_copyi (rp, sp, n); else if (!strcmp (f, "mpn_copyd")) mpn_copyd (rp, sp, n);
      else if (!strcmp (f, "mpn_zero")) mpn_zero (rp, n); else if (!strcmp (f, "mpn_com_n")) mpn_com (rp, sp, n);
      else if (!strcmp (f, "mpn_neg_n")) ret = mpn_neg (rp, sp, n); else if (!strcmp (f, "mpn_lshift")) ret = mpn_lshift (rp, sp, n, cnt);
      else ret = mpn_rshift (rp, sp, n, cnt);
      if (ret != want || memcmp (rp, X, n * sizeof (L)))
        { failed (f); printf (" n=%d cnt=%u dst-src=%ld", n, cnt, (long) (rp - sp)); show ("src", s0, n); show ("got", rp, n); show ("want", X, n); printf (" ret=%#lx want=%#lx\n", (unsigned long) ret, (unsigned long) want); return 1; }
    }
  printf ("PASS %d\n", budget); return 0;
}
static int t_mpn_pred (const char *f, int budget)        /* cmp zero_p scan0 scan1 popcount hamdist */
{
  BUF;
  for (int it = 0; it < budget; it++)
    {
      int n = 1 + rnd64 () % (MAXN - 1);
      fill (U, n); fill (V, n);
      if (it % 3 == 0) { memcpy (V, U, sizeof U); if (it % 2) V[rnd64 () % n] ^= (L) 1 << (rnd64 () % 64); }
      if (it % 5 == 0) memset (U, 0, sizeof U);
      long got, want;
      if (!strcmp (f, "mpn_cmp")) { got = mpn_cmp (U, V, n); want = ref_cmp (U, V, n); got = got > 0 ? 1 : got < 0 ? -1 : 0; }
      else if (!strcmp (f, "mpn_zero_p")) { got = mpn_zero_p (U, n) != 0; want = norm (U, n) == 0; }
      else if (!strcmp (f, "mpn_popcount")) { want = 0; for (int i = 0; i < n; i++) want += __builtin_popcountl (U[i]); got = mpn_popcount (U, n); }
      else if (!strcmp (f, "mpn_hamdist")) { want = 0; for (int i = 0; i < n; i++) want += __builtin_popcountl (U[i] ^ V[i]); got = mpn_hamdist (U, V, n); }
      else
        {
          int one = !strcmp (f, "mpn_scan1");
          U[n - 1] = one ? (U[n - 1] | ((L) 1 << 63)) : (U[n - 1] & ~((L) 1 << 63));          /* the manual's precondition */
          unsigned long sb = rnd64 () % (64 * n);
          want = sb; while (((U[want / 64] >> (want % 64)) & 1) != (L) one) want++;
          got = one ? mpn_scan1 (U, sb) : mpn_scan0 (U, sb);
          if (got != want) { failed (f); printf (" start=%lu", sb); }
        }
      if (got != want) { if (strncmp (f, "mpn_scan", 8)) failed (f); printf (" n=%d", n); show ("u", U, n); show ("v", V, n); printf (" got=%ld want=%ld\n", got, want); return 1; }
    }
  printf ("PASS %d\n", budget); return 0;
}

/* ---------------- mpz tests */
static int t_mpz_aors (const char *f, int budget)
{
  for (int it = 0; it < budget; it++)
    {
      mpz_t w, u, v; R ru, rv, rw;
      mk_mpz (w, 5); mk_mpz (u, 5); mk_mpz (v, 5);
      if (it % 4 == 0) { mpz_set (v, u); if (it % 8 == 0) v->_mp_size = -v->_mp_size; }            /* equal magnitudes */
      if (it % 4 == 1)
        { /* massive cancellation: u = +-B^k (+small), v = -+(B^k - 1 ... ) : the difference loses several limbs */
          int k = 1 + rnd64 () % 4;
          mpz_realloc2 (u, 64 * (k + 1)); mpz_realloc2 (v, 64 * (k + 1));
          for (int i = 0; i < k; i++) { u->_mp_d[i] = 0; v->_mp_d[i] = ~(L) 0; }
          u->_mp_d[0] = rnd64 () % 3; v->_mp_d[0] = ~(L) 0 - rnd64 () % 3;
          u->_mp_d[k] = 1; u->_mp_size = k + 1; v->_mp_size = k;
          if (rnd64 () & 1) { u->_mp_size = -u->_mp_size; } else v->_mp_size = -v->_mp_size;
          if (!strcmp (f, "mpz_sub")) v->_mp_size = -v->_mp_size;
          if (rnd64 () & 1) mpz_swap (u, v);
        }
      int al = rnd64 () % 5;
      mpz_ptr pw = w, pu = u, pv = v;
      if (al == 1) pu = w; else if (al == 2) pv = w; else if (al == 3) pv = pu; else if (al == 4) { pu = w; pv = w; }
      r_from_mpz (&ru, pu); r_from_mpz (&rv, pv);
      int sub = !strcmp (f, "mpz_sub");
      r_addsub (&rw, &ru, &rv, sub);
      printf ("%s", "");
      if (sub) mpz_sub (pw, pu, pv); else mpz_add (pw, pu, pv);
      R au, av; r_from_mpz (&au, pu); r_from_mpz (&av, pv);
      int ok = r_eq_mpz (&rw, pw);
      if (ok && pu != pw) ok = r_eq_mpz (&ru, pu);
      if (ok && pv != pw) ok = r_eq_mpz (&rv, pv);
      if (!ok)
        { failed (f); printf (" alias=%d u:neg=%d", al, ru.neg); show ("", ru.d, ru.n); printf (" v:neg=%d", rv.neg); show ("", rv.d, rv.n); show_z ("got", pw); printf (" want:neg=%d", rw.neg); show ("", rw.d, rw.n); printf ("\n"); return 1; }
      mpz_clear (w); mpz_clear (u); mpz_clear (v);
    }
  printf ("PASS %d\n", budget); return 0;
}
static int t_mpz_copy (const char *f, int budget)       /* neg abs set swap */
{
  for (int it = 0; it < budget; it++)
    {
      mpz_t w, u; R ru, rw0, want;
      mk_mpz (w, 6); mk_mpz (u, 6);
      int al = rnd64 () & 1; mpz_ptr pu = al ? w : u;
      r_from_mpz (&ru, pu); r_from_mpz (&rw0, w); want = ru;
      if (!strcmp (f, "mpz_neg")) { want.neg = !ru.neg; mpz_neg (w, pu); }
      else if (!strcmp (f, "mpz_abs")) { want.neg = 0; mpz_abs (w, pu); }
      else if (!strcmp (f, "mpz_set")) mpz_set (w, pu);
      else { mpz_swap (w, pu); }
      int ok = r_eq_mpz (&want, w);
      if (!strcmp (f, "mpz_swap")) ok = ok && r_eq_mpz (&rw0, pu);
      else if (!al) ok = ok && r_eq_mpz (&ru, u);
      if (!ok) { failed (f); printf (" alias=%d src:neg=%d", al, ru.neg); show ("", ru.d, ru.n); show_z ("got", w); printf ("\n"); return 1; }
      mpz_clear (w); mpz_clear (u);
    }
  printf ("PASS %d\n", budget); return 0;
}
static __int128 val1 (const mpz_t z) { __int128 m = z->_mp_size ? z->_mp_d[0] : 0; return z->_mp_size < 0 ? -m : m; }
static int t_mpz_c11 (const char *f, int budget)
{
  for (int it = 0; it < budget; it++)
    {
      mpz_t z; mk_mpz (z, 3);
      if (it % 2) { z->_mp_size = z->_mp_size < 0 ? -1 : 1; if (z->_mp_d[0] == 0) z->_mp_d[0] = 1; }
      int sz = z->_mp_size, small = sz >= -1 && sz <= 1;
      L v = pat (); if (it % 3 == 0 && small) v = z->_mp_d[0] + (rnd64 () % 3) - 1;
      long sv = (long) v;
      __int128 x = val1 (z);
      long got = 0, want = 0;
#define SG(e) ((e) > 0 ? 1 : (e) < 0 ? -1 : 0)
      if (!strcmp (f, "mpz_cmp_ui")) { got = SG (mpz_cmp_ui (z, v)); want = small ? SG (x - (__int128) v) : SG (sz); }
      else if (!strcmp (f, "mpz_cmp_si")) { got = SG (mpz_cmp_si (z, sv)); want = small ? SG (x - (__int128) sv) : SG (sz); }
      else if (!strcmp (f, "mpz_cmpabs_ui")) { got = SG (mpz_cmpabs_ui (z, v)); want = small ? SG ((x < 0 ? -x : x) - (__int128) v) : 1; }
      else if (!strcmp (f, "mpz_get_ui")) { got = mpz_get_ui (z); want = sz ? z->_mp_d[0] : 0; }
      else if (!strcmp (f, "mpz_get_si")) { got = mpz_get_si (z); want = got; if (small && x >= -(__int128) 0x7fffffffffffffffL - 1 && x <= 0x7fffffffffffffffL) want = (long) x; }
      else if (!strcmp (f, "mpz_set_ui")) { mpz_set_ui (z, v); got = val1 (z) == (__int128) v && abs (z->_mp_size) <= 1; want = 1; }
      else if (!strcmp (f, "mpz_set_si")) { mpz_set_si (z, sv); got = val1 (z) == (__int128) sv && abs (z->_mp_size) <= 1; want = 1; }
      else
        {
          __int128 lo, hi;
          int r;
          if (!strcmp (f, "mpz_fits_ulong_p")) { lo = 0; hi = ~0UL; r = mpz_fits_ulong_p (z); }
          else if (!strcmp (f, "mpz_fits_uint_p")) { lo = 0; hi = ~0U; r = mpz_fits_uint_p (z); }
          else if (!strcmp (f, "mpz_fits_ushort_p")) { lo = 0; hi = 0xffff; r = mpz_fits_ushort_p (z); }
          else if (!strcmp (f, "mpz_fits_slong_p")) { lo = -(__int128) 0x7fffffffffffffffL - 1; hi = 0x7fffffffffffffffL; r = mpz_fits_slong_p (z); }
          else if (!strcmp (f, "mpz_fits_sint_p")) { lo = -(__int128) 0x7fffffff - 1; hi = 0x7fffffff; r = mpz_fits_sint_p (z); }
          else { lo = -0x8000; hi = 0x7fff; r = mpz_fits_sshort_p (z); }
          got = r != 0; want = small && lo <= x && x <= hi;
        }
      if (got != want) { failed (f); show_z ("z", z); printf (" arg=%#lx got=%ld want=%ld\n", (unsigned long) v, got, want); return 1; }
      mpz_clear (z);
    }
  printf ("PASS %d\n", budget); return 0;
}
static int t_mpz_cmp (const char *f, int budget)
{
  for (int it = 0; it < budget; it++)
    {
      mpz_t u, v; mk_mpz (u, 4); mk_mpz (v, 4);
      if (it % 3 == 0) { mpz_set (v, u); if (it % 2 && v->_mp_size) v->_mp_d[rnd64 () % abs (v->_mp_size)] ^= 2; if (v->_mp_size && v->_mp_d[abs (v->_mp_size) - 1] == 0) v->_mp_d[abs (v->_mp_size) - 1] = 1; }
      R ru, rv, d; r_from_mpz (&ru, u); r_from_mpz (&rv, v);
      int abs_ = !strcmp (f, "mpz_cmpabs");
      if (abs_) { ru.neg = rv.neg = 0; }
      r_addsub (&d, &ru, &rv, 1);
      int want = d.n == 0 ? 0 : (d.neg ? -1 : 1), got = abs_ ? mpz_cmpabs (u, v) : mpz_cmp (u, v);
      got = got > 0 ? 1 : got < 0 ? -1 : 0;
      if (got != want) { failed (f); show_z ("u", u); show_z ("v", v); printf (" got=%d want=%d\n", got, want); return 1; }
      mpz_clear (u); mpz_clear (v);
    }
  printf ("PASS %d\n", budget); return 0;
}
/* floor/ceil/mod against the truncating pair computed by the library itself (the glue is what is replayed) */
static int t_mpz_div (const char *f, int budget)
{
  for (int it = 0; it < budget; it++)
    {
      mpz_t q, r, n, d, tq, tr, wq, wr; mk_mpz (n, 4); mk_mpz (d, 3); mpz_init (q); mpz_init (r); mpz_init (tq); mpz_init (tr); mpz_init (wq); mpz_init (wr);
      if (mpz_sgn (d) == 0) mpz_set_si (d, it % 2 ? 3 : -3);
      if (it % 5 == 0) mpz_mul (n, d, n);                       /* exact divisions */
      mpz_tdiv_qr (tq, tr, n, d);
      int fl = f[4] == 'f', md = !strcmp (f, "mpz_mod");
      int adj = mpz_sgn (tr) != 0 && (md ? mpz_sgn (tr) < 0 : fl ? ((mpz_sgn (n) < 0) != (mpz_sgn (d) < 0)) : ((mpz_sgn (n) < 0) == (mpz_sgn (d) < 0)));
      mpz_set (wq, tq); mpz_set (wr, tr);
      if (adj)
        {
          if (md) { mpz_t ad; mpz_init (ad); mpz_abs (ad, d); mpz_add (wr, wr, ad); mpz_clear (ad); }
          else if (fl) { mpz_sub_ui (wq, wq, 1); mpz_add (wr, wr, d); }
          else { mpz_add_ui (wq, wq, 1); mpz_sub (wr, wr, d); }
        }
      int al = rnd64 () % 5; mpz_t nn, dd; mpz_init_set (nn, n); mpz_init_set (dd, d);
      const char *tail = md ? "r" : f + 9;                     /* "qr" | "q" | "r" after "mpz_fdiv_" / "mpz_cdiv_" */
      int isqr = !strcmp (tail, "qr"), useq = isqr || !strcmp (tail, "q"), user = isqr || !strcmp (tail, "r");
      mpz_ptr pn = n, pd = d;
      /* every permitted identification of an output with an input: n==q, n==r, d==q, d==r */
      if (al == 1 && useq) pn = q; else if (al == 2 && user) pn = r; else if (al == 3 && useq) pd = q; else if (al == 4 && user) pd = r;
      if (pn != n) mpz_set (pn, nn);
      if (pd != d) mpz_set (pd, dd);
      if (!strcmp (f, "mpz_fdiv_qr")) mpz_fdiv_qr (q, r, pn, pd); else if (!strcmp (f, "mpz_cdiv_qr")) mpz_cdiv_qr (q, r, pn, pd);
      else if (!strcmp (f, "mpz_fdiv_q")) mpz_fdiv_q (q, pn, pd); else if (!strcmp (f, "mpz_cdiv_q")) mpz_cdiv_q (q, pn, pd);
      else if (!strcmp (f, "mpz_fdiv_r")) mpz_fdiv_r (r, pn, pd); else if (!strcmp (f, "mpz_cdiv_r")) mpz_cdiv_r (r, pn, pd);
      else mpz_mod (r, pn, pd);
      int ok = 1;
      if (useq) ok = ok && mpz_cmp (q, wq) == 0;
      if (user) ok = ok && mpz_cmp (r, wr) == 0;
      if (!ok) { failed (f); printf (" alias=%d", al); show_z ("n", nn); show_z ("d", dd); show_z ("q", q); show_z ("r", r); show_z ("want_q", wq); show_z ("want_r", wr); printf ("\n"); return 1; }
      mpz_clear (q); mpz_clear (r); mpz_clear (n); mpz_clear (d); mpz_clear (tq); mpz_clear (tr); mpz_clear (wq); mpz_clear (wr); mpz_clear (nn); mpz_clear (dd);
    }
  printf ("PASS %d\n", budget); return 0;
}
/* the _ui division forms (q, r, qr, none) against mpz_tdiv_qr with the divisor as an mpz + the manual's rounding rule; return value = |r| */
static int t_mpz_div_ui (const char *f, int budget)
{
  for (int it = 0; it < budget; it++)
    {
      mpz_t q, r, n, d, tq, tr, wq, wr; mk_mpz (n, 4); mpz_init (d); mpz_init (q); mpz_init (r); mpz_init (tq); mpz_init (tr); mpz_init (wq); mpz_init (wr);
      unsigned long dv = pat (); if (dv == 0) dv = 1 + it % 7; if (it % 4 == 0) dv = 1 + rnd64 () % 9;
      mpz_set_ui (d, dv);
      if (it % 5 == 0) mpz_mul (n, d, n);
      if (it % 7 == 0 && mpz_size (n) == 1) { mpz_set_ui (n, dv - (it % 2)); if (it % 3) mpz_neg (n, n); }
      mpz_tdiv_qr (tq, tr, n, d);
      char kind = f[4];                                        /* t f c */
      int adj = mpz_sgn (tr) != 0 && (kind == 'f' ? mpz_sgn (n) < 0 : kind == 'c' ? mpz_sgn (n) > 0 : 0);
      mpz_set (wq, tq); mpz_set (wr, tr);
      if (adj) { if (kind == 'f') { mpz_sub_ui (wq, wq, 1); mpz_add (wr, wr, d); } else { mpz_add_ui (wq, wq, 1); mpz_sub (wr, wr, d); } }
      const char *tail = f + 9;                                /* "ui" | "q_ui" | "r_ui" | "qr_ui" */
      int isqr = !strncmp (tail, "qr", 2), useq = isqr || tail[0] == 'q', user = isqr || tail[0] == 'r';
      int al = rnd64 () % 3; mpz_t nn; mpz_init_set (nn, n); mpz_ptr pn = n;
      if (al == 1 && useq) pn = q; else if (al == 2 && user) pn = r;
      if (pn != n) mpz_set (pn, nn);
      unsigned long ret;
      if (isqr) ret = kind == 't' ? mpz_tdiv_qr_ui (q, r, pn, dv) : kind == 'f' ? mpz_fdiv_qr_ui (q, r, pn, dv) : mpz_cdiv_qr_ui (q, r, pn, dv);
      else if (useq) ret = kind == 't' ? mpz_tdiv_q_ui (q, pn, dv) : kind == 'f' ? mpz_fdiv_q_ui (q, pn, dv) : mpz_cdiv_q_ui (q, pn, dv);
      else if (user) ret = kind == 't' ? mpz_tdiv_r_ui (r, pn, dv) : kind == 'f' ? mpz_fdiv_r_ui (r, pn, dv) : mpz_cdiv_r_ui (r, pn, dv);
      else ret = kind == 't' ? mpz_tdiv_ui (pn, dv) : kind == 'f' ? mpz_fdiv_ui (pn, dv) : mpz_cdiv_ui (pn, dv);
      int ok = mpz_cmpabs_ui (wr, ret) == 0;
      if (useq) ok = ok && mpz_cmp (q, wq) == 0;
      if (user) ok = ok && mpz_cmp (r, wr) == 0;
      if (pn == n) ok = ok && mpz_cmp (n, nn) == 0;
      if (!ok) { failed (f); printf (" alias=%d d=%#lx ret=%#lx", al, dv, ret); show_z ("n", nn); show_z ("q", q); show_z ("r", r); show_z ("want_q", wq); show_z ("want_r", wr); printf ("\n"); return 1; }
      mpz_clear (q); mpz_clear (r); mpz_clear (n); mpz_clear (d); mpz_clear (tq); mpz_clear (tr); mpz_clear (wq); mpz_clear (wr); mpz_clear (nn);
    }
  printf ("PASS %d\n", budget); return 0;
}
/* raw I/O: round trip through a memory stream, and EVERY truncation point of the image */
static int t_raw (const char *f, int budget)
{
  for (int it = 0; it < budget / 20 + 1; it++)
    {
      mpz_t x, y; mk_mpz (x, 4);
      char *buf = 0; size_t len = 0;
      FILE *fp = open_memstream (&buf, &len);
      size_t w = mpz_out_raw (fp, x); fclose (fp);
      int n = abs (x->_mp_size); long bytes = n ? 8 * n - __builtin_clzl (x->_mp_d[n - 1]) / 8 : 0;
      long hdr = ((long) (unsigned char) buf[0] << 24) | ((long) (unsigned char) buf[1] << 16) | ((long) (unsigned char) buf[2] << 8) | (unsigned char) buf[3];
      if (hdr & 0x80000000L) hdr -= 0x100000000L;
      if (w != (size_t) (4 + bytes) || len != w || hdr != (x->_mp_size < 0 ? -bytes : bytes) || (bytes && buf[4] == 0))
        { failed ("mpz_out_raw"); show_z ("x", x); printf (" returned=%zu len=%zu header=%ld want_bytes=%ld\n", w, len, hdr, bytes); return 1; }
      for (size_t cut = 0; cut <= len; cut++)
        {
          mk_mpz (y, 4);
          FILE *in = fmemopen (buf, cut ? cut : 1, "rb"); if (!cut) fgetc (in);
          size_t r = mpz_inp_raw (y, in); fclose (in);
          int yn = abs (y->_mp_size);
          int wf = y->_mp_alloc >= 1 && yn <= y->_mp_alloc && (yn == 0 || y->_mp_d[yn - 1] != 0);
          int ok = wf && (cut == len ? (r == len && mpz_cmp (x, y) == 0) : r == 0);
          if (!ok) { failed ("mpz_inp_raw"); show_z ("written", x); printf (" image_len=%zu cut_at=%zu returned=%zu", len, cut, r); show_z ("read", y); printf (" well_formed=%d\n", wf); return 1; }
          mpz_clear (y);
        }
      free (buf); mpz_clear (x);
    }
  /* longer bodies (header bytes >= 0x80 in the lower positions: 128 bytes and more), full image only */
  for (int n = 1; n <= 70; n++)
    for (int sg = 0; sg < 2; sg++)
      {
        mpz_t x, y; mpz_init2 (x, 64 * n); mpz_init (y);
        for (int i = 0; i < n; i++) x->_mp_d[i] = rnd64 () | 1; x->_mp_size = sg ? -n : n;
        char *buf = 0; size_t len = 0; FILE *fp = open_memstream (&buf, &len); size_t w = mpz_out_raw (fp, x); fclose (fp);
        FILE *in = fmemopen (buf, len, "rb"); size_t r = mpz_inp_raw (y, in); long pos = ftell (in); fclose (in);
        if (w != len || r != len || pos != (long) len || mpz_cmp (x, y))
          { failed ("mpz_inp_raw"); printf (" %d-limb %s value: image of %zu bytes, out_raw returned %zu, inp_raw returned %zu (stream at %ld), value %s\n", n, sg ? "negative" : "positive", len, w, r, pos, mpz_cmp (x, y) ? "DIFFERS" : "equal"); return 1; }
        free (buf); mpz_clear (x); mpz_clear (y);
      }
  printf ("PASS %d\n", budget); return 0;
}

static long live_blocks;
static void *cnt_alloc (size_t n) { live_blocks++; return malloc (n); }
static void *cnt_realloc (void *p, size_t o, size_t n) { return realloc (p, n); }
static void cnt_free (void *p, size_t n) { live_blocks--; free (p); }
static int t_raw_leak (int budget)
{
  mp_set_memory_functions (cnt_alloc, cnt_realloc, cnt_free);
  FILE *fp = fopen ("/dev/full", "w");
  if (!fp) { printf ("PASS 0 (no /dev/full)\n"); return 0; }
  setvbuf (fp, 0, _IONBF, 0);
  for (int it = 0; it < 50; it++)
    {
      mpz_t x; mk_mpz (x, 4);
      long before = live_blocks;
      size_t r = mpz_out_raw (fp, x);
      if (r != 0 || live_blocks != before)
        { failed ("mpz_out_raw"); show_z ("x", x); printf (" failing write: returned=%zu, blocks still allocated after the call: %ld (must be 0)\n", r, live_blocks - before); return 1; }
      mpz_clear (x);
    }
  fclose (fp);
  printf ("PASS 50\n"); return 0;
}
static void mk_mpq (mpq_t q, int maxn)
{
  mpq_init (q); mpz_t a, b; mk_mpz (a, maxn); mk_mpz (b, maxn);
  if (mpz_sgn (b) == 0) mpz_set_ui (b, 1 + rnd64 () % 5);
  mpz_set (mpq_numref (q), a); mpz_set (mpq_denref (q), b); mpq_canonicalize (q);
  if (rnd64 () % 3 == 0) { mpz_realloc2 (mpq_numref (q), 64 * (mpz_size (mpq_numref (q)) + 1)); mpz_realloc2 (mpq_denref (q), 64 * (mpz_size (mpq_denref (q)) + 3)); }
  mpz_clear (a); mpz_clear (b);
}
static int q_canon (const mpq_t q)
{
  mpz_t g; mpz_init (g); mpz_gcd (g, mpq_numref (q), mpq_denref (q));
  int ok = mpz_sgn (mpq_denref (q)) > 0 && mpz_cmp_ui (g, 1) == 0 && (mpz_sgn (mpq_numref (q)) != 0 || mpz_cmp_ui (mpq_denref (q), 1) == 0);
  int sn = mpq_numref (q)->_mp_size, sd = mpq_denref (q)->_mp_size;
  ok = ok && abs (sn) <= mpq_numref (q)->_mp_alloc && abs (sd) <= mpq_denref (q)->_mp_alloc && (sn == 0 || mpq_numref (q)->_mp_d[abs (sn) - 1] != 0) && mpq_denref (q)->_mp_d[abs (sd) - 1] != 0;
  mpz_clear (g); return ok;
}
static void show_q (const char *nm, const mpq_t q) { gmp_printf (" %s=%Qd(num alloc %d, den alloc %d)", nm, q, mpq_numref (q)->_mp_alloc, mpq_denref (q)->_mp_alloc); }
static int t_mpq (const char *f, int budget)
{
  for (int it = 0; it < budget / 10 + 1; it++)
    {
      mpq_t r, a, b, a0, b0; mk_mpq (r, 3); mk_mpq (a, 3); mk_mpq (b, 3);
      int two = !strcmp (f, "mpq_mul") || !strcmp (f, "mpq_div") || !strcmp (f, "mpq_add") || !strcmp (f, "mpq_sub");
      int al = rnd64 () % (two ? 5 : 2);
      mpq_ptr pa = a, pb = b;
      if (al == 1) pa = r; else if (al == 2) pb = r; else if (al == 3) pb = pa; else if (al == 4) { pa = r; pb = r; }
      if (!strcmp (f, "mpq_div") && mpq_sgn (pb) == 0) mpq_set_si (pb, 3, 7);
      if (!strcmp (f, "mpq_inv") && mpq_sgn (pa) == 0) mpq_set_si (pa, -3, 7);
      mpq_init (a0); mpq_init (b0); mpq_set (a0, pa); mpq_set (b0, pb);
      mpz_t x, y; mpz_init (x); mpz_init (y);
      int ok = 1;
      if (!strcmp (f, "mpq_inv")) { mpq_inv (r, pa); mpz_mul (x, mpq_numref (r), mpq_numref (a0)); mpz_mul (y, mpq_denref (r), mpq_denref (a0)); ok = mpz_cmp (x, y) == 0; }
      else if (!strcmp (f, "mpq_neg")) { mpq_neg (r, pa); mpz_neg (x, mpq_numref (a0)); ok = mpz_cmp (x, mpq_numref (r)) == 0 && mpz_cmp (mpq_denref (a0), mpq_denref (r)) == 0; }
      else if (!strcmp (f, "mpq_abs")) { mpq_abs (r, pa); mpz_abs (x, mpq_numref (a0)); ok = mpz_cmp (x, mpq_numref (r)) == 0 && mpz_cmp (mpq_denref (a0), mpq_denref (r)) == 0; }
      else if (!strcmp (f, "mpq_set")) { mpq_set (r, pa); ok = mpz_cmp (mpq_numref (a0), mpq_numref (r)) == 0 && mpz_cmp (mpq_denref (a0), mpq_denref (r)) == 0; }
      else
        { /* r = a op b  <=>  cross-multiplied integer identity; and r canonical */
          mpz_t n1, d1, n2, d2, lhs, rhs; mpz_init (lhs); mpz_init (rhs);
          mpz_init_set (n1, mpq_numref (a0)); mpz_init_set (d1, mpq_denref (a0)); mpz_init_set (n2, mpq_numref (b0)); mpz_init_set (d2, mpq_denref (b0));
          if (!strcmp (f, "mpq_mul")) { mpq_mul (r, pa, pb); mpz_mul (x, n1, n2); mpz_mul (y, d1, d2); }
          else if (!strcmp (f, "mpq_div")) { mpq_div (r, pa, pb); mpz_mul (x, n1, d2); mpz_mul (y, d1, n2); }
          else { mpz_mul (x, n1, d2); mpz_mul (y, n2, d1); if (!strcmp (f, "mpq_add")) { mpq_add (r, pa, pb); mpz_add (x, x, y); } else { mpq_sub (r, pa, pb); mpz_sub (x, x, y); } mpz_mul (y, d1, d2); }
          mpz_mul (lhs, mpq_numref (r), y); mpz_mul (rhs, mpq_denref (r), x);          /* num(r)/den(r) == x/y */
          ok = mpz_cmp (lhs, rhs) == 0;
          mpz_clear (n1); mpz_clear (d1); mpz_clear (n2); mpz_clear (d2); mpz_clear (lhs); mpz_clear (rhs);
        }
      ok = ok && q_canon (r);
      if (ok && pa != r) ok = mpq_equal (pa, a0) && q_canon (pa);
      if (ok && two && pb != r) ok = mpq_equal (pb, b0);
      if (!ok) { failed (f); printf (" alias=%d", al); show_q ("a", a0); if (two) show_q ("b", b0); show_q ("got", r); printf (" canonical_and_well_formed=%d\n", q_canon (r)); return 1; }
      mpq_clear (r); mpq_clear (a); mpq_clear (b); mpq_clear (a0); mpq_clear (b0); mpz_clear (x); mpz_clear (y);
    }
  printf ("PASS %d\n", budget / 10 + 1); return 0;
}

/* infinite two's-complement bit b of z, from first principles: negative z = ~(|z| - 1) */
static int ref_tcbit (const mpz_t z, unsigned long b)
{
  int n = abs (z->_mp_size); unsigned long k = b / 64;
  if (z->_mp_size >= 0) return k < (unsigned long) n ? (z->_mp_d[k] >> (b % 64)) & 1 : 0;
  L t[MAXN + 2]; L one[1] = {1}; ref_sub (t, z->_mp_d, n, one, 1);
  return k < (unsigned long) n ? ((~t[k]) >> (b % 64)) & 1 : 1;
}
static int t_mpz_bits (const char *f, int budget)
{
  for (int it = 0; it < budget; it++)
    {
      mpz_t z; mk_mpz (z, 6);
      int n = abs (z->_mp_size);
      if (n >= 3 && it % 2) { int lo = rnd64 () % (n - 1), hi = lo + rnd64 () % (n - 1 - lo); for (int i = lo; i <= hi; i++) z->_mp_d[i] = (it % 4 == 1) ? 0 : ~(L) 0; }   /* interior runs of 0 / all-ones limbs */
      unsigned long sb = rnd64 () % (64 * (n + 2) + 1);
      unsigned long got, want;
      if (!strcmp (f, "mpz_tstbit")) { got = mpz_tstbit (z, sb); want = ref_tcbit (z, sb); }
      else
        {
          int w = !strcmp (f, "mpz_scan1");
          got = w ? mpz_scan1 (z, sb) : mpz_scan0 (z, sb);
          want = sb; while (want < 64UL * (n + 3) && ref_tcbit (z, want) != w) want++;
          if (want >= 64UL * (n + 3)) want = ~0UL;
        }
      if (got != want) { failed (f); show_z ("z", z); printf (" start_bit=%lu got=%lu want=%lu\n", sb, got, want); return 1; }
      mpz_clear (z);
    }
  printf ("PASS %d\n", budget); return 0;
}


/* mpz_setbit / clrbit / combit and mpz_and / ior / xor against the two's-complement bit function, bit by bit (C10) */
static int wf_z (const mpz_t z) { int n = abs (z->_mp_size); return n <= z->_mp_alloc && (n == 0 || z->_mp_d[n - 1] != 0); }
static int t_mpz_bitops (const char *f, int budget)
{
  int three = !strcmp (f, "mpz_and") || !strcmp (f, "mpz_ior") || !strcmp (f, "mpz_xor");
  for (int it = 0; it < budget; it++)
    {
      mpz_t a, b, r; mk_mpz (a, 5); mk_mpz (b, 5); mpz_init (r);
      int n = abs (a->_mp_size);
      if (n >= 2 && it % 3 == 1) { int hi = rnd64 () % n; for (int i = 0; i < hi; i++) a->_mp_d[i] = 0; }                   /* low zero limbs */
      if (n >= 2 && it % 3 == 2) { int lo = 1 + rnd64 () % (n - 1); for (int i = lo; i < n; i++) a->_mp_d[i] = ~(L) 0; }     /* all-ones run up to the top */
      if (three && it % 4 == 3 && n > 0)
        { /* |b| = B^n - |a| (two's complement of a on n limbs), opposite sign: the +1 of the mixed-sign case carries into a new limb */
          mpz_t t; mpz_init (t); mpz_setbit (t, 64UL * n); mpz_sub (t, t, a); if (a->_mp_size > 0) mpz_neg (t, t); else mpz_add (t, t, a), mpz_add (t, t, a); mpz_set (b, t); mpz_clear (t);
          if (it % 8 == 3) mpz_swap (a, b);
        }
      if (three)
        {
          int alias = it % 5;       /* 0,1: distinct; 2: r == a; 3: r == b; 4: a == b */
          mpz_t a0, b0; mpz_init_set (a0, a); mpz_init_set (b0, alias == 4 ? a : b);
          mpz_ptr rr = alias == 2 ? a : alias == 3 ? b : r; mpz_srcptr bb = alias == 4 ? a : b;
          if (!strcmp (f, "mpz_and")) mpz_and (rr, a, bb); else if (!strcmp (f, "mpz_ior")) mpz_ior (rr, a, bb); else mpz_xor (rr, a, bb);
          unsigned long top = 64UL * (abs (a0->_mp_size) + abs (b0->_mp_size) + 2);
          int bad = !wf_z (rr);
          for (unsigned long k = 0; k < top && !bad; k++)
            {
              int x = ref_tcbit (a0, k), y = ref_tcbit (b0, k), w = f[4] == 'a' ? (x & y) : f[4] == 'i' ? (x | y) : (x ^ y);
              if (ref_tcbit (rr, k) != w) bad = 1;
            }
          if (bad) { failed (f); show_z ("op1", a0); show_z ("op2", b0); show_z ("res", rr); printf (" alias=%d (two's-complement bits differ or result not normalised)\n", alias); return 1; }
          mpz_clear (a0); mpz_clear (b0);
        }
      else
        {
          mpz_t a0; mpz_init_set (a0, a);
          unsigned long sb = rnd64 () % (64 * (n + 2) + 1);
          if (!strcmp (f, "mpz_setbit")) mpz_setbit (a, sb); else if (!strcmp (f, "mpz_clrbit")) mpz_clrbit (a, sb); else mpz_combit (a, sb);
          unsigned long top = 64UL * (n + 4);
          int bad = !wf_z (a);
          for (unsigned long k = 0; k < top && !bad; k++)
            {
              int x = ref_tcbit (a0, k), w = k != sb ? x : f[4] == 's' ? 1 : f[5] == 'l' ? 0 : !x;
              if (ref_tcbit (a, k) != w) bad = 1;
            }
          if (bad) { failed (f); show_z ("d", a0); printf (" bit=%lu", sb); show_z ("result", a); printf (" (two's-complement bits differ or result not normalised)\n"); return 1; }
          mpz_clear (a0);
        }
      mpz_clear (a); mpz_clear (b); mpz_clear (r);
    }
  printf ("PASS %d\n", budget); return 0;
}


/* __gmp_extract_double: {rp[1],rp[0]} * 2^(64 (e - 2)) == d for positive finite doubles incl. subnormals; the two pieces are exactly representable, so is their sum */
#include <math.h>
int __gmp_extract_double (mp_ptr, double);
static int t_extract_double (const char *f, int budget)
{
  for (int it = 0; it < budget; it++)
    {
      union { double d; unsigned long u; } x;
      unsigned long M = (it % 3 == 0) ? (1UL << (rnd64 () % 52)) : (it % 3 == 1) ? (rnd64 () >> (12 + rnd64 () % 52)) : (rnd64 () >> 12);
      unsigned long E = (it % 4 == 0) ? 0 : (it % 4 == 1) ? rnd64 () % 4 : rnd64 () % 2047;
      if (E == 0 && M == 0) M = 1;
      x.u = (E << 52) | M;
      L R[2]; int e = __gmp_extract_double (R, x.d);
      double back = ldexp ((double) R[1], 64 * (e - 1)) + ldexp ((double) R[0], 64 * (e - 2));
      if (back != x.d || R[1] == 0) { failed (f); printf (" d=%a (bits %#lx) -> rp=[%#lx,%#lx] exp=%d, which denotes %a\n", x.d, x.u, (unsigned long) R[0], (unsigned long) R[1], e, back); return 1; }
    }
  printf ("PASS %d\n", budget); return 0;
}


/* mpz_set_d / mpz_cmp_d against trunc (d) built from frexp: d = m53 * 2^(ex - 53) */
static int t_mpz_dbl (const char *f, int budget)
{
  for (int it = 0; it < budget; it++)
    {
      union { double d; unsigned long u; } x;
      unsigned long E = (it % 4 == 0) ? 1023 + rnd64 () % 200 : (it % 4 == 1) ? 1023 + 50 + rnd64 () % 30 : (it % 4 == 2) ? rnd64 () % 2047 : 1015 + rnd64 () % 20;
      x.u = (rnd64 () & 1) << 63 | (E << 52) | ((it % 3) ? (rnd64 () >> 12) : ((rnd64 () >> 12) & ~((1UL << (rnd64 () % 52)) - 1)));
      double d = x.d; int ex; double fr = frexp (fabs (d), &ex);
      unsigned long m = (unsigned long) ldexp (fr, 53);
      mpz_t want, z; mpz_init (want); mk_mpz (z, 4); mpz_set_ui (want, m);
      if (ex - 53 >= 0) mpz_mul_2exp (want, want, ex - 53); else mpz_tdiv_q_2exp (want, want, 53 - ex);
      if (d < 0) mpz_neg (want, want);
      if (!strcmp (f, "mpz_set_d"))
        {
          mpz_set_d (z, d);
          if (mpz_cmp (z, want) || !wf_z (z)) { failed (f); printf (" d=%a", d); show_z ("got", z); show_z ("want", want); printf ("\n"); return 1; }
        }
      else
        {
          if (it % 2) { mpz_set (z, want); if (it % 6 == 1) mpz_add_ui (z, z, 1); if (it % 6 == 3) mpz_sub_ui (z, z, 1); }
          int ab = !strcmp (f, "mpz_cmpabs_d");
          int got = ab ? mpz_cmpabs_d (z, d) : mpz_cmp_d (z, d), c = ab ? mpz_cmpabs (z, want) : mpz_cmp (z, want), w;
          /* z vs d: z vs trunc(d) decides unless they are equal and d has a fraction */
          int frac = (ex < 53) && (ex <= 0 ? d != 0 : (m & ((1UL << (53 - ex)) - 1)) != 0);
          w = c ? c : (frac ? ((d > 0 || ab) ? -1 : 1) : 0);
          if ((got > 0) - (got < 0) != (w > 0) - (w < 0)) { failed (f); printf (" d=%a", d); show_z ("z", z); printf (" got=%d want sign %d\n", got, w); return 1; }
        }
      mpz_clear (z); mpz_clear (want);
    }
  printf ("PASS %d\n", budget); return 0;
}

/* mpf_cmp against the sign of an exact difference computed on integers: both operands scaled to a common exponent */
static void mk_mpf (mpf_t f, int maxn)
{
  int n = rnd64 () % (maxn + 1);
  mpf_init2 (f, 64 * (maxn + 1));
  for (int i = 0; i < n; i++) f->_mp_d[i] = pat ();
  if (n) while (f->_mp_d[n - 1] == 0) f->_mp_d[n - 1] = pat ();
  if (n >= 2 && rnd64 () % 3 == 0) for (int i = 0; i < 1 + (int) (rnd64 () % (n - 1)); i++) f->_mp_d[i] = 0;          /* low zero limbs */
  f->_mp_size = (rnd64 () & 1) ? -n : n; f->_mp_exp = n ? (long) (rnd64 () % 5) - 1 : 0;
}
static void mpf_to_scaled (mpz_t z, const mpf_t f, long shift_limbs)      /* z = f * B^(shift_limbs), exact (shift large enough) */
{
  int n = abs (f->_mp_size);
  mpz_set_ui (z, 0);
  for (int i = n - 1; i >= 0; i--) { mpz_mul_2exp (z, z, 64); mpz_add_ui (z, z, f->_mp_d[i]); }
  mpz_mul_2exp (z, z, 64 * (shift_limbs + f->_mp_exp - n));
  if (f->_mp_size < 0) mpz_neg (z, z);
}
static int t_mpf_cmp (const char *f, int budget)
{
  for (int it = 0; it < budget / 4; it++)
    {
      mpf_t u, v; mk_mpf (u, 4); mk_mpf (v, 4);
      if (it % 3 == 0 && u->_mp_size)
        { /* v = u with extra (or fewer) low limbs: equal common part */
          int n = abs (u->_mp_size), extra = rnd64 () % 3;
          for (int i = 0; i < n; i++) v->_mp_d[i + extra] = u->_mp_d[i];
          for (int i = 0; i < extra; i++) v->_mp_d[i] = (rnd64 () & 1) ? pat () | 1 : 0;
          v->_mp_size = (u->_mp_size < 0) ? -(n + extra) : (n + extra); v->_mp_exp = u->_mp_exp;
          if (rnd64 () & 1) mpf_swap (u, v);
        }
      mpz_t a, b; mpz_init (a); mpz_init (b);
      mpf_to_scaled (a, u, 12); mpf_to_scaled (b, v, 12);
      int want = mpz_cmp (a, b), got = mpf_cmp (u, v);
      want = want > 0 ? 1 : want < 0 ? -1 : 0; got = got > 0 ? 1 : got < 0 ? -1 : 0;
      if (got != want)
        { failed (f); printf (" u(size=%d,exp=%ld)", u->_mp_size, (long) u->_mp_exp); show ("", u->_mp_d, abs (u->_mp_size)); printf (" v(size=%d,exp=%ld)", v->_mp_size, (long) v->_mp_exp); show ("", v->_mp_d, abs (v->_mp_size)); printf (" got=%d want=%d\n", got, want); return 1; }
      mpf_clear (u); mpf_clear (v); mpz_clear (a); mpz_clear (b);
    }
  printf ("PASS %d\n", budget / 4); return 0;
}

/* schoolbook reference product of magnitudes */
static int ref_mul (L *w, const L *u, int un, const L *v, int vn)
{
  for (int i = 0; i < un + vn; i++) w[i] = 0;
  for (int j = 0; j < vn; j++) { L c = 0; for (int i = 0; i < un; i++) { u128 p = (u128) u[i] * v[j] + w[i + j] + c; w[i + j] = (L) p; c = (L) (p >> 64); } w[un + j] = c; }
  return norm (w, un + vn);
}
static int t_mpz_mul (const char *f, int budget)
{
  for (int it = 0; it < budget / 4; it++)
    {
      mpz_t w, u, v; mk_mpz (w, 3); mk_mpz (u, it % 5 == 0 ? 24 : 5); mk_mpz (v, it % 7 == 0 ? 20 : 4);
      int al = rnd64 () % 5; mpz_ptr pu = u, pv = v;
      if (al == 1) pu = w; else if (al == 2) pv = w; else if (al == 3) pv = pu; else if (al == 4) { pu = w; pv = w; }
      if (al == 1 || al == 4) mpz_set (w, u);
      if (al == 2) mpz_set (w, v);
      if (it % 3 == 0) mpz_realloc2 (w, 64 * (abs (w->_mp_size) ? abs (w->_mp_size) : 1));            /* exact allocation: forces the reallocating paths */
      R ru, rv; r_from_mpz (&ru, pu); r_from_mpz (&rv, pv);
      static L prod[64]; int pn = ref_mul (prod, ru.d, ru.n, rv.d, rv.n);
      mpz_mul (w, pu, pv);
      int wn = abs (w->_mp_size);
      int ok = wn == pn && (pn == 0 || ((w->_mp_size < 0) == (ru.neg != rv.neg))) && memcmp (w->_mp_d, prod, pn * sizeof (L)) == 0 && wn <= w->_mp_alloc;
      if (ok && pu != w) ok = r_eq_mpz (&ru, pu);
      if (ok && pv != w) ok = r_eq_mpz (&rv, pv);
      if (!ok) { failed (f); printf (" alias=%d u:neg=%d", al, ru.neg); show ("", ru.d, ru.n > 6 ? 6 : ru.n); printf (" v:neg=%d", rv.neg); show ("", rv.d, rv.n > 6 ? 6 : rv.n); show_z ("got", w); printf ("\n"); return 1; }
      mpz_clear (w); mpz_clear (u); mpz_clear (v);
    }
  printf ("PASS %d\n", budget / 4); return 0;
}
/* q,r of tdiv_qr checked by n == q*d + r, |r| < |d|, sgn r in {0, sgn n} with the reference arithmetic above */
static int t_mpz_tdiv_qr (const char *f, int budget)
{
  for (int it = 0; it < budget / 4; it++)
    {
      mpz_t q, r, n, d; mk_mpz (q, 3); mk_mpz (r, 3); mk_mpz (n, 6); mk_mpz (d, 4);
      if (mpz_sgn (d) == 0) mpz_set_si (d, it % 2 ? 5 : -5);
      int al = rnd64 () % 7; mpz_ptr pn = n, pd = d;
      if (al == 1) { mpz_set (q, n); pn = q; } else if (al == 2) { mpz_set (r, n); pn = r; } else if (al == 3) { mpz_set (q, d); pd = q; }
      else if (al == 4) { mpz_set (r, d); pd = r; } else if (al == 5) { mpz_set (q, n); mpz_set (r, d); pn = q; pd = r; } else if (al == 6) { if (mpz_sgn (n) == 0) mpz_set_si (n, -7); pd = pn; }
      if (it % 3 == 0) { mpz_realloc2 (q, 64 * (abs (q->_mp_size) ? abs (q->_mp_size) : 1)); mpz_realloc2 (r, 64 * (abs (r->_mp_size) ? abs (r->_mp_size) : 1)); }
      R rn, rd; r_from_mpz (&rn, pn); r_from_mpz (&rd, pd);
      if (!strcmp (f, "mpz_tdiv_q"))        /* quotient only: the remainder comes from an unaliased tdiv_r on copies */
        { mpz_t n2, d2; mpz_init_set (n2, pn); mpz_init_set (d2, pd); if (pn == r) pn = n2; if (pd == r) pd = (al == 6 ? pn : d2); mpz_tdiv_q (q, pn, pd); mpz_tdiv_r (r, n2, d2); mpz_clear (n2); mpz_clear (d2); }
      else if (!strcmp (f, "mpz_tdiv_r"))
        { mpz_t n2, d2; mpz_init_set (n2, pn); mpz_init_set (d2, pd); if (pn == q) pn = n2; if (pd == q) pd = (al == 6 ? pn : d2); mpz_tdiv_r (r, pn, pd); mpz_tdiv_q (q, n2, d2); mpz_clear (n2); mpz_clear (d2); }
      else
      mpz_tdiv_qr (q, r, pn, pd);
      R rq, rr, prod, sum; r_from_mpz (&rq, q); r_from_mpz (&rr, r);
      prod.n = ref_mul (prod.d, rq.d, rq.n, rd.d, rd.n); prod.neg = prod.n ? (rq.neg != rd.neg) : 0;
      r_addsub (&sum, &prod, &rr, 0);
      int ok = sum.n == rn.n && (sum.n == 0 || sum.neg == rn.neg) && memcmp (sum.d, rn.d, rn.n * sizeof (L)) == 0;
      ok = ok && (rr.n < rd.n || (rr.n == rd.n && ref_cmp (rr.d, rd.d, rd.n) < 0)) && (rr.n == 0 || rr.neg == rn.neg);
      ok = ok && abs (q->_mp_size) <= q->_mp_alloc && abs (r->_mp_size) <= r->_mp_alloc && (rq.n == 0 || q->_mp_d[rq.n - 1] != 0) && (rr.n == 0 || r->_mp_d[rr.n - 1] != 0);
      if (!ok) { failed (f); printf (" alias=%d n:neg=%d", al, rn.neg); show ("", rn.d, rn.n); printf (" d:neg=%d", rd.neg); show ("", rd.d, rd.n); show_z ("q", q); show_z ("r", r); printf ("\n"); return 1; }
      mpz_clear (q); mpz_clear (r); mpz_clear (n); mpz_clear (d);
    }
  printf ("PASS %d\n", budget / 4); return 0;
}
static int ref_mul (L *w, const L *u, int un, const L *v, int vn);
static int t_mpz_ui (const char *f, int budget)           /* add_ui sub_ui ui_sub com mul_ui mul_si */
{
  for (int it = 0; it < budget; it++)
    {
      mpz_t w, u; mk_mpz (w, 4); mk_mpz (u, 4);
      if (it % 4 == 0 && u->_mp_size) { int n = abs (u->_mp_size); for (int i = 0; i < n - 1; i++) u->_mp_d[i] = (it % 8) ? 0 : ~(L) 0; if (it % 3 == 0) u->_mp_d[n - 1] = 1; }
      L v = pat (); if (it % 5 == 0 && abs (u->_mp_size) == 1) v = u->_mp_d[0] + (rnd64 () % 3) - 1;
      int al = rnd64 () & 1; mpz_ptr pu = al ? w : u; if (al) mpz_set (w, u);
      if (it % 3 == 0) mpz_realloc2 (w, 64 * (abs (w->_mp_size) ? abs (w->_mp_size) : 1));
      R ru, rv, want; r_from_mpz (&ru, pu); rv.neg = 0; rv.n = v != 0; rv.d[0] = v;
      if (!strcmp (f, "mpz_add_ui")) { r_addsub (&want, &ru, &rv, 0); mpz_add_ui (w, pu, v); }
      else if (!strcmp (f, "mpz_sub_ui")) { r_addsub (&want, &ru, &rv, 1); mpz_sub_ui (w, pu, v); }
      else if (!strcmp (f, "mpz_ui_sub")) { r_addsub (&want, &rv, &ru, 1); mpz_ui_sub (w, v, pu); }
      else if (!strcmp (f, "mpz_mul_ui")) { want.n = ref_mul (want.d, ru.d, ru.n, rv.d, rv.n); want.neg = want.n ? ru.neg : 0; mpz_mul_ui (w, pu, v); }
      else if (!strcmp (f, "mpz_mul_si")) { long sv = (long) v; rv.d[0] = sv < 0 ? -(L) sv : (L) sv; want.n = ref_mul (want.d, ru.d, ru.n, rv.d, rv.n); want.neg = want.n ? (ru.neg != (sv < 0)) : 0; mpz_mul_si (w, pu, sv); }
      else { R one; one.neg = 0; one.n = 1; one.d[0] = 1; R t; r_addsub (&t, &ru, &one, 0); want = t; want.neg = t.n ? !t.neg : 0; mpz_com (w, pu); }      /* ~x = -(x+1) */
      int ok = r_eq_mpz (&want, w);
      if (ok && !al) ok = r_eq_mpz (&ru, u);
      if (!ok) { failed (f); printf (" alias=%d v=%#lx u:neg=%d", al, (unsigned long) v, ru.neg); show ("", ru.d, ru.n); show_z ("got", w); printf (" want:neg=%d", want.neg); show ("", want.d, want.n); printf ("\n"); return 1; }
      mpz_clear (w); mpz_clear (u);
    }
  printf ("PASS %d\n", budget); return 0;
}


/* ---- mpf functions that are exact on the stored value: neg abs set (into ANY destination precision), integer_p, get_ui/si, fits, cmp_ui, set_ui/si */
static void show_f (const char *nm, const mpf_t f) { printf (" %s(size=%d,prec=%d,exp=%ld)", nm, f->_mp_size, f->_mp_prec, (long) f->_mp_exp); show ("", f->_mp_d, abs (f->_mp_size)); }
static int mpf_wf (const mpf_t f) { int n = abs (f->_mp_size); return n <= f->_mp_prec + 1 && (n == 0 ? f->_mp_exp == 0 : f->_mp_d[n - 1] != 0); }
static int t_mpf_exact (const char *f, int budget)
{
  for (int it = 0; it < budget / 4; it++)
    {
      mpf_t u, r; mk_mpf (u, 5); mpf_init2 (r, 64 * (1 + rnd64 () % 6));        /* destination precision smaller, equal or larger */
      if (it % 6 == 0 && u->_mp_size) u->_mp_exp = abs (u->_mp_size) + (long) (rnd64 () % 3) - 1;
      int un = abs (u->_mp_size), ok = 1; mpf_t u0; mpf_init2 (u0, 64 * 8); mpf_set (u0, u);
      mpz_t a, b; mpz_init (a); mpz_init (b);
      if (!strcmp (f, "mpf_neg") || !strcmp (f, "mpf_abs") || !strcmp (f, "mpf_set"))
        {
          int al = (rnd64 () % 4 == 0); mpf_ptr pr = al ? u : r;
          if (!strcmp (f, "mpf_neg")) mpf_neg (pr, u); else if (!strcmp (f, "mpf_abs")) mpf_abs (pr, u); else mpf_set (pr, u);
          /* want: the top min(un, prec+1) limbs of u0, same exponent, sign per function */
          int keep = un < pr->_mp_prec + 1 ? un : pr->_mp_prec + 1, rn = abs (pr->_mp_size);
          int wneg = !strcmp (f, "mpf_neg") ? (u0->_mp_size > 0) : !strcmp (f, "mpf_abs") ? 0 : (u0->_mp_size < 0);
          ok = rn == keep && pr->_mp_exp == u0->_mp_exp && (rn == 0 || (pr->_mp_size < 0) == wneg) && memcmp (pr->_mp_d, u0->_mp_d + (un - keep), keep * sizeof (L)) == 0 && mpf_wf (pr);
          if (!ok) { failed (f); printf (" alias=%d", al); show_f ("u", u0); show_f ("got", pr); printf ("\n"); return 1; }
        }
      else if (!strcmp (f, "mpf_trunc") || !strcmp (f, "mpf_ceil") || !strcmp (f, "mpf_floor"))
        {
          int tr = !strcmp (f, "mpf_trunc"), al = tr && (rnd64 () % 4 == 0); mpf_ptr pr = al ? u : r;
          if (!tr) mpf_set_prec (r, 64 * 7);                                    /* ceil/floor: enough precision for an exact answer */
          mpf_to_scaled (a, u0, 8);
          if (tr) mpz_tdiv_q_2exp (b, a, 64 * 8); else if (!strcmp (f, "mpf_ceil")) mpz_cdiv_q_2exp (b, a, 64 * 8); else mpz_fdiv_q_2exp (b, a, 64 * 8);
          if (tr) mpf_trunc (pr, u); else if (!strcmp (f, "mpf_ceil")) mpf_ceil (pr, u); else mpf_floor (pr, u);
          int bn = mpz_size (b), keep = bn < pr->_mp_prec + 1 ? bn : pr->_mp_prec + 1, rn = abs (pr->_mp_size);
          /* r must equal the top `keep` limbs of b (low zero limbs of r may be stored or dropped: compare as scaled integers) */
          mpz_t c; mpz_init (c); mpf_to_scaled (c, pr, 0); mpz_t bt; mpz_init (bt); mpz_tdiv_q_2exp (bt, b, 64 * (bn - keep)); mpz_mul_2exp (bt, bt, 64 * (bn - keep));
          ok = mpz_cmp (c, bt) == 0 && mpf_wf (pr) && rn <= pr->_mp_prec + 1;
          if (!ok) { failed (f); printf (" alias=%d", al); show_f ("u", u0); show_f ("got", pr); show_z ("want", bt); printf ("\n"); return 1; }
          mpz_clear (c); mpz_clear (bt);
        }
      else if (!strcmp (f, "mpf_mul_2exp") || !strcmp (f, "mpf_div_2exp"))
        {
          int mul = !strcmp (f, "mpf_mul_2exp"), al = (rnd64 () % 3 == 0); mpf_ptr pr = al ? u : r;
          unsigned long e = it % 3 == 0 ? 64 * (rnd64 () % 4) : rnd64 () % 200;
          int n = un < pr->_mp_prec + (e % 64 == 0) ? un : pr->_mp_prec + (e % 64 == 0);       /* limbs taken from the top of u */
          mpz_set_ui (a, 0); for (int i = un - 1; i >= un - n; i--) { mpz_mul_2exp (a, a, 64); mpz_add_ui (a, a, u0->_mp_d[i]); }
          long sh = 64 * (12 + u0->_mp_exp - n) + (mul ? (long) e : -(long) e);
          mpz_mul_2exp (a, a, sh); if (u0->_mp_size < 0) mpz_neg (a, a);
          if (mul) mpf_mul_2exp (pr, u, e); else mpf_div_2exp (pr, u, e);
          mpf_to_scaled (b, pr, 12);
          ok = mpz_cmp (a, b) == 0 && mpf_wf (pr);
          if (!ok) { failed (f); printf (" alias=%d e=%lu", al, e); show_f ("u", u0); show_f ("got", pr); printf ("\n"); return 1; }
        }
      else if (!strcmp (f, "mpf_set_z"))
        {
          mpz_t z; mk_mpz (z, 6); int zn = abs (z->_mp_size), keep = zn < r->_mp_prec + 1 ? zn : r->_mp_prec + 1;
          mpf_set_z (r, z);
          ok = abs (r->_mp_size) == keep && r->_mp_exp == zn && (keep == 0 || (r->_mp_size < 0) == (z->_mp_size < 0)) && memcmp (r->_mp_d, z->_mp_d + (zn - keep), keep * sizeof (L)) == 0 && mpf_wf (r);
          if (!ok) { failed (f); show_z ("z", z); show_f ("got", r); printf ("\n"); return 1; }
          mpz_clear (z);
        }
      else if (!strcmp (f, "mpf_cmp_si"))
        {
          long v = (long) pat (); if (it % 3 == 0 && un == 1 && u->_mp_exp == 1) v = (long) (u->_mp_d[0] + (rnd64 () % 3) - 1) * (u->_mp_size < 0 ? -1 : 1);
          if (it % 5 == 0 && un >= 2 && u->_mp_exp == 1) v = (long) u->_mp_d[un - 1] * (u->_mp_size < 0 ? -1 : 1);
          mpf_to_scaled (a, u, 8); mpz_set_si (b, v); mpz_mul_2exp (b, b, 64 * 8);
          int want = SG (mpz_cmp (a, b)), got = SG (mpf_cmp_si (u, v));
          if (got != want) { failed (f); show_f ("u", u); printf (" v=%ld got=%d want=%d\n", v, got, want); return 1; }
        }
      else if (!strcmp (f, "mpf_swap"))
        {
          mpf_t v0; mpf_init2 (v0, 64 * 8); mpf_set (r, u0); mpf_neg (r, r); mpf_set (v0, r); void *pu = u->_mp_d, *pr2 = r->_mp_d; int pru = u->_mp_prec, prr = r->_mp_prec;
          mpf_swap (u, r);
          ok = u->_mp_d == pr2 && r->_mp_d == pu && u->_mp_prec == prr && r->_mp_prec == pru && mpf_cmp (u, v0) == 0 && mpf_cmp (r, u0) == 0;
          if (!ok) { failed (f); show_f ("u", u); show_f ("v", r); printf ("\n"); return 1; }
          mpf_clear (v0);
        }
      else if (!strcmp (f, "mpf_integer_p"))
        {
          long e = u->_mp_exp; int want = 1;                                   /* limbs below the radix point: indices < un - exp */
          if (un && e <= 0) want = 0; else for (int i = 0; i < un - e && i < un; i++) if (u->_mp_d[i]) want = 0;
          int got = mpf_integer_p (u) != 0;
          if (got != want) { failed (f); show_f ("u", u); printf (" got=%d want=%d\n", got, want); return 1; }
        }
      else
        {
          /* integer part, truncated: t = trunc(u) as an mpz via exact scaling */
          mpf_to_scaled (a, u, 8); mpz_tdiv_q_2exp (b, a, 64 * 8);            /* b = trunc(u) */
          if (!strcmp (f, "mpf_get_ui")) { unsigned long want = mpz_size (b) ? mpz_getlimbn (b, 0) : 0, got = mpf_get_ui (u); ok = got == want; if (!ok) { failed (f); show_f ("u", u); printf (" got=%#lx want=%#lx\n", got, want); return 1; } }
          else if (!strcmp (f, "mpf_get_si")) { long got = mpf_get_si (u); if (mpz_fits_slong_p (b) && got != mpz_get_si (b)) { failed (f); show_f ("u", u); printf (" got=%ld want=%ld\n", got, mpz_get_si (b)); return 1; } }
          else if (!strncmp (f, "mpf_fits_", 9))
            {
              int got, want;
              if (!strcmp (f, "mpf_fits_ulong_p")) { got = mpf_fits_ulong_p (u); want = mpz_sgn (b) >= 0 && mpz_fits_ulong_p (b); if (mpz_sgn (b) == 0) want = 1; }
              else if (!strcmp (f, "mpf_fits_slong_p")) { got = mpf_fits_slong_p (u); want = mpz_fits_slong_p (b); }
              else if (!strcmp (f, "mpf_fits_uint_p")) { got = mpf_fits_uint_p (u); want = mpz_fits_uint_p (b); }
              else if (!strcmp (f, "mpf_fits_sint_p")) { got = mpf_fits_sint_p (u); want = mpz_fits_sint_p (b); }
              else if (!strcmp (f, "mpf_fits_ushort_p")) { got = mpf_fits_ushort_p (u); want = mpz_fits_ushort_p (b); }
              else { got = mpf_fits_sshort_p (u); want = mpz_fits_sshort_p (b); }
              if ((got != 0) != (want != 0)) { failed (f); show_f ("u", u); printf (" got=%d want=%d\n", got, want); return 1; }
            }
          else if (!strcmp (f, "mpf_cmp_ui"))
            {
              unsigned long v = pat (); if (it % 3 == 0 && un == 1 && u->_mp_exp == 1) v = u->_mp_d[0] + (rnd64 () % 3) - 1;
              mpz_set_ui (b, v); mpz_mul_2exp (b, b, 64 * 8);
              int want = SG (mpz_cmp (a, b)), got = SG (mpf_cmp_ui (u, v));
              if (got != want) { failed (f); show_f ("u", u); printf (" v=%#lx got=%d want=%d\n", v, got, want); return 1; }
            }
          else if (!strcmp (f, "mpf_set_ui") || !strcmp (f, "mpf_set_si"))
            {
              unsigned long v = pat (); int si = !strcmp (f, "mpf_set_si");
              if (si) mpf_set_si (r, (long) v); else mpf_set_ui (r, v);
              unsigned long mag = si && (long) v < 0 ? -v : v;
              ok = mpf_wf (r) && (v == 0 ? r->_mp_size == 0 : (abs (r->_mp_size) == 1 && r->_mp_d[0] == mag && r->_mp_exp == 1 && (r->_mp_size < 0) == (si && (long) v < 0)));
              if (!ok) { failed (f); printf (" v=%#lx", v); show_f ("got", r); printf ("\n"); return 1; }
            }
          else { printf ("no native test for %s\n", f); return 3; }
        }
      mpf_clear (u); mpf_clear (r); mpf_clear (u0); mpz_clear (a); mpz_clear (b);
    }
  printf ("PASS %d\n", budget / 4); return 0;
}
/* ---- C07: gcd_ui / invert / lcm against mpz_gcd, mpz_gcdext and the defining congruence */
static int t_mpz_gcdfam (const char *f, int budget)
{
  for (int it = 0; it < budget / 8; it++)
    {
      mpz_t w, u, v, g, t; mk_mpz (w, 3); mk_mpz (u, 3); mk_mpz (v, 3); mpz_init (g); mpz_init (t);
      if (!strcmp (f, "mpz_gcd_ui"))
        {
          unsigned long d = it % 4 == 0 ? 0 : it % 4 == 1 ? 1 + rnd64 () % 20 : pat ();
          int al = rnd64 () % 3; mpz_t u0; mpz_init_set (u0, u); mpz_ptr pw = al == 2 ? NULL : w, pu = u; if (al == 1) { mpz_set (w, u); pu = w; }
          unsigned long ret = mpz_gcd_ui (pw, pu, d);
          mpz_set_ui (t, d); mpz_gcd (g, u0, t);
          int ok = mpz_fits_ulong_p (g) ? ret == mpz_get_ui (g) : ret == 0;
          if (pw) ok = ok && mpz_cmp (pw, g) == 0 && abs (pw->_mp_size) <= pw->_mp_alloc;
          if (al != 1) ok = ok && mpz_cmp (u, u0) == 0;
          if (!ok) { failed (f); printf (" alias=%d v=%#lx ret=%#lx", al, d, ret); show_z ("u", u0); if (pw) show_z ("w", pw); show_z ("want", g); printf ("\n"); return 1; }
          mpz_clear (u0);
        }
      else if (!strcmp (f, "mpz_invert"))
        {
          if (mpz_sgn (v) == 0) mpz_set_si (v, it % 2 ? 7 : -7);
          if (it % 3 == 0) { mpz_set_si (v, (long) (2 + rnd64 () % 30) * (it % 2 ? 1 : -1)); mpz_set_si (u, (long) (rnd64 () % 60) - 30); }
          int al = rnd64 () % 3; mpz_t u0, v0; mpz_init_set (u0, u); mpz_init_set (v0, v); mpz_ptr pu = u, pv = v;
          if (al == 1) { mpz_set (w, u); pu = w; } else if (al == 2) { mpz_set (w, v); pv = w; }
          int ex = mpz_invert (w, pu, pv) != 0;
          mpz_gcd (g, u0, v0); mpz_abs (t, v0);
          int want = mpz_cmp_ui (g, 1) == 0 && mpz_cmp_ui (t, 1) != 0 && mpz_sgn (u0) != 0, ok = ex == want;
          if (mpz_cmp_ui (t, 1) == 0) ok = 1;                                  /* |n| == 1: the manual leaves the answer open */
          if (ok && ex && mpz_cmp_ui (t, 1) != 0) { mpz_t m; mpz_init (m); mpz_mul (m, w, u0); mpz_sub_ui (m, m, 1); ok = mpz_divisible_p (m, v0) && mpz_sgn (w) >= 0 && mpz_cmp (w, t) < 0; mpz_clear (m); }
          if (!ok) { failed (f); printf (" alias=%d exists=%d", al, ex); show_z ("x", u0); show_z ("n", v0); show_z ("got", w); printf ("\n"); return 1; }
          mpz_clear (u0); mpz_clear (v0);
        }
      else if (!strcmp (f, "mpz_lcm"))
        {
          int al = rnd64 () % 4; mpz_t u0, v0; mpz_init_set (u0, u); mpz_init_set (v0, v); mpz_ptr pu = u, pv = v;
          if (al == 1) { mpz_set (w, u); pu = w; } else if (al == 2) { mpz_set (w, v); pv = w; } else if (al == 3) { pv = pu; mpz_set (v0, u0); }
          mpz_lcm (w, pu, pv);
          if (mpz_sgn (u0) == 0 || mpz_sgn (v0) == 0) mpz_set_ui (t, 0); else { mpz_gcd (g, u0, v0); mpz_divexact (t, u0, g); mpz_mul (t, t, v0); mpz_abs (t, t); }
          if (mpz_cmp (w, t) != 0) { failed (f); printf (" alias=%d", al); show_z ("u", u0); show_z ("v", v0); show_z ("got", w); show_z ("want", t); printf ("\n"); return 1; }
          mpz_clear (u0); mpz_clear (v0);
        }
      else { printf ("no native test for %s\n", f); return 3; }
      mpz_clear (w); mpz_clear (u); mpz_clear (v); mpz_clear (g); mpz_clear (t);
    }
  printf ("PASS %d\n", budget / 8); return 0;
}
/* ---- C19: ranges for every generator, a destination holding a stale wider value, re-seeding a USED state is reproducible */
static void mk_state (gmp_randstate_t st, int kind)
{
  if (kind == 0) gmp_randinit_mt (st);
  else if (kind == 1) gmp_randinit_lc_2exp_size (st, 16 + 16 * (rnd64 () % 8));
  else { mpz_t a; mpz_init_set_ui (a, 0x5851F42D4C957F2DUL | 5); gmp_randinit_lc_2exp (st, a, 1 + rnd64 () % 100, 8 + rnd64 () % 250); mpz_clear (a); }
}
static int t_random (const char *f, int budget)
{
  for (int it = 0; it < budget / 40; it++)
    {
      int kind = it % 3; gmp_randstate_t st; mk_state (st, kind); gmp_randseed_ui (st, rnd64 ());
      if (!strcmp (f, "mpz_urandomb"))
        {
          mpz_t x; mk_mpz (x, 8); unsigned long nb = (it % 2) ? 64 * (rnd64 () % 5) : rnd64 () % 330;        /* stale wider content, multiples of the limb size */
          mpz_urandomb (x, st, nb);
          if (mpz_sgn (x) < 0 || mpz_sizeinbase (x, 2) > nb + (mpz_sgn (x) == 0) || (x->_mp_size && x->_mp_d[x->_mp_size - 1] == 0))
            { failed (f); printf (" generator=%d nbits=%lu", kind, nb); show_z ("got", x); printf ("\n"); return 1; }
          mpz_clear (x);
        }
      else if (!strcmp (f, "gmp_urandomb_ui")) { unsigned long nb = rnd64 () % 70, r = gmp_urandomb_ui (st, nb); if (nb < 64 && (r >> nb)) { failed (f); printf (" generator=%d bits=%lu got=%#lx\n", kind, nb, r); return 1; } }
      else if (!strcmp (f, "gmp_urandomm_ui")) { unsigned long n = it % 4 == 0 ? 1 + rnd64 () % 3 : it % 4 == 1 ? (1UL << (rnd64 () % 64)) : pat (); if (!n) n = 1; unsigned long r = gmp_urandomm_ui (st, n); if (r >= n) { failed (f); printf (" generator=%d n=%#lx got=%#lx\n", kind, n, r); return 1; } }
      else if (!strcmp (f, "mpn_urandomm") || !strcmp (f, "mpz_urandomm"))
        {
          mpz_t x, n; mk_mpz (x, 6); mk_mpz (n, 4); mpz_abs (n, n); if (mpz_sgn (n) == 0) mpz_set_ui (n, 1 + it % 5); if (it % 5 == 0) { mpz_set_ui (n, 1); mpz_mul_2exp (n, n, rnd64 () % 200); }
          int al = it % 7 == 0; mpz_t n0; mpz_init_set (n0, n);
          if (al) mpz_urandomm (n, st, n); else mpz_urandomm (x, st, n);
          mpz_ptr r = al ? n : x;
          if (mpz_sgn (r) < 0 || mpz_cmp (r, n0) >= 0) { failed (f); printf (" generator=%d alias=%d", kind, al); show_z ("n", n0); show_z ("got", r); printf ("\n"); return 1; }
          mpz_clear (x); mpz_clear (n); mpz_clear (n0);
        }
      else if (!strcmp (f, "randseed_lc") || !strcmp (f, "randseed"))
        {
          /* two states of the same generator, different histories, same seed -> same sequence */
          gmp_randstate_t s2; gmp_randinit_set (s2, st); mpz_t sd, a, b; mk_mpz (sd, 3); mpz_abs (sd, sd); if (it % 3 == 0) mpz_set_ui (sd, rnd64 () % 4); mpz_init (a); mpz_init (b);
          for (int k = 0; k < 1 + (int) (rnd64 () % 4); k++) mpz_urandomb (a, st, 300);      /* use one of them */
          gmp_randseed (st, sd); gmp_randseed (s2, sd);
          for (int k = 0; k < 3; k++)
            { mpz_urandomb (a, st, 200); mpz_urandomb (b, s2, 200); if (mpz_cmp (a, b) != 0) { failed (f); printf (" generator=%d draw=%d", kind, k); show_z ("seed", sd); show_z ("used_state", a); show_z ("fresh_state", b); printf ("\n"); return 1; } }
          gmp_randclear (s2); mpz_clear (sd); mpz_clear (a); mpz_clear (b);
        }
      else { printf ("no native test for %s\n", f); return 3; }
      gmp_randclear (st);
    }
  printf ("PASS %d\n", budget / 40); return 0;
}


/* ---- C06: mpn_get_str / mpn_set_str, every base 2..62 (get) / 2..256 power-of-two and others via round trip */
static int t_radix (const char *f, int budget)
{
  int only = 0; const char *bp = strstr (f, "_b"); if (bp) only = atoi (bp + 2);
  for (int it = 0; it < budget / 8; it++)
    {
      int bases[] = {2, 4, 8, 16, 32, 64, 128, 256, 3, 10, 36, 62, 7, 255};
      int base = only ? only : bases[rnd64 () % 14];
      int un = 1 + rnd64 () % 6; L u[8], u2[8], r[16]; fill (u, un); while (u[un - 1] == 0) u[un - 1] = pat (); memcpy (u2, u, sizeof u);
      unsigned char str[600], str2[600];
      size_t n = mpn_get_str (str, base, u2, un);
      /* reference digits: repeated division of a copy by the base (schoolbook) */
      L q[8]; memcpy (q, u, sizeof u); int qn = un; size_t rn = 0;
      while (qn > 0) { u128 rem = 0; for (int i = qn - 1; i >= 0; i--) { u128 cur = (rem << 64) | q[i]; q[i] = (L) (cur / base); rem = cur % base; } str2[rn++] = (unsigned char) rem; while (qn > 0 && q[qn - 1] == 0) qn--; }
      int ok = 1;
      if (!strncmp (f, "mpn_get_str", 11))
        {
          /* leading zeros are allowed by the manual only as "may"; compare the values: skip leading zeros of the output */
          size_t z = 0; while (z + 1 < n && str[z] == 0) z++;
          ok = (n - z == rn); for (size_t i = 0; ok && i < rn; i++) ok = str[z + i] == str2[rn - 1 - i];
          if ((base & (base - 1)) == 0) ok = ok && z == 0;                      /* power-of-two bases: exact digit count (contract) */
          if (!ok) { failed (f); printf (" base=%d", base); show ("u", u, un); printf (" got %zu digits:", n); for (size_t i = 0; i < n && i < 40; i++) printf (" %d", str[i]); printf ("\n"); return 1; }
        }
      else
        {
          /* set_str of the reference digits (most significant first, optionally with leading zero digits) gives u back */
          size_t lz = rnd64 () % 3, len = rn + lz; unsigned char in[700]; memset (in, 0, lz); for (size_t i = 0; i < rn; i++) in[lz + i] = str2[rn - 1 - i];
          memset (r, 0xA5, sizeof r);
          mp_size_t sz = mpn_set_str (r, in, len, base);
          int sn = norm (r, sz);
          ok = sn == un && memcmp (r, u, un * sizeof (L)) == 0 && sz <= (mp_size_t) ((len * 8 + 63) / 64 + 1);
          if (!ok) { failed (f); printf (" base=%d leading_zero_digits=%zu", base, lz); show ("want", u, un); show ("got", r, sz > 0 && sz < 12 ? sz : 0); printf (" size=%ld\n", (long) sz); return 1; }
        }
    }
  printf ("PASS %d\n", budget / 8); return 0;
}


/* ---- C17: mpz_export against the bit-field definition (word w = bits [w*numb, (w+1)*numb) of |z|, nails zero), every order/endian/size/nail;
   mpz_import of the exported words gives |z| back */
static unsigned long field_of (const mpz_t z, unsigned long o, unsigned k)       /* k <= 64 bits of |z| starting at bit o */
{
  unsigned long v = 0; for (unsigned b = 0; b < k; b++) if (mpz_tstbit (z, o + b)) v |= 1UL << b; return v;
}
static int t_export (const char *f, int budget)
{
  int only_size = 0, only_nail = -1; const char *bp = strstr (f, "_bytes_n"); if (bp) { only_size = 1; only_nail = atoi (bp + 8); }
  for (int it = 0; it < budget / 40; it++)
    {
      mpz_t z, az; mk_mpz (z, 5); mpz_init (az); mpz_abs (az, z);
      size_t size = only_size ? only_size : (size_t[]) {1, 2, 3, 4, 8, 8, 16}[rnd64 () % 7];
      size_t nail = only_nail >= 0 ? (size_t) only_nail : (it % 3 == 0 ? 0 : rnd64 () % (8 * size)); if (it % 5 == 0 && only_nail < 0) nail = 8 * (rnd64 () % size);
      int order = (rnd64 () & 1) ? 1 : -1, endian = (int) (rnd64 () % 3) - 1; size_t numb = 8 * size - nail;
      size_t want_count = mpz_sgn (z) ? (mpz_sizeinbase (az, 2) + numb - 1) / numb : 0, count = 12345;
      unsigned char *buf = malloc (want_count * size + 16); memset (buf, 0xA5, want_count * size + 16);
      void *ret = mpz_export (buf + 8, &count, order, size, endian, nail, z);                 /* 8-aligned +8: also the aligned fast paths for size 8 */
      int ok = ret == buf + 8 && count == want_count, e = endian ? endian : -1;
      for (size_t w = 0; ok && w < count; w++)
        {
          unsigned char *wp = buf + 8 + (order == -1 ? w : count - 1 - w) * size;
          for (size_t j = 0; ok && j < size; j++)                                           /* byte j counted from the least significant byte of the word */
            {
              unsigned char got = wp[e == -1 ? j : size - 1 - j]; unsigned long lo = 8 * j; unsigned want = 0;
              if (lo < numb) want = (unsigned) field_of (az, w * numb + lo, numb - lo < 8 ? (unsigned) (numb - lo) : 8);
              ok = got == want;
            }
        }
      for (int i = 0; ok && i < 8; i++) ok = buf[i] == 0xA5 && buf[8 + count * size + i] == 0xA5;   /* nothing outside count*size bytes */
      if (ok && !strncmp (f, "mpz_import", 10))
        { mpz_t b; mpz_init (b); mk_mpz (b, 3); mpz_import (b, count, order, size, endian, nail, buf + 8); ok = mpz_cmp (b, az) == 0 && (b->_mp_size == 0 || b->_mp_d[b->_mp_size - 1] != 0); mpz_clear (b); }
      if (!ok) { failed (f); printf (" size=%zu nail=%zu order=%d endian=%d count=%zu want_count=%zu", size, nail, order, endian, count, want_count); show_z ("z", z); printf (" bytes:"); for (size_t i = 0; i < count * size && i < 40; i++) printf (" %02x", buf[8 + i]); printf ("\n"); return 1; }
      free (buf); mpz_clear (z); mpz_clear (az);
    }
  printf ("PASS %d\n", budget / 40); return 0;
}


static int t_misc (const char *f, int budget)
{
  for (int it = 0; it < budget / 4; it++)
    {
      if (!strcmp (f, "mpz_divisible_2exp_p"))
        {
          mpz_t a, r; mk_mpz (a, 4); mpz_init (r); unsigned long d = it % 3 == 0 ? 64 * (rnd64 () % 5) : rnd64 () % 300;
          if (it % 2 && mpz_sgn (a)) mpz_mul_2exp (a, a, rnd64 () % 200);
          mpz_tdiv_r_2exp (r, a, d); int want = mpz_sgn (r) == 0, got = mpz_divisible_2exp_p (a, d) != 0;
          if (got != want) { failed (f); printf (" d=%lu", d); show_z ("a", a); printf (" got=%d want=%d\n", got, want); return 1; }
          mpz_clear (a); mpz_clear (r);
        }
      else if (!strcmp (f, "mpq_equal"))
        {
          mpq_t a, b; mk_mpq (a, 3); mk_mpq (b, 3); mpq_canonicalize (a); mpq_canonicalize (b);
          if (it % 3 == 0) mpq_set (b, a); if (it % 6 == 0 && mpz_size (mpq_denref (b)) > 1) mpq_denref (b)->_mp_d[0] ^= 2, mpq_canonicalize (b);
          int want = mpz_cmp (mpq_numref (a), mpq_numref (b)) == 0 && mpz_cmp (mpq_denref (a), mpq_denref (b)) == 0, got = mpq_equal (a, b) != 0;
          if (got != want) { failed (f); show_q ("a", a); show_q ("b", b); printf (" got=%d want=%d\n", got, want); return 1; }
          mpq_clear (a); mpq_clear (b);
        }
      else { printf ("no native test for %s\n", f); return 3; }
    }
  printf ("PASS %d\n", budget / 4); return 0;
}

int main (int argc, char **argv)
{
  if (argc < 4) { fprintf (stderr, "usage: native <function> <seed> <budget>\n"); return 2; }
  const char *f = argv[1]; rs = 0x9E3779B97F4A7C15ULL ^ (strtoull (argv[2], 0, 10) * 0xD1342543DE82EF95ULL); if (!rs) rs = 1;
  int budget = atoi (argv[3]);
  setvbuf (stdout, 0, _IOLBF, 0);
  if (!strcmp (f, "mpn_add_n") || !strcmp (f, "mpn_sub_n") || (strstr (f, "_n") && (strstr (f, "and") || strstr (f, "ior") || strstr (f, "xor") || strstr (f, "nor")) && strcmp (f, "mpn_com_n"))) return t_mpn3 (f, budget);
  if (!strcmp (f, "mpn_add") || !strcmp (f, "mpn_sub") || !strcmp (f, "mpn_add_1") || !strcmp (f, "mpn_sub_1")) return t_mpn_aors (f, budget);
  if (!strcmp (f, "mpn_mul_1") || !strcmp (f, "mpn_addmul_1") || !strcmp (f, "mpn_submul_1")) return t_mpn_mul1 (f, budget);
  if (!strcmp (f, "mpn_copyi") || !strcmp (f, "mpn_copyd") || !strcmp (f, "mpn_zero") || !strcmp (f, "mpn_com_n") || !strcmp (f, "mpn_neg_n") || !strcmp (f, "mpn_lshift") || !strcmp (f, "mpn_rshift")) return t_mpn_unary (f, budget);
  if (!strcmp (f, "mpn_cmp") || !strcmp (f, "mpn_zero_p") || !strncmp (f, "mpn_scan", 8) || !strcmp (f, "mpn_popcount") || !strcmp (f, "mpn_hamdist")) return t_mpn_pred (f, budget);
  if (!strcmp (f, "mpz_add") || !strcmp (f, "mpz_sub")) return t_mpz_aors (f, budget);
  if (!strcmp (f, "mpz_mul")) return t_mpz_mul (f, budget);
  if (!strcmp (f, "mpz_tdiv_qr") || !strcmp (f, "mpz_tdiv_q") || !strcmp (f, "mpz_tdiv_r")) return t_mpz_tdiv_qr (f, budget);
  if (!strcmp (f, "mpz_add_ui") || !strcmp (f, "mpz_sub_ui") || !strcmp (f, "mpz_ui_sub") || !strcmp (f, "mpz_com") || !strcmp (f, "mpz_mul_ui") || !strcmp (f, "mpz_mul_si")) return t_mpz_ui (f, budget);
  if (!strcmp (f, "mpz_neg") || !strcmp (f, "mpz_abs") || !strcmp (f, "mpz_set") || !strcmp (f, "mpz_swap")) return t_mpz_copy (f, budget);
  if (!strcmp (f, "mpz_cmp") || !strcmp (f, "mpz_cmpabs")) return t_mpz_cmp (f, budget);
  if (!strcmp (f, "mpz_tstbit") || !strcmp (f, "mpz_scan0") || !strcmp (f, "mpz_scan1")) return t_mpz_bits (f, budget);
  if (!strcmp (f, "extract_double")) return t_extract_double (f, budget);
  if (!strcmp (f, "mpz_set_d") || !strcmp (f, "mpz_cmp_d") || !strcmp (f, "mpz_cmpabs_d")) return t_mpz_dbl (f, budget);
  if (!strcmp (f, "mpz_setbit") || !strcmp (f, "mpz_clrbit") || !strcmp (f, "mpz_combit") || !strcmp (f, "mpz_and") || !strcmp (f, "mpz_ior") || !strcmp (f, "mpz_xor")) return t_mpz_bitops (f, budget);
  if ((!strncmp (f, "mpz_fdiv", 8) || !strncmp (f, "mpz_cdiv", 8) || !strncmp (f, "mpz_tdiv", 8)) && strlen (f) >= 2 && !strcmp (f + strlen (f) - 2, "ui")) return t_mpz_div_ui (f, budget);
  if (!strncmp (f, "mpz_fdiv", 8) || !strncmp (f, "mpz_cdiv", 8) || !strcmp (f, "mpz_mod")) return t_mpz_div (f, budget);
  if (!strncmp (f, "mpz_cmp", 7) || !strncmp (f, "mpz_fits", 8) || !strncmp (f, "mpz_get", 7) || !strncmp (f, "mpz_set_", 8)) return t_mpz_c11 (f, budget);
  if (!strcmp (f, "raw")) { int r1 = t_raw (f, budget); return r1 ? r1 : t_raw_leak (budget); }
  if (!strcmp (f, "mpz_divisible_2exp_p") || !strcmp (f, "mpq_equal")) return t_misc (f, budget);
  if (!strncmp (f, "mpq_", 4)) return t_mpq (f, budget);
  if (!strcmp (f, "mpf_neg") || !strcmp (f, "mpf_abs") || !strcmp (f, "mpf_set") || !strcmp (f, "mpf_integer_p") || !strcmp (f, "mpf_get_ui") || !strcmp (f, "mpf_get_si") || !strncmp (f, "mpf_fits_", 9) || !strcmp (f, "mpf_cmp_ui") || !strcmp (f, "mpf_set_ui") || !strcmp (f, "mpf_set_si") || !strcmp (f, "mpf_trunc") || !strcmp (f, "mpf_ceil") || !strcmp (f, "mpf_floor") || !strcmp (f, "mpf_cmp_si") || !strcmp (f, "mpf_swap") || !strcmp (f, "mpf_mul_2exp") || !strcmp (f, "mpf_div_2exp") || !strcmp (f, "mpf_set_z")) return t_mpf_exact (f, budget);
  if (!strcmp (f, "mpz_gcd_ui") || !strcmp (f, "mpz_invert") || !strcmp (f, "mpz_lcm")) return t_mpz_gcdfam (f, budget);
  if (!strcmp (f, "mpz_urandomb") || !strcmp (f, "gmp_urandomb_ui") || !strcmp (f, "gmp_urandomm_ui") || !strcmp (f, "mpn_urandomm") || !strcmp (f, "mpz_urandomm") || !strcmp (f, "randseed_lc")) return t_random (f, budget);
  if (!strncmp (f, "mpn_get_str", 11) || !strncmp (f, "mpn_set_str", 11)) return t_radix (f, budget);
  if (!strncmp (f, "mpz_export", 10) || !strncmp (f, "mpz_import", 10)) return t_export (f, budget);
  if (!strcmp (f, "mpf_cmp")) return t_mpf_cmp (f, budget);
  printf ("no native test for %s\n", f);
  return 3;
}
