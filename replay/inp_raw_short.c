/* native demonstration of the C04/C17 finding: mpz_inp_raw on a stream that ends inside the body.
   build: gcc -I/repo inp_raw_short.c /repo/.libs/libmpir.a -o t && ./t
   exit 0 = destination well formed after the failed read; exit 1 = SIZ left over unread limbs (leading zero limb) */
#define _GNU_SOURCE
#include <stdio.h>
#include <string.h>
#include "mpir.h"
int main (void)
{
  unsigned char buf[7] = {0, 0, 0, 16, 0xAA, 0xBB, 0xCC};      /* header: 16 body bytes; only 3 present */
  FILE *fp = fmemopen (buf, sizeof buf, "rb");
  mpz_t x;
  mpz_init2 (x, 256);
  mpz_set_ui (x, 5);                /* limbs above the first are zero */
  size_t r = mpz_inp_raw (x, fp);
  int sz = x->_mp_size, asz = sz < 0 ? -sz : sz;
  printf ("mpz_inp_raw returned %zu, SIZ(x) = %d, top limb = %#lx, sizeinbase2 = %zu\n", r, sz,
          asz ? (unsigned long) x->_mp_d[asz - 1] : 0UL, mpz_sizeinbase (x, 2));
  if (r == 0 && asz != 0 && x->_mp_d[asz - 1] == 0)
    { printf ("FAIL: not well formed after failed read (leading zero limb)\n"); return 1; }
  printf ("ok\n");
  return 0;
}
