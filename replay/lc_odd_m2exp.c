#include <stdio.h>
#include "mpir.h"
int main(void){
  int bad=0;
  for (unsigned long m2=1; m2<=300 && bad<15; m2++) for (unsigned long c=1;c<=3;c+=2) for (unsigned long nb=1; nb<=300 && bad<15; nb++) {
    gmp_randstate_t st; mpz_t a,x; mpz_init_set_ui(a,0x5851F42D4C957F2DUL|5); mpz_init(x);
    gmp_randinit_lc_2exp(st,a,c,m2); gmp_randseed_ui(st,12345);
    for(int k=0;k<3;k++){ mpz_urandomb(x,st,nb); if (mpz_sizeinbase(x,2)>nb && mpz_sgn(x)) { printf("m2exp=%lu c=%lu nbits=%lu draw=%d bits=%lu\n",m2,c,nb,k,(unsigned long)mpz_sizeinbase(x,2)); bad++; break; } }
    gmp_randclear(st); mpz_clear(a); mpz_clear(x);
  }
  printf("bad=%d\n",bad); return bad!=0;
}
