#!/bin/sh
# usage: ./check.sh <PROP> [quick|thorough]
cd "$(dirname "$0")"
exec python3 engine/vf.py check "$1" --tier "${2:-${VERIF_TIER:-quick}}"
