/* /verif/shim/longlong_models.h
 *
 * Stands in for /repo/mpn/x86_64/longlong_inc.h (the x86-64 inline-asm bodies)
 * when a unit is preprocessed for CBMC.  The engine concatenates, on every run,
 *     /repo/longlong_pre.h  +  this file  +  /repo/longlong_post.h
 * exactly as configure concatenates longlong_pre.h + longlong_inc.h +
 * longlong_post.h into /repo/longlong.h.
 *
 * NOTE: CBMC ignores __attribute__((mode(DI))) and would make gmp-impl.h's UDItype 32 bits wide; the models
 * therefore use plain unsigned long.  No other /repo text uses the mode attribute.
 * Models (DESIGN 3.5):
 *  umul_ppmm   uninterpreted mulq (hi,lo) + the axioms carry arithmetic relies on
 *  udiv_qrnnd  asserts n1 < d (divq raises #DE otherwise), uninterpreted q, r < d
 *  count_leading_zeros / count_trailing_zeros   exact (builtin clz/ctz), x != 0 asserted
 *  BSWAP_LIMB  exact (__builtin_bswap64)
 * add_ssaaaa / sub_ddmmss / add_333 / sub_333 are deliberately NOT defined here:
 * longlong_post.h then supplies its own portable C versions (real repo text).
 */
#ifndef VERIF_LONGLONG_MODELS_H
#define VERIF_LONGLONG_MODELS_H

unsigned long __CPROVER_uninterpreted_mulhi (unsigned long, unsigned long);
unsigned long __CPROVER_uninterpreted_mullo (unsigned long, unsigned long);
unsigned long __CPROVER_uninterpreted_divq (unsigned long, unsigned long, unsigned long);
unsigned long __CPROVER_uninterpreted_divr (unsigned long, unsigned long, unsigned long);

/* hi:lo of u*v, as the mulq instruction.  Axioms: hi <= B-2;  hi == B-2 ==> lo >= 1... not
   needed; multiplying by 0 or 1 is exact. */
#define umul_ppmm(w1, w0, u, v)                                               \
  do {                                                                        \
    unsigned long __vu = (u), __vv = (v);                                           \
    (w1) = __CPROVER_uninterpreted_mulhi (__vu, __vv);                        \
    (w0) = __CPROVER_uninterpreted_mullo (__vu, __vv);                        \
    __CPROVER_assume ((w1) <= ~(unsigned long) 1);                                  \
    __CPROVER_assume (__vu > 1 || ((w1) == 0 && (w0) == (__vu ? __vv : 0)));  \
    __CPROVER_assume (__vv > 1 || ((w1) == 0 && (w0) == (__vv ? __vu : 0)));  \
    __CPROVER_assume (__vu == 0 || __vv == 0 || (w1) != 0 || (w0) != 0);  /* no zero divisors */ \
  } while (0)

#define udiv_qrnnd(q, r, n1, n0, dx)                                          \
  do {                                                                        \
    unsigned long __vn1 = (n1), __vn0 = (n0), __vd = (dx);                          \
    __CPROVER_assert (__vn1 < __vd, "[C02][C04] divq operand: high word below divisor (no #DE)"); \
    (q) = __CPROVER_uninterpreted_divq (__vn1, __vn0, __vd);                  \
    (r) = __CPROVER_uninterpreted_divr (__vn1, __vn0, __vd);                  \
    __CPROVER_assume ((r) < __vd);                                            \
    __CPROVER_assume (__vn1 != 0 || __vn0 >= __vd || ((q) == 0 && (r) == __vn0)); \
  } while (0)

#define count_leading_zeros(count, x)                                         \
  do {                                                                        \
    unsigned long __vx = (x);                                                       \
    __CPROVER_assert (__vx != 0, "[C04] count_leading_zeros operand non-zero (bsr undefined at 0)"); \
    (count) = __builtin_clzl (__vx);                                          \
  } while (0)

#define count_trailing_zeros(count, x)                                        \
  do {                                                                        \
    unsigned long __vx = (x);                                                       \
    __CPROVER_assert (__vx != 0, "[C04] count_trailing_zeros operand non-zero (bsf undefined at 0)"); \
    (count) = __builtin_ctzl (__vx);                                          \
  } while (0)

#define BSWAP_LIMB(dst, src)  do { (dst) = __builtin_bswap64 (src); } while (0)

#endif
