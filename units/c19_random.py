"""C19 core: range post-conditions of the urandomb / urandomm families, with the generator behind _gmp_rand as an ASSUMED contract
(fills ceil(nbits/64) limbs with arbitrary bits, zero above bit nbits)."""
from c04_alloc import mpz_obj
from c03_mpz import norm_loop
UNITS = []
GEN = r'''
#ifndef V_DFCC
#define V_DFCC 0
#endif
/* generator contract (assumed; what randget_mt / randget_lc are meant to deliver): writes exactly ceil(nbits/64) limbs, arbitrary bits,
   the bits above nbits in the last limb are zero, nothing else is touched */
static void V_randget (gmp_randstate_t st, mp_ptr rp, mpir_ui nbits)
{
  __CPROVER_size_t nl = (nbits + 63) / 64;
  __CPROVER_assert (nl == 0 || __CPROVER_w_ok (rp, nl * 8), "[C19][C04] _gmp_rand: destination holds ceil(nbits/64) limbs");
  /* NOTE: outside goto-instrument --dfcc, __CPROVER_havoc_slice with a symbolic size silently leaves the memory unchanged
     (measured); one-limb requests, the only ones the non-DFCC units of this file make, are therefore written directly */
  if (nl == 1) rp[0] = nondet_ulong ();
  else if (nl != 0) { __CPROVER_assert (V_DFCC, "multi-limb generator output only in DFCC units"); __CPROVER_havoc_slice (rp, nl * 8); }
  if (nbits % 64 != 0) __CPROVER_assume ((rp[nl - 1] >> (nbits % 64)) == 0);
#ifdef V_REC_NBITS
  g_nbits = nbits;          /* ghost: the bit count the function under contract asked the generator for */
#endif
}
static const gmp_randfnptr_t V_fns = {0, V_randget, 0, 0};
#define V_RSTATE(R) __gmp_randstate_struct R; R._mp_algdata._mp_lc = (void *) &V_fns;
'''
ASM = ['_gmp_rand (randget_fn of the generator): ASSUMED contract - fills ceil(nbits/64) limbs with arbitrary bits, zero above bit nbits; the Mersenne-Twister / LC generators themselves have no unit',
       'termination of rejection loops is probabilistic and not proved']
UNITS.append(dict(
    name='gmp_urandomb_ui', props=['C19', 'C04'], source='randbui.c', functions={'__gmp_urandomb_ui': {}}, assumptions=ASM,
    harness=GEN + '''void h_gmp_urandomb_ui (void) {
  V_RSTATE (R); mpir_ui bits = nondet_ulong ();
  mpir_ui r = __gmp_urandomb_ui (&R, bits);
  __CPROVER_assert (bits >= 64 || (r >> bits) == 0, "[C19] gmp_urandomb_ui: result below 2^bits");
}''', selftest=[('__gmp_urandomb_ui', r'a\[0\] = 0;', ';')]))
UNITS.append(dict(
    name='gmp_urandomm_ui', props=['C19', 'C04', 'C02'], source='randmui.c', functions={'__gmp_urandomm_ui': dict(loops={0: 'unwind'})}, assumptions=ASM,
    unwind=82, contract_text='_Bool g_div0_expected;\nvoid __gmp_divide_by_zero (void) { __CPROVER_assert (g_div0_expected, "[C19][C02] DIVIDE_BY_ZERO only for n == 0"); __CPROVER_assume (0); }\n',
    harness=GEN + '''void h_gmp_urandomm_ui (void) {
  V_RSTATE (R); mpir_ui n = nondet_ulong ();
  g_div0_expected = (n == 0);
  mpir_ui r = __gmp_urandomm_ui (&R, n);
  __CPROVER_assert (n != 0 && r < n, "[C19] gmp_urandomm_ui: result in [0, n-1] (also after the 80-iteration fallback)");
}''', selftest=[('__gmp_urandomm_ui', r'ret -= n;', 'ret -= 0;')]))
UNITS.append(dict(
    name='mpn_urandomm', props=['C19', 'C04'], source='mpn/generic/urandomm.c', contracts=['mpn.h'], assumptions=ASM,
    enforce=['__gmpn_urandomm'], replace=['__gmpn_cmp'],
    contract_text='''void __gmpn_urandomm (mp_ptr rp, gmp_randstate_t rnd, mp_srcptr mp, mp_size_t n)
__CPROVER_requires (1 <= n && n <= V_NMAX && V_W_OK (rp, n) && V_R_OK (mp, n) && mp[n - 1] != 0 && V_SEPARATE (rp, n, mp, n) && __CPROVER_r_ok (rnd, sizeof (*rnd)))
__CPROVER_assigns (__CPROVER_object_upto (rp, n * 8), g_hd)
/* result < modulus: they differ, the highest differing limb is smaller in the result, all limbs above are equal (at gj) */
__CPROVER_ensures (0 <= g_hd && g_hd < n && rp[g_hd] < mp[g_hd])
__CPROVER_ensures ((g_hd < gj && gj < n) ==> rp[gj] == mp[gj]);
''',
    functions={'__gmpn_urandomm': dict(loops={0: dict(scalars=[], slices=[('rp', 'n * 8')], inv='(b == 64 * (n - 1) + c && 1 <= c && c <= 64 && mp[n - 1] != 0 && (c == 64 || (mp[n - 1] >> c) == 0))',
                                                      havoc='g_hd = nondet_long ();', havoc_targets=['g_hd'], local_to_body=['__rstate'])})},
    harness='#define V_DFCC 1\n' + GEN + '''void h_mpn_urandomm (void) {
  V_RSTATE (R); mp_size_t n = nondet_long (); __CPROVER_assume (1 <= n && n <= V_NMAX);
  mp_limb_t *rp = malloc (n * 8), *mp = malloc (n * 8); gj = nondet_long ();
  __gmpn_urandomm (rp, &R, mp, n);
}''', selftest=[('__gmpn_urandomm', r'>= 0\)', '> 0)')]))
UNITS.append(dict(
    name='mpz_urandomb', props=['C19', 'C04'], source='mpz/urandomb.c', contracts=['mpn.h', 'mpz.h'], assumptions=ASM,
    enforce=['__gmpz_urandomb'], replace=['__gmpz_realloc'],
    contract_text='''void __gmpz_urandomb (mpz_ptr rop, gmp_randstate_t rstate, mp_bitcnt_t nbits)
__CPROVER_requires (V_WF (rop) && nbits <= 64 * (unsigned long) V_ZMAX && __CPROVER_r_ok (rstate, sizeof (*rstate)) && V_GHOSTS_OK)
__CPROVER_assigns (*rop, __CPROVER_object_whole (V_PTR (rop)))
__CPROVER_frees (V_PTR (rop))
__CPROVER_ensures (V_WF_AT (rop, gk) && V_SIZ (rop) >= 0)
/* value < 2^nbits: at most ceil(nbits/64) limbs, and a full-length result has no bit at or above nbits */
__CPROVER_ensures ((unsigned long) V_SIZ (rop) <= (nbits + 63) / 64)
__CPROVER_ensures (((unsigned long) V_SIZ (rop) == (nbits + 63) / 64 && nbits % 64 != 0) ==> (V_PTR (rop)[V_SIZ (rop) - (V_SIZ (rop) > 0)] >> (nbits % 64)) == 0);
''',
    functions={'__gmpz_urandomb': dict(loops={0: norm_loop('rp', 'size', 'gk')})},
    harness='#define V_DFCC 1\n' + GEN + 'void h_mpz_urandomb (void) {\n  V_RSTATE (R);\n' + mpz_obj('X') + '''  mp_bitcnt_t nbits = nondet_ulong ();
  gk = nondet_long (); gj = nondet_long (); gh = nondet_long ();
  __gmpz_urandomb (&X, &R, nbits);
}''', selftest=[('__gmpz_urandomb', r'\(\(rop\)->_mp_size\) = size', '((rop)->_mp_size) = size + 1')]))

# ------------------------------------------------------------------ randseed_lc: after seeding, the LC state is a function of the seed alone
from c03_mpz import store_loop
from c03_mpn import copy_loop
LC_CONTRACT = '''long g_fs; mp_limb_t g_fl;
#define V_LCP(r) ((gmp_rand_lc_struct *) ((r)->_mp_seed->_mp_d))
#define V_LCN(r) ((long) ((V_LCP (r)->_mp_m2exp + 63) / 64))
static void randseed_lc (gmp_randstate_t rstate, mpz_srcptr seed)
/* state invariant (established by gmp_randinit_lc_2exp through mpz_init2 (seed, m2exp)): block of ALLOC >= ceil(m2exp/64) limbs */
__CPROVER_requires (__CPROVER_r_ok (rstate, sizeof (*rstate)) && __CPROVER_w_ok (V_LCP (rstate), sizeof (gmp_rand_lc_struct)))
__CPROVER_requires (1 <= V_LCP (rstate)->_mp_m2exp && V_LCP (rstate)->_mp_m2exp <= 64 * (unsigned long) (V_ZMAX - 1))
__CPROVER_requires (V_WFA (V_LCP (rstate)->_mp_seed) && V_ALLOC (V_LCP (rstate)->_mp_seed) >= V_LCN (rstate) && V_WF (seed) && V_GHOSTS_OK)
__CPROVER_assigns (*(V_LCP (rstate)->_mp_seed), __CPROVER_object_whole (V_PTR (V_LCP (rstate)->_mp_seed)), g_fs, g_fl)
__CPROVER_frees (V_PTR (V_LCP (rstate)->_mp_seed))
__CPROVER_ensures (V_WFA (V_LCP (rstate)->_mp_seed) && V_ALLOC (V_LCP (rstate)->_mp_seed) >= V_LCN (rstate))
__CPROVER_ensures (V_SIZ (V_LCP (rstate)->_mp_seed) == V_LCN (rstate))
/* every state limb is the limb of (seed mod 2^m2exp) at that position, zero above its size: nothing of the previous state survives */
__CPROVER_ensures (gk < V_LCN (rstate) ==> V_PTR (V_LCP (rstate)->_mp_seed)[gk] == (gk < g_fs ? g_fl : 0));
'''
LC_H = '''/* mpz_fdiv_r_2exp: ASSUMED (stub): w = u mod 2^cnt, 0 <= w, at most ceil(cnt/64) limbs, normalised; may grow the block to cnt/64+1 limbs
   (the real function does so for negative u); ghost capture of the result's size and of its limb at gk */
void __gmpz_fdiv_r_2exp (mpz_ptr w, mpz_srcptr u, mpir_ui cnt)
{
  __CPROVER_assert (w != u && V_WFA (w) && V_WF (u), "[C19][C04] mpz_fdiv_r_2exp: operands well formed (allocation of w; u normalised)");
  long need = (long) (cnt / 64) + 1;
  if (V_ALLOC (w) < need && nondet_bool ())
    { free (V_PTR (w)); w->_mp_d = malloc (need * 8); __CPROVER_assume (w->_mp_d != (void *) 0); w->_mp_alloc = need; }
  long s = nondet_long (); __CPROVER_assume (0 <= s && s <= (long) ((cnt + 63) / 64) && s <= V_ALLOC (w));
  __CPROVER_havoc_slice (w->_mp_d, (__CPROVER_size_t) (long) V_ALLOC (w) * 8);
  __CPROVER_assume (s == 0 || w->_mp_d[s - 1] != 0);
  w->_mp_size = s; g_fs = s; g_fl = (0 <= gk && gk < s) ? w->_mp_d[gk] : 0;
}
void h_randseed_lc (void) {
  __gmp_randstate_struct R; gmp_rand_lc_struct *p = malloc (sizeof (gmp_rand_lc_struct)); __CPROVER_assume (p != (void *) 0);
  R._mp_seed->_mp_d = (mp_limb_t *) p;
  { long a = nondet_long (); __CPROVER_assume (1 <= a && a <= V_ZMAX); p->_mp_seed->_mp_alloc = a; p->_mp_seed->_mp_d = malloc (a * 8); __CPROVER_assume (p->_mp_seed->_mp_d != (void *) 0); }
%(S)s  gk = nondet_long (); gj = nondet_long (); gh = nondet_long ();
  randseed_lc (&R, &S);
}'''
UNITS.append(dict(
    name='randseed_lc', props=['C19', 'C04', 'C15'], source='randlc2x.c', contracts=['mpn.h', 'mpz.h'], contract_text=LC_CONTRACT,
    enforce=['randseed_lc'],
    functions={'randseed_lc': dict(loops={0: store_loop('gk - ((seedz)->_mp_size)')})},
    assumptions=['mpz_fdiv_r_2exp: ASSUMED (stub in the harness): non-negative result of at most ceil(cnt/64) limbs, may grow the block to cnt/64+1 limbs',
                 'the LC state invariant ALLOC(seed) >= ceil(m2exp/64) is a precondition (established by gmp_randinit_lc_2exp via mpz_init2; not proved here)'],
    harness='#define V_DFCC 1\n' + LC_H % dict(S=mpz_obj('S')), timeout=900,
    selftest=[('randseed_lc', r'seedn - \(\(seedz\)->_mp_size\)\) != 0', '0) != 0'), ('randseed_lc', r'\(\(seedz\)->_mp_size\) = seedn;', ';')]))

# ------------------------------------------------------------------ randget_lc: the LC generator MEETS the generator contract the other C19 units assume
# (ceil(nbits/64) limbs at most, no bit at or above nbits, nothing outside the destination and the state), over an ASSUMED contract of lc()
RG_CONTRACT = '''extern const void *__CPROVER_alloca_object;
#define V_LCP(r) ((gmp_rand_lc_struct *) ((r)->_mp_seed->_mp_d))
#define V_LCV(r) ((long) ((V_LCP (r)->_mp_m2exp + 1) / 2))                 /* valid bits of one lc() step: the high half, ceil(m2exp/2) */
#define V_LCW(r) ((V_LCV (r) + 63) / 64)                                   /* limbs one lc() step writes */
#define V_LCSTATE(r) (__CPROVER_r_ok ((r), sizeof (*(r))) && __CPROVER_w_ok (V_LCP (r), sizeof (gmp_rand_lc_struct)) \\
   && 1 <= V_LCP (r)->_mp_m2exp && V_LCP (r)->_mp_m2exp <= (1UL << 30) && V_WFA (V_LCP (r)->_mp_seed))
/* ASSUMED (from the code of lc(): it returns (m2exp+1)/2 "valid bits", writes ceil(valid/64) limbs, t < 2^m2exp shifted right by m2exp/2) */
static mpir_ui lc (mp_ptr rp, gmp_randstate_t rstate)
__CPROVER_requires (V_LCSTATE (rstate) && V_W_OK (rp, V_LCW (rstate)))
__CPROVER_assigns (__CPROVER_object_upto (rp, V_LCW (rstate) * 8), __CPROVER_object_whole (V_PTR (V_LCP (rstate)->_mp_seed)))
__CPROVER_ensures (__CPROVER_return_value == (mpir_ui) V_LCV (rstate))
__CPROVER_ensures (V_LCV (rstate) % 64 != 0 ==> (rp[V_LCW (rstate) - 1] >> (V_LCV (rstate) % 64)) == 0);
static void randget_lc (gmp_randstate_t rstate, mp_ptr rp, mpir_ui nbits)
__CPROVER_requires (V_LCSTATE (rstate) && nbits <= 64 * (unsigned long) V_ZMAX && (nbits == 0 || V_W_OK (rp, (nbits + 63) / 64)) && V_GHOSTS_OK)
__CPROVER_requires (!__CPROVER_same_object (rp, V_PTR (V_LCP (rstate)->_mp_seed)) && !__CPROVER_same_object (rp, V_LCP (rstate)) && !__CPROVER_same_object (rp, rstate))
__CPROVER_assigns (__CPROVER_object_upto (rp, ((nbits + 63) / 64) * 8), __CPROVER_object_whole (V_PTR (V_LCP (rstate)->_mp_seed)), __CPROVER_alloca_object, gk)
__CPROVER_ensures (nbits % 64 != 0 ==> (rp[nbits / 64] >> (nbits % 64)) == 0);
'''
RG_H = '''void *__gmp_tmp_reentrant_alloc (struct tmp_reentrant_t **m, size_t n) { void *q = malloc (n); __CPROVER_assume (q != (void *) 0); return q; }
void __gmp_tmp_reentrant_free (struct tmp_reentrant_t *m) { }
void h_randget_lc (void) {
  __gmp_randstate_struct R; gmp_rand_lc_struct *p = malloc (sizeof (gmp_rand_lc_struct)); __CPROVER_assume (p != (void *) 0);
  R._mp_seed->_mp_d = (mp_limb_t *) p;
  { long a = nondet_long (); __CPROVER_assume (1 <= a && a <= V_ZMAX); p->_mp_seed->_mp_alloc = a; p->_mp_seed->_mp_d = malloc (a * 8); __CPROVER_assume (p->_mp_seed->_mp_d != (void *) 0); }
  mpir_ui nbits = nondet_ulong (); __CPROVER_assume (nbits <= 64 * (unsigned long) V_ZMAX);
  mp_limb_t *rp = malloc (((nbits + 63) / 64) * 8); __CPROVER_assume (rp != (void *) 0);
  gk = 0; gj = 0; gh = 0;
  randget_lc (&R, rp, nbits);
}'''
_PBIT = '(rbitpos % 64 != 0 ==> (rp[rbitpos / 64] >> (rbitpos % 64)) == 0)'
UNITS.append(dict(
    name='randget_lc', props=['C19', 'C04', 'C15'], source='randlc2x.c', contracts=['mpn.h', 'mpz.h'], contract_text=RG_CONTRACT,
    enforce=['randget_lc'], replace=['lc', '__gmpn_lshift'],
    functions={'randget_lc': dict(
        inserts=[(r'rcy = __gmpn_lshift \(r2p, tp, tn, rbitpos % \(64 - 0\)\);(?=\s*r2p\[0\] \|= savelimb;\s*if \(\(chunk_nbits)', r'gk = tn - 1; \g<0>'),
                 (r'rcy = __gmpn_lshift \(r2p, tp, tn, rbitpos % \(64 - 0\)\);(?=\s*r2p\[0\] \|= savelimb;\s*if \(rbitpos \+ tn)', r'gk = tn - 1; \g<0>')],
        loops={0: dict(scalars=['rbitpos', 'gk'], slices=[('rp', '((nbits + 63) / 64) * 8'), ('V_sp', 'V_sa * 8'), ('V_tp', 'tn * 8')],
                       snap='mp_ptr V_sp = (((gmp_rand_lc_struct *) ((rstate)->_mp_seed->_mp_d))->_mp_seed)->_mp_d; long V_sa = (((gmp_rand_lc_struct *) ((rstate)->_mp_seed->_mp_d))->_mp_seed)->_mp_alloc; mp_ptr V_tp = tp;',
                       inv='(rbitpos <= nbits && chunk_nbits == V_LCV (rstate) && tn == V_LCW (rstate) && tp == V_tp && V_W_OK (tp, tn) && (chunk_nbits % 64 == 0 ==> rbitpos % 64 == 0) && ' + _PBIT + ')',
                       dec='(nbits - rbitpos)', local_to_body=['r2p', 'savelimb', 'rcy']),
               1: copy_loop(['gk'])})},
    assumptions=['lc(): ASSUMED contract (writes ceil(valid/64) limbs, valid = (m2exp+1)/2 = its own return value, no bit above; advances the state); mpn_mul inside lc is not verified',
                 'm2exp <= 2^30 (chunk size is an int)'],
    harness=RG_H, timeout=3000, tier='thorough', replay='mpz_urandomb',
    selftest=[('randget_lc', r'if \(nbits % \(64 - 0\) != 0\)\s*rp\[nbits / \(64 - 0\)\]', 'if (0) rp[nbits / (64 - 0)]')]))

# ------------------------------------------------------------------ mpz_urandomm: 0 <= result < |n| for every n, also when rop == n (rejection loop; generator assumed)
UM_CONTRACT = '''_Bool g_div0_expected; unsigned long g_nbits;
void __gmp_divide_by_zero (void) { __CPROVER_assert (g_div0_expected, "[C19][C02] DIVIDE_BY_ZERO only for n == 0"); __CPROVER_assume (0); }
void __gmpz_urandomm (mpz_ptr rop, gmp_randstate_t rstate, mpz_srcptr n)
__CPROVER_requires (V_WF (rop) && V_WF (n) && __CPROVER_r_ok (rstate, sizeof (*rstate)) && V_GHOSTS_OK)
__CPROVER_assigns (*rop, __CPROVER_object_whole (V_PTR (rop)), g_hd, g_nbits)
__CPROVER_frees (V_PTR (rop))
__CPROVER_ensures (V_WF_AT (rop, gk) && V_WF_AT (rop, gj) && V_SIZ (rop) >= 0);
'''
UM_H = '''#include "/verif/contracts/alloc_stubs.h"
void h_mpz_urandomm (void) {
  V_INSTALL_ALLOCATOR ();
  V_RSTATE (R);
%(X)s%(N)s  mpz_ptr rop = &X; mpz_srcptr n = &N;
ALIASBLOCK
  gk = nondet_long (); gj = nondet_long (); gh = nondet_long ();
  __CPROVER_assume (V_GHOSTS_OK && V_WF (rop) && V_WF (n));
  long sn = V_SIZ (n), un = V_ABS (sn); mp_limb_t Nk = gk < un ? V_PTR (n)[gk] : 0, Nj = gj < un ? V_PTR (n)[gj] : 0, N0 = un ? V_PTR (n)[0] : 0, Ntop0 = un ? V_PTR (n)[un - 1] : 1;
  g_div0_expected = (un == 0); g_hd = -1; g_nbits = 0;
  __gmpz_urandomm (rop, &R, n);
  __CPROVER_assert (un != 0, "[C19] returned normally, so n was not zero");
  long rn = V_SIZ (rop);
#define V_RL(t) ((t) < rn ? V_PTR (rop)[t] : (mp_limb_t) 0)
  if (un == 1 && N0 == 1)
    __CPROVER_assert (rn == 0, "[C19] n == 1: the only value in [0, n-1] is 0");
  else
    {
      /* result < |n|: at the highest differing limb g_hd the result is smaller, all limbs above agree (limbs of the result above its size are zero) */
      __CPROVER_assert (0 <= g_hd && g_hd < un && rn <= un, "[C19] the result differs from |n| at some limb g_hd and has at most as many limbs");
      __CPROVER_assert (g_hd == gk ==> V_RL (gk) < Nk, "[C19] at the highest differing limb the result is smaller than |n|");
      __CPROVER_assert ((g_hd < gj && gj < un) ==> V_RL (gj) == Nj, "[C19] all limbs above it agree with |n| (compared against the ORIGINAL n, also when rop == n)");
      /* exact bit count (the property's "power-of-two detection"): unless |n| is a power of two, the generator is asked for bitlength (|n|) bits - with fewer, the upper part of [0, n) would
         never be drawn.  "Not a power of two" is witnessed by the top limb or by a non-zero lower limb at the ghost position gj. */
      __CPROVER_assert (((Ntop0 & (Ntop0 - 1)) != 0 || (gj < un - 1 && Nj != 0)) ==> g_nbits == 64 * (unsigned long) un - (unsigned long) __builtin_clzl (Ntop0),
                        "[C19] |n| not a power of two (witness: top limb, or the non-zero lower limb gj): the generator is asked for exactly bitlength (|n|) bits");
      __CPROVER_assert (g_nbits == 64 * (unsigned long) un - (unsigned long) __builtin_clzl (Ntop0) || g_nbits == 64 * (unsigned long) un - (unsigned long) __builtin_clzl (Ntop0) - 1, "[C19] bit count is bitlength (|n|) or one less");
    }
  if (n != rop) __CPROVER_assert ((long) V_SIZ (n) == sn && (gk < un ==> V_PTR (n)[gk] == Nk), "[C05] n (not the result) unchanged");
  free (X._mp_d); free (N._mp_d);
}'''
_um = dict(
    name='mpz_urandomm', props=['C19', 'C04', 'C05', 'C15'], source='mpz/urandomm.c', contracts=['mpn.h', 'mpz.h'], contract_text=UM_CONTRACT, assumptions=ASM,
    enforce=['__gmpz_urandomm'], extra_sources=['mpz/realloc.c'], cbmc_flags=['--memory-leak-check'],
    functions={'__gmpz_urandomm': dict(
        inserts=[(r'\(cmp\) = \(__gmp_x > __gmp_y \? 1 : -1\);', r'g_hd = __gmp_i; \g<0>')],
        loops={0: dict(scalars=['pow2'], havoc_targets=['np'], havoc='{ long V_d = nondet_long (); __CPROVER_assume (0 <= V_d && V_d <= size - 1); np = n->_mp_d + V_d; }', havoc_inv={'V_d': '(np - n->_mp_d)'},
                       inv='(np >= n->_mp_d && np <= nlast && __CPROVER_same_object (np, n->_mp_d) && nlast == n->_mp_d + (size - 1) && size >= 1 && pow2 == 1 && ((0 <= gj && gj < np - n->_mp_d) ==> n->_mp_d[gj] == 0))', dec='(nlast - np)'),
               1: copy_loop(['gk', 'gj']),
               2: dict(scalars=['cmp', 'g_hd'], local_to_body=['__rstate', '__gmp_i', '__gmp_x', '__gmp_y', 'V_nd'], slices=[('rp', 'size * 8')],
                       inv='(size >= 1 && size <= V_ZMAX && V_W_OK (rp, size) && V_R_OK (np, size) && !__CPROVER_same_object (rp, np) && nbits >= 1 && (unsigned long) nbits <= 64 * (unsigned long) size && ((unsigned long) nbits > 64 * (unsigned long) (size - 1) || rp[size - 1] == 0))'),
               3: dict(scalars=['__gmp_i', '__gmp_x', '__gmp_y', 'cmp', 'g_hd'],
                       inv='(0 <= __gmp_i && __gmp_i <= size && cmp == 0 && ((__gmp_i <= gj && gj < size) ==> rp[gj] == np[gj]) && ((__gmp_i <= gk && gk < size) ==> rp[gk] == np[gk]))', dec='__gmp_i'),
               4: dict(snap='long V_nl0 = size;', scalars=['size'], dec='size',
                       inv='(0 <= size && size <= V_nl0 && ((size <= gk && gk < V_nl0) ==> rp[gk] == 0) && ((size <= gj && gj < V_nl0) ==> rp[gj] == 0))')})},
    harness='#define V_DFCC 1\n#define V_REC_NBITS 1\n' + GEN + UM_H % dict(X=mpz_obj('X'), N=mpz_obj('N')), timeout=1500,
    selftest=[('__gmpz_urandomm', r'while \(cmp >= 0\);', 'while (cmp > 0);'), ('__gmpz_urandomm', r'rp\[size - 1\] = 0;', ';')])
for _t, _c in (('', ''), ('an', '  n = rop;')):
    _v = dict(_um); _v['name'] = 'mpz_urandomm' + ('_' + _t if _t else '')
    _v['harness'] = _um['harness'].replace('ALIASBLOCK', _c).replace('h_mpz_urandomm (void)', 'h_%s (void)' % _v['name'])
    if _t: _v['selftest'] = [('__gmpz_urandomm', r'if\(np==rp\)', 'if(0)')]
    UNITS.append(_v)
