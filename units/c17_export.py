"""C17: mpz_export, byte-sized words (size == 1) with any nail count 0..7 - word w of the output is the k-bit field [wk, wk+k) of |z| (k = 8 - nail),
placed per `order`; word count exact; nothing else written.  One unit per nail count, unbounded in the operand length."""
from c04_alloc import mpz_obj
UNITS = []
EX_CONTRACT = '''#define V_NBITS(p,n) ((unsigned long) (n) * 64 - (unsigned long) __builtin_clzl ((p)[(n) - 1]))
/* the word count is the ghost gh, pinned by (gh-1)k < bitlength <= gh k (no division in the specification) */
#define V_DOK(p,n,k) (1 <= gh && gh <= 64 * V_NMAX && (unsigned long) gh * (k) >= V_NBITS (p, n) && (unsigned long) (gh - 1) * (k) < V_NBITS (p, n))
#define V_FIELD(p,n,o,k) ((((p)[(o) / 64] >> ((o) % 64)) | ((((o) % 64) + (k) > 64 && (o) / 64 + 1 < (n)) ? (p)[(o) / 64 + 1] << (64 - ((o) % 64)) : 0)) & ((1UL << (k)) - 1))
#define V_ADDR(w) (order == -1 ? (w) : gh - 1 - (w))                         /* index of word w (0 = least significant) in the output */
void *__gmpz_export (void *data, size_t *countp, int order, size_t size, int endian, size_t nail, mpz_srcptr z)
__CPROVER_requires (V_WF (z) && size == 1 && nail == V_NL && (order == 1 || order == -1) && -1 <= endian && endian <= 1 && data != (void *) 0 && countp != (size_t *) 0)
__CPROVER_requires (__CPROVER_w_ok (countp, sizeof (size_t)) && !__CPROVER_same_object (countp, data) && !__CPROVER_same_object (countp, z) && 0 <= gj && gj <= 64 * V_NMAX)
__CPROVER_requires (V_SIZ (z) != 0 ==> (V_DOK (V_PTR (z), V_ABSIZ (z), V_KC) && __CPROVER_w_ok (data, gh) && __CPROVER_POINTER_OFFSET (data) == 0 && !__CPROVER_same_object (data, V_PTR (z)) && !__CPROVER_same_object (data, z)))
__CPROVER_assigns (*countp; V_SIZ (z) != 0: __CPROVER_object_upto (data, gh))
__CPROVER_ensures (__CPROVER_return_value == data)
__CPROVER_ensures (*countp == (V_SIZ (z) == 0 ? (size_t) 0 : (size_t) gh))
__CPROVER_ensures ((V_SIZ (z) != 0 && gj < gh) ==> ((unsigned char *) data)[V_ADDR (gj)] == V_FIELD (V_PTR (z), V_ABSIZ (z), (unsigned long) gj * V_KC, V_KC));
'''
def _export(nl):
    k = 8 - nl
    C = '(zp - z->_mp_d)'
    D = '((unsigned char *) data)'
    inv = ('(count == (size_t) gh && size == 1 && nail == V_NL && (order == 1 || order == -1) && (endian == 1 || endian == -1) && wbytes == V_KC / 8 && wbits == V_KC % 8 && wbitsmask == (1UL << (V_KC % 8)) - 1 '
           '&& woffset == (endian >= 0 ? 1 : -1) + (order < 0 ? 1 : -1) && zsize == V_ABSIZ (z) && zend == z->_mp_d + zsize && V_WF (z) && V_DOK (V_PTR (z), V_ABSIZ (z), V_KC) && i <= count '
           '&& ((0 <= gj && (unsigned long) gj < i) ==> @D@[V_ADDR (gj)] == V_FIELD (V_PTR (z), V_ABSIZ (z), (unsigned long) gj * V_KC, V_KC)) '
           '&& (i < count ==> (__CPROVER_same_object (zp, z->_mp_d) && 0 <= CC && CC <= zsize && 0 <= lbits && lbits <= 63 && (unsigned long) CC * 64 - lbits == i * V_KC '
           '&& limb == (lbits ? z->_mp_d[CC - (CC > 0)] >> (64 - lbits) : (mp_limb_t) 0) && (lbits == 0 || CC > 0) '
           '&& __CPROVER_same_object (dp, data) && dp == @D@ + V_ADDR ((long) i))))').replace('CC', C).replace('@D@', D)
    hv = ('{ long V_c = nondet_long (); __CPROVER_assume (0 <= V_c && V_c <= zsize); zp = z->_mp_d + V_c; long V_a = nondet_long (); __CPROVER_assume (i >= count || (0 <= V_a && V_a < gh)); dp = %s + V_a; }' % D)
    return dict(
        name='mpz_export_bytes_n%d' % nl, props=['C17', 'C04', 'C15'], source='mpz/export.c', contracts=['mpn.h', 'mpz.h'],
        contract_text=('#define V_NL %d\n#define V_KC %d\n' % (nl, k)) + EX_CONTRACT, enforce=['__gmpz_export'], unwind=3,
        functions={'__gmpz_export': dict(
            rewrites=[(r'align = \(\(char \*\) data - \(char \*\)[^;]*% sizeof \(mp_limb_t\);', 'align = (unsigned) (((unsigned long) data) % sizeof (mp_limb_t));', 'address of data taken by an integer cast instead of subtracting the null pointer')],
            loops={0: 'unreachable', 1: 'unreachable', 2: 'unreachable', 3: 'unreachable',
                   4: dict(scalars=['i', 'j', 'limb', 'lbits'], havoc_targets=['zp', 'dp'], local_to_body=['newlimb'], havoc=hv, havoc_inv={'V_c': '(zp - z->_mp_d)', 'V_a': '(dp - %s)' % D}, slices=[('data', 'gh')], inv=inv, dec='(count - i)'),
                   5: 'unwind', 6: 'unwind'})},
        assumptions=['size == 1 (byte-sized words) and nail == %d only; data and countp non-NULL; the whole-limb fast paths (size == 8, nail == 0) and words of other sizes have no unit' % nl,
                     '`align = ((char *) data - (char *) NULL) % sizeof (mp_limb_t)`: subtracting the null pointer to get an address is outside ISO C (flat memory with gcc); REWRITTEN in the verified text to `(unsigned long) data % sizeof (mp_limb_t)` - the one spot where the verified text differs from the real text', 'the two inner loops run at most once for size == 1 and are unwound completely (unwinding assertions on)'],
        harness='''void h_mpz_export_bytes_n%d (void) {
%s  gh = nondet_long (); gj = nondet_long (); gk = 0;
  __CPROVER_assume (1 <= gh && gh <= 64 * V_NMAX);
  unsigned char *data = malloc (gh); size_t cnt; __CPROVER_assume (data != (void *) 0);
  int order = nondet_int (), endian = nondet_int ();
  __gmpz_export (data, &cnt, order, 1, endian, V_NL, &Z);
}''' % (nl, mpz_obj('Z')), timeout=2400,
        selftest=[('__gmpz_export', r'limb = newlimb >> \(\(wbits\)-lbits\);', 'limb = newlimb >> ((wbits)-lbits+1);') if nl else ('__gmpz_export', r'limb = newlimb >> \(\(8\)-lbits\);', 'limb = newlimb >> ((8)-lbits+1);'),
                  ('__gmpz_export', r'\(order >= 0 \? \(count-1\)\*size : 0\)', '(order >= 0 ? (count)*size : 0)')] if nl in (0, 3) else [])
# quick tier: the nail counts whose unit returns within ~5 min (n0, n4, n6, n7); n1, n2, n3, n5 need 8-15 min each and run in the thorough tier
# (vp check: C17 quick exceeded 900 s with all sixteen byte units in it); the bounded enumeration unit below covers every nail count in the quick tier
for _n in range(8):
    _u = _export(_n)
    if _n in (1, 2, 3, 5):
        _u['tier'] = 'thorough'
    UNITS.append(_u)

# the rest of the parameter space (word sizes 1..16 bytes, every nail count, both orders, three endian settings, aligned and unaligned data): bounded native stand-in
UNITS.append(dict(
    name='mpz_export_import_enum', kind='native', props=['C17'], source='mpz/export.c', more_sources=['mpz/import.c'], driver='replay/export_enum.c',
    bounded='BOUNDED (not proof): complete enumeration of size{1,2,3,4,5,8,9,16} x nail{0..8*size-1} x order{1,-1} x endian{1,0,-1} x alignment{0,1} x operands of 0..3 limbs over the limb alphabet {1, 2^63, 2^64-1, 0x0123456789abcdef, 0}, both signs: mpz_export against the bit-field definition, then mpz_import of the result',
    desc='[C17] every exported word holds its numb-bit field of |z| with zero nails at the prescribed position, the word count is exact, nothing else is written, and mpz_import gives |z| back - over the whole enumerated space',
    assumptions=['bounded stand-in: 1.1 million cases, operands of at most 3 limbs over a five-letter limb alphabet'],
    selftest=[]))

# ------------------------------------------------------------------ mpz_import, byte-sized words with any nail count: the inverse relation (cf. mpn_set_str)
# word w (0 = least significant, at data[V_ADDR (w)]) contributes its low k bits as the field [wk, wk+k) of the result; the nail bits of the input are ignored;
# the result is normalised and has no bit at or above count*k
IM_CONTRACT = '''#define V_IL(t,zp,size,top) ((t) < (size) ? (zp)[t] : ((t) == (size) ? (top) : (mp_limb_t) 0))
#define V_IFIELD(o,zp,size,top) (((V_IL ((long) ((o) / 64), zp, size, top) >> ((o) % 64)) | ((((o) % 64) + V_KC > 64) ? V_IL ((long) ((o) / 64) + 1, zp, size, top) << (64 - ((o) % 64)) : 0)) & ((1UL << V_KC) - 1))
#define V_IADDR(w) (order == -1 ? (w) : (long) count - 1 - (w))
void __gmpz_import (mpz_ptr z, size_t count, int order, size_t size, int endian, size_t nail, const void *data)
__CPROVER_requires (V_WF (z) && size == 1 && nail == V_NL && (order == 1 || order == -1) && -1 <= endian && endian <= 1 && count <= (size_t) V_ZMAX)
__CPROVER_requires (data != (void *) 0 && (count == 0 || __CPROVER_r_ok (data, count)) && __CPROVER_POINTER_OFFSET (data) == 0 && !__CPROVER_same_object (data, V_PTR (z)) && !__CPROVER_same_object (data, z) && V_GHOSTS_OK)
__CPROVER_assigns (*z, __CPROVER_object_whole (V_PTR (z)))
__CPROVER_frees (V_PTR (z))
__CPROVER_ensures (V_WF_AT (z, gk) && V_SIZ (z) >= 0 && (unsigned long) V_SIZ (z) <= (count * V_KC + 63) / 64)
__CPROVER_ensures ((unsigned long) gj < count ==> V_IFIELD ((unsigned long) gj * V_KC, V_PTR (z), (long) V_SIZ (z), (mp_limb_t) 0) == (((const unsigned char *) data)[V_IADDR (gj)] & ((1UL << V_KC) - 1)))
/* no bit at or above count*k: a result of full length has a top limb below 2^(count*k mod 64) */
__CPROVER_ensures (((unsigned long) V_SIZ (z) == (count * V_KC + 63) / 64 && (count * V_KC) % 64 != 0) ==> (V_PTR (z)[V_SIZ (z) - (V_SIZ (z) > 0)] >> ((count * V_KC) % 64)) == 0);
'''
def _import(nl):
    k = 8 - nl
    W = '(zp - z->_mp_d)'
    D = '((const unsigned char *) data)'
    inv = ('(size == 1 && nail == V_NL && (order == 1 || order == -1) && (endian == 1 || endian == -1) && wbytes == V_KC / 8 && wbits == V_KC % 8 && wbitsmask == (1UL << (V_KC % 8)) - 1 '
           '&& woffset == (endian >= 0 ? 1 : -1) + (order < 0 ? 1 : -1) && count <= (size_t) V_ZMAX && zsize == (mp_size_t) ((count * V_KC + 63) / 64) && V_WFA (z) && V_ALLOC (z) >= zsize && i <= count '
           '&& __CPROVER_same_object (zp, z->_mp_d) && WW == (long) (i * V_KC / 64) && lbits == (int) (i * V_KC % 64) && (limb >> lbits) == 0 '
           '&& ((0 <= gj && (unsigned long) gj < i) ==> V_IFIELD ((unsigned long) gj * V_KC, z->_mp_d, WW, limb) == (@D@[V_IADDR (gj)] & ((1UL << V_KC) - 1))) '
           '&& (i < count ==> (__CPROVER_same_object (dp, data) && dp == (unsigned char *) data + V_IADDR ((long) i))))').replace('WW', W).replace('@D@', D)
    hv = '{ long V_c = nondet_long (); __CPROVER_assume (0 <= V_c && V_c <= zsize); zp = z->_mp_d + V_c; long V_a = nondet_long (); __CPROVER_assume (i >= count || (0 <= V_a && (unsigned long) V_a < count)); dp = (unsigned char *) data + V_a; }'
    LO = '((long) ((unsigned long) gj * V_KC / 64))'
    return dict(
        name='mpz_import_bytes_n%d' % nl, props=['C17', 'C04', 'C15'], source='mpz/import.c', contracts=['mpn.h', 'mpz.h'],
        contract_text=('#define V_NL %d\n#define V_KC %d\n' % (nl, k)) + IM_CONTRACT, enforce=['__gmpz_import'], replace=['__gmpz_realloc'], unwind=3,
        functions={'__gmpz_import': dict(
            rewrites=[(r'unsigned align = \(\(char \*\) data - \(char \*\)[^;]*% sizeof \(mp_limb_t\);', 'unsigned align = (unsigned) (((unsigned long) data) % sizeof (mp_limb_t));', 'address of data taken by an integer cast instead of subtracting the null pointer')],
            loops={0: 'unreachable', 1: 'unreachable', 2: 'unreachable',
                   3: dict(scalars=['i', 'j', 'limb', 'lbits', 'byte'], havoc_targets=['zp', 'dp'], havoc=hv, havoc_inv={'V_c': W, 'V_a': '(dp - (unsigned char *) data)'},
                           slices=[('z->_mp_d', 'zsize * 8')], inv=inv, dec='(count - i)'),
                   4: 'unwind',
                   5: dict(snap='long V_nl0 = zsize;', scalars=['zsize'], dec='zsize',
                           inv=('(0 <= zsize && zsize <= V_nl0 && ((zsize <= gk && gk < V_nl0) ==> zp[gk] == 0) && ((zsize <= LO && LO < V_nl0) ==> zp[LO] == 0) && ((zsize <= LO + 1 && LO + 1 < V_nl0) ==> zp[LO + 1] == 0))').replace('LO', LO))})},
        assumptions=['size == 1 (byte-sized words) and nail == %d only; the whole-limb fast paths and words of other sizes have no unit' % nl,
                     '`align = ((char *) data - (char *) NULL) % sizeof (mp_limb_t)` REWRITTEN in the verified text to an integer cast (ISO C does not define the subtraction)',
                     'the inner byte loop runs at most once for size == 1 and is unwound completely (unwinding assertions on)'],
        harness='''void h_mpz_import_bytes_n%d (void) {
%s  size_t count = nondet_ulong (); __CPROVER_assume (count <= (size_t) V_ZMAX);
  unsigned char *data = malloc (count ? count : 1); __CPROVER_assume (data != (void *) 0);
  gj = nondet_long (); gk = nondet_long (); gh = 0;
  int order = nondet_int (), endian = nondet_int ();
  __gmpz_import (&Z, count, order, 1, endian, V_NL, data);
}''' % (nl, mpz_obj('Z')), timeout=2400,
        selftest=([('__gmpz_import', r'limb = byte >> \(\(wbits\) - lbits\);', 'limb = byte >> ((wbits) - lbits + 1);'), ('__gmpz_import', r'if \(lbits != 0\)', 'if (lbits > 1)')] if nl == 3 else
                  [('__gmpz_import', r'byte = \*dp;', 'byte = *dp & 0x7f;'), ('__gmpz_import', r'\(order >= 0 \? \(count-1\)\*size : 0\)', '(order >= 0 ? (count)*size : 0)')] if nl == 0 else []))
for _n in range(8):
    _u = _import(_n)
    UNITS.append(_u)
