"""C11: comparisons and conversions to/from C integer types (mpz). Loop-free ones are full-domain proofs."""
from c04_alloc import mpz_obj
UNITS = []
P = ['C11', 'C04', 'C15']
def ro1(fn, src, argdecl='', args='', muts=()):
    name = fn.replace('__gmpz_', 'mpz_')
    return dict(name=name, props=P, source='mpz/%s.c' % src, contracts=['mpz.h', 'c11.h'], enforce=[fn],
                harness='void h_%s (void) {\n%s  %s\n  %s (&Z%s);\n}' % (name, mpz_obj('Z'), argdecl, fn, args),
                selftest=[(fn, a, b) for a, b in muts])
UNITS.append(ro1('__gmpz_cmp_ui', 'cmp_ui', 'mpir_ui v;', ', v', [(r'ul > v_digit', 'ul >= v_digit')]))
UNITS.append(ro1('__gmpz_cmp_si', 'cmp_si', 'mpir_si v;', ', v', [(r'return usize - vsize;', 'return vsize - usize;'), (r'vsize = -1;', 'vsize = 1;')]))
UNITS.append(ro1('__gmpz_cmpabs_ui', 'cmpabs_ui', 'mpir_ui v;', ', v', [(r'ul < v_digit', 'ul <= v_digit')]))
for t in ('ulong', 'uint', 'ushort', 'ui', 'slong', 'sint', 'sshort', 'si'):
    UNITS.append(ro1('__gmpz_fits_%s_p' % t, 'fits_%s' % t, muts=[(r'n == 1', 'n >= 1')] if t[0] == 'u' else [(r'limb <= -', 'limb < -')]))
UNITS.append(ro1('__gmpz_get_ui', 'get_ui', muts=[(r'__gmp_n != 0 \? __gmp_l : 0', '__gmp_l')]))
UNITS.append(dict(ro1('__gmpz_get_si', 'get_si', muts=[(r'size > 0', 'size >= 0')]),
                  # '(mpir_si) zl - 1L' is formally a signed overflow for zl == 0x8000...0 with size<0? no: zl-1 only underflows for LONG_MIN
                  ))
UNITS.append(ro1('__gmpz_get_ux', 'get_ux', muts=[(r'z->_mp_size \? z->_mp_d\[0\] : 0', 'z->_mp_d[0]')]))
UNITS.append(ro1('__gmpz_get_sx', 'get_sx'))
def set1(fn, src, T, muts=()):
    name = fn.replace('__gmpz_', 'mpz_')
    return dict(name=name, props=P + ['C05'], source='mpz/%s.c' % src, contracts=['mpz.h', 'c11.h'], enforce=[fn],
                harness='void h_%s (void) {\n%s  %s v;\n  %s (&Z, v);\n}' % (name, mpz_obj('Z'), T, fn),
                selftest=[(fn, a, b) for a, b in muts])
UNITS.append(set1('__gmpz_set_ui', 'set_ui', 'mpir_ui', [(r'size = val != 0', 'size = 1')]))
UNITS.append(set1('__gmpz_set_si', 'set_si', 'mpir_si', [(r'size = vl != 0', 'size = 1')]))
UNITS.append(set1('__gmpz_set_ux', 'set_ux', 'unsigned long'))
UNITS.append(set1('__gmpz_set_sx', 'set_sx', 'long'))

def cmp2(fn, src, nvar):
    name = fn.replace('__gmpz_', 'mpz_')
    return dict(name=name, props=P, source='mpz/%s.c' % src, contracts=['mpz.h', 'c11.h'], enforce=[fn],
                functions={fn: dict(loops={0: dict(
                    scalars=['__gmp_i', '__gmp_x', '__gmp_y', 'cmp'],
                    inv='(0 <= __gmp_i && __gmp_i <= %(n)s && cmp == 0 && ((__gmp_i <= gj && gj < %(n)s) ==> up[gj] == vp[gj]))' % {'n': nvar},
                    dec='__gmp_i', after='g_hd = __gmp_i;')})},
                harness='void h_%s (void) {\n%s%s  mpz_srcptr u = &U, v = &V; if (nondet_bool ()) v = u;\n  gj = nondet_long ();\n  %s (u, v);\n}' % (name, mpz_obj('U'), mpz_obj('V'), fn),
                selftest=[(fn, r'__gmp_x > __gmp_y \? 1 : -1', '__gmp_x > __gmp_y ? -1 : 1')])
UNITS.append(cmp2('__gmpz_cmp', 'cmp', 'asize'))
UNITS.append(cmp2('__gmpz_cmpabs', 'cmpabs', 'usize'))

# -LONG_MIN / (long)zl - 1: formally signed overflow, compiled by gcc to wrapping neg/sub; the contracts are proved under
# two's-complement wrap-around for these four units (signed-overflow check off), which is what the build executes.
for u in UNITS:
    if u['name'] in ('mpz_set_si', 'mpz_get_si', 'mpz_set_sx', 'mpz_cmp_si'):
        u['drop_checks'] = ['--signed-overflow-check']
        u['cbmc_flags'] = ['--no-signed-overflow-check']
        u['assumptions'] = [u['name'] + ': negation/decrement of the most negative long wraps (gcc semantics; formally signed overflow)']

# ------------------------------------------------------------------ __gmp_extract_double: every positive finite double, normal or subnormal (C11: "doubles compared exactly")
# d = m * 2^p with the integer m = 2^52 + M (normal, p = E - 1075) or m = M (subnormal, p = -1074) read off the IEEE-754 fields; the function must deliver
# {rp[1], rp[0]} * 2^(64 (e - 2)) == m * 2^p exactly, with a non-zero top limb.  Full domain (all 2^63 - 2^52 - 1 bit patterns); the subnormal normalisation loop runs
# at most 53 times and is unwound completely (unwinding assertions on).  mpz_set_d, mpz_cmp_d, mpq_set_d, mpf_set_d, mpf_cmp_d all start from this function.
UNITS.append(dict(
    name='extract_double', props=['C11', 'C04', 'C15'], source='extract-dbl.c', contracts=['mpn.h'],
    contract_text='''int __gmp_extract_double (mp_ptr rp, double d)
__CPROVER_requires (V_W_OK (rp, 2) && d > 0.0 && d <= 1.7976931348623157e308)
__CPROVER_assigns (__CPROVER_object_upto (rp, 16))
__CPROVER_ensures (rp[1] != 0);
''', enforce=['__gmp_extract_double'], unwind=66,
    functions={'__gmp_extract_double': dict(loops={0: 'unwind', 1: 'unwind'})},
    assumptions=['IEEE-754 binary64 layout of double as read through union ieee_double_extract (the build\'s own definition); d > 0 and finite (callers filter 0, NaN, Inf and take |d|)',
                 'the two loops (MPN_ZERO of 2 limbs; subnormal normalisation, at most 53 rounds) are unwound completely, unwinding assertions on'],
    harness='''void h_extract_double (void) {
  union ieee_double_extract x; mp_limb_t R[2];
  unsigned long M = nondet_ulong (); unsigned E = (unsigned) nondet_ulong ();
  __CPROVER_assume (M < (1UL << 52) && E <= 2046 && (E != 0 || M != 0));
  x.s.sig = 0; x.s.exp = E; x.s.manh = (unsigned) (M >> 32); x.s.manl = (unsigned) M;
  int e = __gmp_extract_double (R, x.d);
  unsigned long m = E ? ((1UL << 52) | M) : M;
  long p = E ? (long) E - 1075 : -1074;
  long t = p - 64 * ((long) e - 2);
  __CPROVER_assert (0 <= t && t <= 127, "[C11] extract_double: exponent e places the significand inside the two limbs");
  __CPROVER_assert (((V_u128) R[1] << 64 | R[0]) == ((V_u128) m << (t & 127)), "[C11] extract_double: {rp[1],rp[0]} * 2^(64(e-2)) == d exactly (normal and subnormal)");
}''', timeout=600,
    selftest=[('__gmp_extract_double', r'exp -= 1022;', 'exp -= 1023;'), ('__gmp_extract_double', r'exp = 1;\s*do', 'exp = 0; do'), ('__gmp_extract_double', r'\(\(mp_limb_t\) x\.s\.manl << 11\)', '((mp_limb_t) x.s.manl << 10)')]))

# ------------------------------------------------------------------ mpz_set_d: the truncated integer part of any finite double, on top of the proved __gmp_extract_double
# The harness calls the real __gmp_extract_double itself (same body, proved above to denote d exactly) to name the two significand limbs T and the limb exponent e;
# mpz_set_d must deliver sign(d) * trunc ({T[1],T[0]} * B^(e-2)): T[1] at limb e-1, T[0] at limb e-2 (dropped when e == 1), zeros below, 0 when e <= 0.
from c04_alloc import mpz_obj
from c03_mpz import store_loop
UNITS.append(dict(
    name='mpz_set_d', props=['C11', 'C04', 'C15'], source='mpz/set_d.c', extra_sources=['extract-dbl.c'], contracts=['mpn.h', 'mpz.h'],
    contract_text='''void __gmpz_set_d (mpz_ptr r, double d)
__CPROVER_requires (V_WF (r) && !__CPROVER_isnand (d) && !__CPROVER_isinfd (d) && V_GHOSTS_OK)
__CPROVER_assigns (*r, __CPROVER_object_whole (V_PTR (r)))
__CPROVER_frees (V_PTR (r))
__CPROVER_ensures (V_WF_AT (r, gk));
''', enforce=['__gmpz_set_d'], replace=['__gmpz_realloc'], unwind=66,
    functions={'__gmpz_set_d': dict(loops={0: store_loop('gk')})},
    assumptions=['d finite (NaN and infinities raise the invalid-operation trap: not modelled)', '__gmp_extract_double is taken with its real body (unwound completely); its own unit proves that its output denotes d exactly'],
    harness='''void h_mpz_set_d (void) {
%s  mpz_ptr r = &R;
  double d; __CPROVER_assume (!__CPROVER_isnand (d) && !__CPROVER_isinfd (d));
  gk = nondet_long (); gj = 0; gh = 0; __CPROVER_assume (0 <= gk && gk < V_ZMAX && V_WF (r));
  mp_limb_t T[2]; double ad = d < 0 ? -d : d;
  int e = __gmp_extract_double (T, ad);
  __gmpz_set_d (r, d);
  long rn = e > 0 ? e : 0, sw = V_SIZ (r);
  mp_limb_t Wk = V_PTR (r)[gk < V_ALLOC (r) ? gk : 0];
  __CPROVER_assert (sw == (d < 0 ? -rn : rn), "[C11] mpz_set_d: size = limb exponent of d (0 when |d| < 1), sign of d");
  __CPROVER_assert (gk < rn ==> Wk == (gk == rn - 1 ? T[1] : (gk == rn - 2 ? T[0] : 0)), "[C11] mpz_set_d: the significand limbs at the top, zeros below: trunc (d) exactly");
}''' % mpz_obj('R'), timeout=600,
    selftest=[('__gmpz_set_d', r'rp\[0\] = tp\[1\];', 'rp[0] = tp[0];'), ('__gmpz_set_d', r'negative \? -rn : rn', 'negative ? rn : rn'), ('__gmpz_set_d', r'\(\(r\)->_mp_alloc\) < rn', '((r)->_mp_alloc) < rn - 1')]))

# ------------------------------------------------------------------ mpz_cmp_d: sign of z - d, exactly, for every z and every double except NaN (infinities included)
# |d| >= 1 is T[1]*B^(e-1) + T[0]*B^(e-2) exactly (__gmp_extract_double, proved above; the harness calls the same real body).  So: more limbs than e <=> |z| > |d|; with n == e the limb
# strings are compared from the top: z[n-1] : T[1], z[n-2] : T[0], then any non-zero lower limb of z makes |z| larger; with n == 1 a non-zero T[0] is a fraction of d below z.
UNITS.append(dict(
    name='mpz_cmp_d', props=['C11', 'C04', 'C15'], source='mpz/cmp_d.c', extra_sources=['extract-dbl.c'], contracts=['mpn.h', 'mpz.h'],
    contract_text='''int __gmpz_cmp_d (mpz_srcptr z, double d)
__CPROVER_requires (V_WF (z) && !__CPROVER_isnand (d) && V_GHOSTS_OK)
__CPROVER_assigns (g_hd)
__CPROVER_ensures (1);
''', enforce=['__gmpz_cmp_d'], unwind=66,
    functions={'__gmpz_cmp_d': dict(
        inserts=[(r'if \(\(zp\)\[__i\] != 0\) return ret;', r'{ if ((zp)[__i] != 0) g_hd = __i; \g<0> }')],
        loops={0: dict(scalars=['__i', 'g_hd'], inv='(-1 <= __i && __i <= zsize - 3 && ((__i < gj && gj < zsize - 2) ==> zp[gj] == 0))', dec='__i + 1')})},
    assumptions=['d is not a NaN (NaN raises the invalid-operation trap: not modelled); infinities are included', '__gmp_extract_double is taken with its real body (unwound completely); its own unit proves that its output denotes d exactly',
                 'woven ghost statement: g_hd = index of the non-zero low limb that decided the answer (the inserted text keeps the original `if ... return ret;`)'],
    harness='''void h_mpz_cmp_d (void) {
%s  mpz_srcptr z = &Z;
  double d; __CPROVER_assume (!__CPROVER_isnand (d));
  gk = 0; gh = 0; gj = nondet_long (); g_hd = -1; __CPROVER_assume (0 <= gj && gj < V_ZMAX && V_WF (z));
  long sz = V_SIZ (z), n = V_ABS (sz);
  mp_limb_t T[2] = {0, 0}; double ad = d < 0 ? -d : d; int e = 0;
  if (!__CPROVER_isinfd (d) && ad >= 1.0) e = __gmp_extract_double (T, ad);
  mp_limb_t Z1 = n >= 1 ? V_PTR (z)[n - 1] : 0, Z2 = n >= 2 ? V_PTR (z)[n - 2] : 0, Zj = gj < n ? V_PTR (z)[gj] : 0;
  int c = __gmpz_cmp_d (z, d), s = (c > 0) - (c < 0), ret = sz > 0 ? 1 : -1;
  if (d == 0)                         __CPROVER_assert (s == (sz > 0) - (sz < 0), "[C11] mpz_cmp_d: d == 0: sign of z");
  else if (sz == 0)                   __CPROVER_assert (s == (d < 0 ? 1 : -1), "[C11] mpz_cmp_d: z == 0: opposite of the sign of d");
  else if ((sz > 0) != (d > 0))       __CPROVER_assert (s == ret, "[C11] mpz_cmp_d: opposite signs");
  else if (__CPROVER_isinfd (d))      __CPROVER_assert (s == -ret, "[C11] mpz_cmp_d: an infinity is beyond every integer");
  else if (ad < 1.0)                  __CPROVER_assert (s == ret, "[C11] mpz_cmp_d: |d| < 1 <= |z|");
  else if (n != e)                    __CPROVER_assert (s == (n > e ? ret : -ret), "[C11] mpz_cmp_d: different limb counts decide");
  else if (Z1 != T[1])                __CPROVER_assert (s == (Z1 > T[1] ? ret : -ret), "[C11] mpz_cmp_d: top limb decides");
  else if (n == 1)                    __CPROVER_assert (s == (T[0] != 0 ? -ret : 0), "[C11] mpz_cmp_d: one limb, equal: d is larger in magnitude exactly when it has a fraction");
  else if (Z2 != T[0])                __CPROVER_assert (s == (Z2 > T[0] ? ret : -ret), "[C11] mpz_cmp_d: second limb decides");
  else
    {
      __CPROVER_assert (s == 0 || s == ret, "[C11] mpz_cmp_d: both significand limbs equal: |z| >= |d|");
      __CPROVER_assert ((s == 0 && gj < n - 2) ==> Zj == 0, "[C11] mpz_cmp_d: equal only if every lower limb of z is zero (at ghost gj)");
      __CPROVER_assert (s == ret ==> (0 <= g_hd && g_hd < n - 2 && V_PTR (z)[g_hd] != 0), "[C11] mpz_cmp_d: larger only with a non-zero lower limb (ghost witness)");
    }
}''' % mpz_obj('Z'), timeout=600,
    selftest=[('__gmpz_cmp_d', r'return \(darray\[0\] != 0 \? -ret : 0\);', 'return 0;'), ('__gmpz_cmp_d', r'if \(d < 1\.0\)', 'if (d <= 1.0)'), ('__gmpz_cmp_d', r'\(zsize-2\)-1', '(zsize-2)-2')]))

# ------------------------------------------------------------------ mpz_cmpabs_d: sign of |z| - |d| (same structure, signs ignored; an infinity is larger than every |z|)
_cd = UNITS[-1]
_h = _cd['harness'].replace('h_mpz_cmp_d', 'h_mpz_cmpabs_d').replace('__gmpz_cmp_d (z, d)', '__gmpz_cmpabs_d (z, d)').replace('ret = sz > 0 ? 1 : -1;', 'ret = 1;')
_h = _h.replace('''  if (d == 0)                         __CPROVER_assert (s == (sz > 0) - (sz < 0), "[C11] mpz_cmp_d: d == 0: sign of z");
  else if (sz == 0)                   __CPROVER_assert (s == (d < 0 ? 1 : -1), "[C11] mpz_cmp_d: z == 0: opposite of the sign of d");
  else if ((sz > 0) != (d > 0))       __CPROVER_assert (s == ret, "[C11] mpz_cmp_d: opposite signs");
''', '''  if (d == 0)                         __CPROVER_assert (s == (sz != 0), "[C11] mpz_cmpabs_d: d == 0: |z| > 0 unless z == 0");
  else if (sz == 0)                   __CPROVER_assert (s == -1, "[C11] mpz_cmpabs_d: z == 0 < |d|");
''').replace('mpz_cmp_d:', 'mpz_cmpabs_d:')
assert 'opposite signs' not in _h and '__gmpz_cmpabs_d' in _h
UNITS.append(dict(_cd, name='mpz_cmpabs_d', source='mpz/cmpabs_d.c', contract_text=_cd['contract_text'].replace('__gmpz_cmp_d', '__gmpz_cmpabs_d'), enforce=['__gmpz_cmpabs_d'],
                  functions={'__gmpz_cmpabs_d': dict(inserts=[(r'if \(\(zp\)\[__i\] != 0\) return 1;', r'{ if ((zp)[__i] != 0) g_hd = __i; \g<0> }')], loops=_cd['functions']['__gmpz_cmp_d']['loops'])},
                  harness=_h, replay='mpz_cmpabs_d',
                  selftest=[('__gmpz_cmpabs_d', r'return \(darray\[0\] != 0 \? -1 : 0\);', 'return 0;'), ('__gmpz_cmpabs_d', r'if \(d < 1\.0\)', 'if (d <= 1.0)')]))
