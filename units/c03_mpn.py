"""C03 mpn kernels: L-proofs (DESIGN 6 C03 core)."""
UNITS = []

# ------------------------------------------------------------------ harness helpers
def mpn_harness(name, call, decl_extra='', ptrs=('rp', 'up', 'vp'), alias='same_or_separate'):
    """three (or fewer) limb buffers of n limbs, every permitted identification of them"""
    s = ['void h_%s (void) {' % name,
         '  mp_size_t n = nondet_long (); __CPROVER_assume (1 <= n && n <= V_NMAX);',
         '  gk = nondet_long (); gj = nondet_long ();']
    for p in ptrs:
        s.append('  mp_limb_t *B_%s = malloc (n * 8);' % p)
        s.append('  mp_limb_t *%s = B_%s;' % (p, p))
    # aliasing: any later pointer may be identified with any earlier one
    for i, p in enumerate(ptrs):
        for q in ptrs[:i]:
            s.append('  if (nondet_bool ()) %s = %s;' % (p, q))
    s.append(decl_extra)
    s.append('  ' + call)
    s.append('}')
    return '\n'.join(s)

# ------------------------------------------------------------------ mpn_add_n / mpn_sub_n
def aors_n(op):
    rel = 'V_ADDREL' if op == 'add' else 'V_SUBREL'
    f = '__gmpn_%s_n' % op
    inv = '''(1 <= n && n <= V_n0 && up == V_up0 + (V_n0 - n) && vp == V_vp0 + (V_n0 - n) && rp == V_rp0 + (V_n0 - n)
      && cy <= 1 && (n == V_n0 ==> cy == 0)
      && (gk >= V_n0 - n ==> (V_up0[gk] == V_u && V_vp0[gk] == V_v))
      && (gk < V_n0 - n ==> (g_ci <= 1 && REL (V_rp0[gk], V_u, V_v, g_ci, (gk == V_n0 - n - 1 ? cy : g_co))))
      && (gk < V_n0 - n - 1 ==> g_co <= 1)
      && ((gk == 0 && gk < V_n0 - n) ==> g_ci == 0))'''.replace('REL', rel)
    return dict(
        name='mpn_%s_n' % op, props=['C03', 'C05', 'C04', 'C15'],
        source='mpn/generic/%s_n.c' % op, contracts=['mpn.h'],
        enforce=[f],
        functions={f: dict(
            entry='mp_size_t V_n0 = n; mp_ptr V_rp0 = rp; mp_srcptr V_up0 = up, V_vp0 = vp; mp_limb_t V_u = up[gk], V_v = vp[gk];',
            loops={0: dict(
                scalars=['ul', 'vl', 'sl', 'rl', 'cy', 'cy1', 'cy2', 'n', 'g_ci', 'g_co'],
                havoc_targets=['up', 'vp', 'rp'],
                havoc='{ long V_d = nondet_long (); __CPROVER_assume (0 <= V_d && V_d < V_n0); up = V_up0 + V_d; vp = V_vp0 + V_d; rp = V_rp0 + V_d; }',
                slices=[('V_rp0', 'V_n0 * 8')],
                inv=inv, dec='n',
                begin='if (V_n0 - n == gk) g_ci = cy; if (V_n0 - n == gk + 1) g_co = cy;',
                after='if (gk == V_n0 - 1) g_co = cy;',
            )})},
        harness=mpn_harness('mpn_%s_n' % op, '%s (rp, up, vp, n);' % f),
        selftest=[(f, r'cy = cy1 \| cy2', 'cy = cy1 & cy2'),
                  (f, r'cy2 = rl < sl' if op == 'add' else r'cy2 = rl > sl', 'cy2 = rl <= sl' if op == 'add' else 'cy2 = rl >= sl')],
    )

UNITS.append(aors_n('add'))
