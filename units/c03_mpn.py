"""C03 mpn kernels: L-proofs (DESIGN 6 C03 core)."""
UNITS = []

# ------------------------------------------------------------------ harness helpers
def mpn_harness(name, call, decl_extra='', ptrs=('rp', 'up', 'vp'), alias='same_or_separate'):
    """three (or fewer) limb buffers of n limbs, every permitted identification of them"""
    s = ['void h_%s (void) {' % name,
         '  mp_size_t n = nondet_long (); __CPROVER_assume (1 <= n && n <= V_NMAX);',
         '  gk = nondet_long (); gj = nondet_long ();']
    for p in ptrs:
        s.append('  mp_limb_t *B_%s = malloc (n * 8);' % p)
        s.append('  mp_limb_t *%s = B_%s;' % (p, p))
    # aliasing: any later pointer may be identified with any earlier one
    for i, p in enumerate(ptrs):
        for q in ptrs[:i]:
            s.append('  if (nondet_bool ()) %s = %s;' % (p, q))
    s.append(decl_extra)
    s.append('  ' + call)
    s.append('}')
    return '\n'.join(s)

def with_overlap(u, fname, call_args, lower, upper, extra_decl=''):
    """second unit '<name>_ovl': the two buffers are one block, `lower` starts at its base and `upper`
    `off` limbs above (0 <= off <= n): every partial overlap in the direction the manual permits."""
    v = dict(u)
    v['name'] = u['name'] + '_ovl'
    v['harness'] = """void h_%s (void) {
  mp_size_t n = nondet_long (); __CPROVER_assume (1 <= n && n <= V_NMAX);
  gk = nondet_long (); gj = nondet_long ();
  mp_size_t off = nondet_long (); __CPROVER_assume (0 <= off && off <= n);
  mp_limb_t *big = malloc ((n + off) * 8); __CPROVER_assume (big != (void *) 0);
  mp_limb_t *%s = big, *%s = big + off;
  %s
  %s (%s);
}""" % (v['name'], lower, upper, extra_decl, fname, call_args)
    v['selftest'] = []
    return [u, v]

# ------------------------------------------------------------------ mpn_add_n / mpn_sub_n
def aors_n(op):
    rel = 'V_ADDREL' if op == 'add' else 'V_SUBREL'
    f = '__gmpn_%s_n' % op
    inv = '''(1 <= n && n <= V_n0 && up == V_up0 + (V_n0 - n) && vp == V_vp0 + (V_n0 - n) && rp == V_rp0 + (V_n0 - n)
      && cy <= 1 && (n == V_n0 ==> cy == 0)
      && ((gk >= V_n0 - n && gk < V_n0) ==> (V_up0[gk] == V_u && V_vp0[gk] == V_v))
      && (gk < V_n0 - n ==> (g_ci <= 1 && REL (V_rp0[gk], V_u, V_v, g_ci, (gk == V_n0 - n - 1 ? cy : g_co))))
      && (gk < V_n0 - n - 1 ==> g_co <= 1)
      && ((gk == 0 && gk < V_n0 - n) ==> g_ci == 0))'''.replace('REL', rel)
    return dict(
        name='mpn_%s_n' % op, props=['C03', 'C05', 'C04', 'C15'],
        source='mpn/generic/%s_n.c' % op, contracts=['mpn.h'],
        enforce=[f],
        functions={f: dict(
            entry='mp_size_t V_n0 = n; mp_ptr V_rp0 = rp; mp_srcptr V_up0 = up, V_vp0 = vp; mp_limb_t V_u = gk < n ? up[gk] : 0, V_v = gk < n ? vp[gk] : 0;',
            loops={0: dict(
                scalars=['ul', 'vl', 'sl', 'rl', 'cy', 'cy1', 'cy2', 'n', 'g_ci', 'g_co'],
                havoc_targets=['up', 'vp', 'rp'],
                havoc='{ long V_d = nondet_long (); __CPROVER_assume (0 <= V_d && V_d < V_n0); up = V_up0 + V_d; vp = V_vp0 + V_d; rp = V_rp0 + V_d; }', havoc_inv={'V_d': '(up - V_up0)'},
                slices=[('V_rp0', 'V_n0 * 8')],
                inv=inv, dec='n',
                begin='if (V_n0 - n == gk) g_ci = cy; if (V_n0 - n == gk + 1) g_co = cy;',
                after='if (gk == V_n0 - 1) g_co = cy;',
            )})},
        harness=mpn_harness('mpn_%s_n' % op, '%s (rp, up, vp, n);' % f),
        selftest=[(f, r'cy = cy1 \| cy2', 'cy = cy1 & cy2'),
                  (f, r'cy2 = rl < sl' if op == 'add' else r'cy2 = rl > sl', 'cy2 = rl <= sl' if op == 'add' else 'cy2 = rl >= sl')],
    )

UNITS.append(aors_n('add'))
UNITS.append(aors_n('sub'))

# ------------------------------------------------------------------ reusable cut of the expanded MPN_COPY_INCR / MPN_COPY_DECR loop
def copy_loop(K, direction='incr', tag=''):
    """loop of MPN_COPY_INCR/DECR after macro expansion (locals __n, __dst, __src, __x).
    K: ghost position relative to the copy's dst/src base, or a list of such positions; total length is V_cn+1.
    After the cut + the macro's final store: each K in [0,V_cn] ==> dst[K] == value src[K] had before the copy."""
    Ks = K if isinstance(K, (list, tuple)) else [K]
    snap = 'mp_size_t V_cn = __n; mp_ptr V_cd = BASED; mp_srcptr V_cs = BASES; '
    invs = []
    for t, k in enumerate(Ks):
        snap += 'long V_cK%d = (%s); mp_limb_t V_cS%d = (0 <= V_cK%d && V_cK%d <= V_cn) ? V_cs[V_cK%d] : 0; ' % (t, k, t, t, t, t)
        if direction == 'incr':
            invs.append('((0 <= V_cK%(t)d && V_cK%(t)d <= V_cn) ==> ((V_cK%(t)d > V_cn - __n ==> V_cs[V_cK%(t)d] == V_cS%(t)d) && (V_cK%(t)d == V_cn - __n ==> __x == V_cS%(t)d) && (V_cK%(t)d < V_cn - __n ==> V_cd[V_cK%(t)d] == V_cS%(t)d)))' % {'t': t})
        else:
            invs.append('((0 <= V_cK%(t)d && V_cK%(t)d <= V_cn) ==> ((V_cK%(t)d < __n ==> V_cs[V_cK%(t)d] == V_cS%(t)d) && (V_cK%(t)d == __n ==> __x == V_cS%(t)d) && (V_cK%(t)d > __n ==> V_cd[V_cK%(t)d] == V_cS%(t)d)))' % {'t': t})
    if direction == 'incr':
        snap = snap.replace('BASED', '__dst').replace('BASES', '__src - 1')
        inv = '(1 <= __n && __n <= V_cn && __dst == V_cd + (V_cn - __n) && __src == V_cs + (V_cn - __n) + 1 && ' + ' && '.join(invs) + ')'
        hv = '{ long V_d = nondet_long (); __CPROVER_assume (0 <= V_d && V_d < V_cn); __n = V_cn - V_d; __dst = V_cd + V_d; __src = V_cs + V_d + 1; }'
    else:
        snap = snap.replace('BASED', '__dst - __n').replace('BASES', '__src + 1 - __n')
        inv = '(1 <= __n && __n <= V_cn && __dst == V_cd + __n && __src == V_cs + __n - 1 && ' + ' && '.join(invs) + ')'
        hv = '{ long V_d = nondet_long (); __CPROVER_assume (1 <= V_d && V_d <= V_cn); __n = V_d; __dst = V_cd + V_d; __src = V_cs + V_d - 1; }'
    return dict(snap=snap, inv=inv, dec='__n', havoc=hv, havoc_inv={'V_d': '(V_cn - __n)' if direction == 'incr' else '__n'},
                scalars=['__x'], havoc_targets=['__n', '__dst', '__src'],
                slices=[('V_cd', '(V_cn + 1) * 8')])

for d, f in (('incr', 'copyi'), ('decr', 'copyd')):
    UNITS.extend(with_overlap(dict(
        name='mpn_' + f, props=['C03', 'C05', 'C04', 'C15'], source='mpn/generic/%s.c' % f, contracts=['mpn.h'],
        enforce=['__gmpn_' + f],
        functions={'__gmpn_' + f: dict(loops={0: copy_loop('gk', d)})},
        harness=mpn_harness('mpn_' + f, '__gmpn_%s (rp, sp, n);' % f, ptrs=('rp', 'sp')),
        selftest=[('__gmpn_' + f, r'while \(--__n\)', 'while (--__n > 1)')],
    ), '__gmpn_' + f, 'rp, sp, n', *(('rp', 'sp') if d == 'incr' else ('sp', 'rp'))))

UNITS.append(dict(
    name='mpn_zero', props=['C03', 'C04', 'C15'], source='mpn/generic/zero.c', contracts=['mpn.h'],
    enforce=['__gmpn_zero'],
    functions={'__gmpn_zero': dict(
        entry='mp_size_t V_n0 = n; mp_ptr V_rp0 = rp;',
        loops={0: dict(scalars=['i'], slices=[('V_rp0', 'V_n0 * 8')],
                       inv='(rp == V_rp0 + V_n0 && n == V_n0 && -V_n0 <= i && i <= 0 && (gk < V_n0 + i ==> V_rp0[gk] == 0))', dec='-i')})},
    harness=mpn_harness('mpn_zero', '__gmpn_zero (rp, n);', ptrs=('rp',)),
    selftest=[('__gmpn_zero', r'i = -n', 'i = -n + 1')],
))

UNITS.append(dict(
    name='mpn_com_n', props=['C03', 'C10', 'C05', 'C04', 'C15'], source='mpn/generic/com_n.c', contracts=['mpn.h'],
    enforce=['__gmpn_com_n'],
    functions={'__gmpn_com_n': dict(
        entry='mp_size_t V_n0 = n; mp_ptr V_rp0 = rp; mp_srcptr V_up0 = up; mp_limb_t V_u = up[gkc]; long gk = gkc;',
        loops={0: dict(scalars=['ul', 'n'], havoc_targets=['up', 'rp'],
                       havoc='{ long V_d = nondet_long (); __CPROVER_assume (0 <= V_d && V_d < V_n0); up = V_up0 + V_d; rp = V_rp0 + V_d; }', havoc_inv={'V_d': '(up - V_up0)'},
                       slices=[('V_rp0', 'V_n0 * 8')],
                       inv='''(1 <= n && n <= V_n0 && up == V_up0 + (V_n0 - n) && rp == V_rp0 + (V_n0 - n)
                           && (gk >= V_n0 - n ==> V_up0[gk] == V_u) && (gk < V_n0 - n ==> V_rp0[gk] == ~V_u))''', dec='n')})},
    harness=mpn_harness('mpn_com_n', 'gkc = nondet_long (); __gmpn_com_n (rp, up, n);', ptrs=('rp', 'up')),
    selftest=[('__gmpn_com_n', r'~ul', 'ul')],
))

# ------------------------------------------------------------------ shifts
UNITS.extend(with_overlap(dict(
    name='mpn_lshift', props=['C03', 'C05', 'C04', 'C15'], source='mpn/generic/lshift.c', contracts=['mpn.h'],
    enforce=['__gmpn_lshift'],
    functions={'__gmpn_lshift': dict(
        entry='mp_size_t V_n0 = n; mp_ptr V_rp0 = rp; mp_srcptr V_up0 = up; mp_limb_t V_u = up[gk], V_ul = up[gk - (gk > 0)];',
        # at loop head: i limbs (indices 0..i-1) still to read; low_limb == old up[i]; rp/up point at index i+1 / i
        loops={0: dict(scalars=['i', 'low_limb', 'high_limb'], havoc_targets=['up', 'rp'],
                       havoc='{ __CPROVER_assume (0 <= i && i <= V_n0 - 1); up = V_up0 + i; rp = V_rp0 + i + 1; }',
                       slices=[('V_rp0', 'V_n0 * 8')],
                       inv='''(0 <= i && i <= V_n0 - 1 && up == V_up0 + i && rp == V_rp0 + i + 1 && tnc == 64 - cnt && 1 <= cnt && cnt <= 63 && n == V_n0
                           && (gk < i ==> V_up0[gk] == V_u) && (0 < gk && gk <= i ==> V_up0[gk - 1] == V_ul)
                           && (gk == i ==> high_limb == (V_u << cnt))
                           && (gk > i ==> V_rp0[gk] == ((V_u << cnt) | (V_ul >> (64 - cnt)))))''', dec='i')})},
    harness=mpn_harness('mpn_lshift', 'unsigned cnt; __gmpn_lshift (rp, up, n, cnt);', ptrs=('rp', 'up')),
    selftest=[('__gmpn_lshift', r'retval = low_limb >> tnc', 'retval = low_limb >> cnt'),
              ('__gmpn_lshift', r'i != 0', 'i > 1')],
), '__gmpn_lshift', 'rp, up, n, cnt', 'up', 'rp', 'unsigned cnt;'))
UNITS.extend(with_overlap(dict(
    name='mpn_rshift', props=['C03', 'C05', 'C04', 'C15'], source='mpn/generic/rshift.c', contracts=['mpn.h'],
    enforce=['__gmpn_rshift'],
    functions={'__gmpn_rshift': dict(
        entry='mp_size_t V_n0 = n; mp_ptr V_rp0 = rp; mp_srcptr V_up0 = up; mp_limb_t V_u = up[gk], V_uh = up[gk + (gk < n - 1)], V_ut = up[n - 1];',
        # at loop head: j = n-1-i limbs written; low_limb == old up[j] >> cnt; up at j+1, rp at j
        loops={0: dict(scalars=['i', 'low_limb', 'high_limb'], havoc_targets=['up', 'rp'],
                       havoc='{ __CPROVER_assume (0 <= i && i <= V_n0 - 1); up = V_up0 + (V_n0 - i); rp = V_rp0 + (V_n0 - 1 - i); }',
                       slices=[('V_rp0', 'V_n0 * 8')],
                       inv='''(0 <= i && i <= V_n0 - 1 && up == V_up0 + (V_n0 - i) && rp == V_rp0 + (V_n0 - 1 - i) && tnc == 64 - cnt && 1 <= cnt && cnt <= 63 && n == V_n0
                           && (gk > V_n0 - 1 - i ==> V_up0[gk] == V_u) && (gk < V_n0 - 1 && gk >= V_n0 - 1 - i ==> V_up0[gk + 1] == V_uh)
                           && (i > 0 ==> V_up0[V_n0 - 1] == V_ut) && (i == 0 ==> low_limb == (V_ut >> cnt))
                           && (gk == V_n0 - 1 - i ==> low_limb == (V_u >> cnt))
                           && (gk < V_n0 - 1 - i ==> V_rp0[gk] == ((V_u >> cnt) | (V_uh << (64 - cnt)))))''', dec='i')})},
    harness=mpn_harness('mpn_rshift', 'unsigned cnt; __gmpn_rshift (rp, up, n, cnt);', ptrs=('rp', 'up')),
    selftest=[('__gmpn_rshift', r'low_limb = high_limb >> cnt;\s*for', 'low_limb = high_limb >> tnc; for')],
), '__gmpn_rshift', 'rp, up, n, cnt', 'rp', 'up', 'unsigned cnt;'))

# ------------------------------------------------------------------ cmp, zero_p
UNITS.append(dict(
    name='mpn_cmp', props=['C03', 'C11', 'C04', 'C15'], source='mpn/generic/cmp.c', contracts=['mpn.h'],
    enforce=['__gmpn_cmp'],
    functions={'__gmpn_cmp': dict(
        loops={0: dict(scalars=['__gmp_i', '__gmp_x', '__gmp_y', '__gmp_result'],
                       inv='''(0 <= __gmp_i && __gmp_i <= __gmp_size && __gmp_result == 0
                            && ((__gmp_i <= gj && gj < __gmp_size) ==> __gmp_xp[gj] == __gmp_yp[gj]))''',
                       dec='__gmp_i', after='g_hd = __gmp_i;')})},
    harness=mpn_harness('mpn_cmp', 'mp_size_t m = nondet_long (); __CPROVER_assume (0 <= m && m <= n); __gmpn_cmp (xp, yp, m);', ptrs=('xp', 'yp')),
    selftest=[('__gmpn_cmp', r'__gmp_x > __gmp_y \? 1 : -1', '__gmp_x > __gmp_y ? -1 : 1'),
              ('__gmpn_cmp', r'--__gmp_i >= 0', '--__gmp_i > 0')],
))
UNITS.append(dict(
    name='mpn_zero_p', props=['C03', 'C04', 'C15'], source='mpn/generic/zero_p.c', contracts=['mpn.h'],
    enforce=['__gmpn_zero_p'],
    functions={'__gmpn_zero_p': dict(
        entry='mp_size_t V_n0 = __gmp_n;',
        inserts=[(r'return 0;', r'{ g_hd = __gmp_n; \g<0> }')],
        loops={0: dict(scalars=['__gmp_n', 'g_hd'],
                       inv='''(1 <= __gmp_n && __gmp_n <= V_n0 && ((__gmp_n <= gj && gj < V_n0) ==> __gmp_p[gj] == 0))''',
                       dec='__gmp_n')})},
    harness=mpn_harness('mpn_zero_p', '__gmpn_zero_p (p, n);', ptrs=('p',)),
    selftest=[('__gmpn_zero_p', r'__gmp_n != 0', '__gmp_n > 1')],
))

# ------------------------------------------------------------------ add_1 / sub_1 (the inline bodies of mpir.h, forced out of line by mpn/generic/add_1.c)
def aors_1(op):
    """two ghost positions: gk (carries g_ci,g_co) and gj (carries g2_ci,g2_co; only when 0 <= gj < n), linked by
    gj == gk+1 ==> g2_ci == g_co.  Callers that must relate two ADJACENT limbs (mpz_sub_ui: 'size can decrease by at most one
    limb') choose gj = gk + 1."""
    rel = 'V_ADDREL' if op == 'add' else 'V_SUBREL'
    f = '__gmpn_%s_1' % op
    REL = lambda r, u, v, ci, co: '%s (%s, %s, %s, %s, %s)' % (rel, r, u, v, ci, co)
    P = [dict(K='gk', CI='g_ci', CO='g_co', VU='V_u', VR='V_r', G='(gk < __gmp_size)'),
         dict(K='gj', CI='g2_ci', CO='g2_co', VU='V_uj', VR='V_rj', G='(gj < __gmp_size)')]
    def prop(p):
        t = ("(%(G)s ==> ((%(K)s >= __gmp_i ==> __gmp_src[%(K)s] == %(VU)s) "
             "&& (%(K)s < __gmp_i ==> (%(CI)s <= 1 && (%(K)s == 0) == (%(CI)s == 0) && "
             + REL('__gmp_dst[%(K)s]', '%(VU)s', '(%(K)s == 0 ? __gmp_n : 0)', '%(CI)s', '1') + " && %(CO)s == 1))))")
        return t % p
    prop_inv = '(1 <= __gmp_i && __gmp_i <= __gmp_size && __gmp_c == 1 && ' + ' && '.join(prop(p) for p in P) + ')'
    def cpy(p, start):
        t = ("(%(G)s ==> (((START <= %(K)s && %(K)s < __gmp_j) ==> __gmp_dst[%(K)s] == %(VU)s) && (%(K)s >= __gmp_j ==> __gmp_src[%(K)s] == %(VU)s) "
             "&& (%(K)s < START ==> __gmp_dst[%(K)s] == %(VR)s)))")
        return t.replace('START', start) % p
    copy_inv = lambda start: '(%s <= __gmp_j && __gmp_j <= __gmp_size && __gmp_src != __gmp_dst && ' % start + ' && '.join(cpy(p, start) for p in P) + ')'
    cb0 = '(__gmp_r < __gmp_n)' if op == 'add' else '(__gmp_x < __gmp_n)'
    cb1 = '(__gmp_r < 1)' if op == 'add' else '(__gmp_x < 1)'
    both = lambda t: ' '.join(t % p for p in P)
    return dict(
        name='mpn_%s_1' % op, props=['C03', 'C05', 'C04', 'C15'], source='mpn/generic/%s_1.c' % op, contracts=['mpn.h'],
        enforce=[f],
        functions={f: dict(
            entry='mp_limb_t V_u = gk < __gmp_size ? __gmp_src[gk] : 0, V_uj = gj < __gmp_size ? __gmp_src[gj] : 0; mp_limb_t V_r, V_rj; g_ci = 0; g_co = 0; g2_ci = 0; g2_co = 0;',
            inserts=[
                (r'if \(\(\(__gmp_r\) < \(\(__gmp_n\)\)\)\)' if op == 'add' else r'if \(\(\(__gmp_x\) < \(\(__gmp_n\)\)\)\)',
                 both('if (%%(K)s == 0) %%(CO)s = %s;' % cb0) + r' \g<0>'),
                (r'if \(!\(\(__gmp_r\) < \(1\)\)\)' if op == 'add' else r'if \(!\(\(__gmp_x\) < \(1\)\)\)',
                 both('if (__gmp_i - 1 == %%(K)s) %%(CO)s = %s;' % cb1) + r' \g<0>'),
                (r'\(__gmp_c\) = 0; break;', both('if (%(K)s >= __gmp_i) { %(CI)s = 0; %(CO)s = 0; }') + r' \g<0>'),
            ],
            loops={
                0: dict(scalars=['__gmp_i', '__gmp_x', '__gmp_r', '__gmp_c', 'g_ci', 'g_co', 'g2_ci', 'g2_co', 'V_r', 'V_rj'],
                        slices=[('__gmp_dst', '__gmp_size * 8')],
                        inv=prop_inv, dec='__gmp_size - __gmp_i',
                        begin=both('if (__gmp_i == %(K)s) %(CI)s = 1;'),
                        local_to_body=['__gmp_j', 'V_s1']),
                1: dict(scalars=['__gmp_j'], slices=[('__gmp_dst', '__gmp_size * 8')],
                        snap='V_r = __gmp_dst[gk < __gmp_i ? gk : 0]; V_rj = __gmp_dst[gj < __gmp_i ? gj : 0]; long V_s1 = __gmp_i;',
                        inv=copy_inv('V_s1'), dec='__gmp_size - __gmp_j'),
                2: dict(scalars=['__gmp_j'], slices=[('__gmp_dst', '__gmp_size * 8')],
                        snap='V_r = __gmp_dst[0]; V_rj = __gmp_dst[0];',
                        inv=copy_inv('1'), dec='__gmp_size - __gmp_j'),
            })},
        harness=mpn_harness('mpn_%s_1' % op, 'mp_limb_t v; %s (rp, up, n, v);' % f, ptrs=('rp', 'up')),
        selftest=[(f, r'__gmp_i < \(__gmp_size\)', '__gmp_i < (__gmp_size) - 1')],
    )
UNITS.append(aors_1('add'))
UNITS.append(aors_1('sub'))

# ------------------------------------------------------------------ mpn_add / mpn_sub (mpir.h __GMPN_AORS, forced out of line by mpn/generic/add.c)
def aors(op):
    rel = 'V_ADDREL' if op == 'add' else 'V_SUBREL'
    f = '__gmpn_' + op
    W, X, Y, XN, YN, I = '__gmp_wp', '__gmp_xp', '__gmp_yp', '__gmp_xsize', '__gmp_ysize', '__gmp_i'
    low = '''((gk < YN) ==> (g_ci <= 1 && g_co <= 1 && REL (W[gk], V_x, V_y, g_ci, g_co) && (gk == 0 ==> g_ci == 0) && (gk == YN - 1 ==> g_co == 1)))'''
    prop_inv = ('''(1 <= YN && YN <= I && I <= XN && ''' + low + '''
        && ((YN <= gk && gk < I) ==> (g_ci == 1 && REL (W[gk], V_x, 0, 1, 1))) && ((YN <= gk && gk < I - 1) ==> g_co == 1)
        && ((gk >= I && gk < XN) ==> X[gk] == V_x))''')
    copy_inv = '''(V_s1 <= __gmp_j && __gmp_j <= XN && W != X
        && ((V_s1 <= gk && gk < __gmp_j) ==> W[gk] == V_x) && ((gk >= __gmp_j && gk < XN) ==> X[gk] == V_x)
        && (gk < V_s1 ==> W[gk] == V_r))'''
    def sub(t):
        for a, b in (('REL', rel), ('XN', XN), ('YN', YN), ('W', W), ('X', X), ('Y', Y), ('I', I)):
            t = re.sub(r'\b%s\b' % a, b, t)
        return t
    return dict(
        name='mpn_' + op, props=['C03', 'C05', 'C04', 'C15'], source='mpn/generic/%s.c' % op, contracts=['mpn.h'],
        enforce=[f], replace=['__gmpn_%s_n' % op],
        functions={f: dict(
            entry=sub('mp_limb_t V_x = gk < XN ? X[gk] : 0, V_y = gk < YN ? Y[gk] : 0, V_r = 0; g_ci = 0; g_co = 0;'),
            inserts=[(r'if \(\(__gmp_wp\) != \(__gmp_xp\)\)', sub(r'if (gk >= I) { g_ci = 0; g_co = 0; } \g<0>'))],
            loops={
                0: dict(scalars=[I, '__gmp_x', 'g_ci', 'g_co'], slices=[(W, XN + ' * 8')],
                        inv=sub(prop_inv), dec=sub('XN - I + 1'),
                        begin=sub('if (I == gk) g_ci = 1; if (I == gk + 1) g_co = 1;'),
                        after=sub('if (gk == I - 1) g_co = 0;')),
                1: dict(scalars=['__gmp_j'], slices=[(W, XN + ' * 8')],
                        snap=sub('long V_s1 = I; V_r = (gk < I) ? W[gk] : 0;'),
                        inv=sub(copy_inv), dec=sub('XN - __gmp_j')),
            })},
        harness='''void h_mpn_%s (void) {
  mp_size_t xn = nondet_long (), yn = nondet_long (); __CPROVER_assume (0 <= yn && yn <= xn && xn <= V_NMAX);
  gk = nondet_long ();
  mp_limb_t *B_w = malloc (xn * 8), *B_x = malloc (xn * 8), *B_y = malloc (yn * 8);
  mp_limb_t *wp = B_w, *xp = B_x, *yp = B_y;
  if (nondet_bool ()) xp = wp;
  if (nondet_bool ()) yp = wp;
  if (nondet_bool ()) yp = xp;
  %s (wp, xp, xn, yp, yn);
}''' % (op, f),
        selftest=[(f, r'__gmp_i >= \(__gmp_xsize\)', '__gmp_i > (__gmp_xsize)'),
                  (f, r'__gmp_x \+ 1' if op == 'add' else r'__gmp_x - 1', '__gmp_x')],
    )
import re
UNITS.append(aors('add'))
UNITS.append(aors('sub'))

# ------------------------------------------------------------------ mpn_neg_n (mpir.h inline, forced out of line by mpn/generic/neg_n.c)
UNITS.append(dict(
    name='mpn_neg_n', props=['C03', 'C05', 'C04', 'C15'], source='mpn/generic/neg_n.c', contracts=['mpn.h'],
    enforce=['__gmpn_neg_n'], replace=['__gmpn_com_n'],
    # '- *(mp_limb_signed_t*)up' is signed negation: for the limb 0x8000...0 that is formally a signed overflow;
    # gcc compiles it to a wrapping 'neg'.  Not one of the listed properties; the check is switched off for this unit only.
    drop_checks=['--signed-overflow-check'], cbmc_flags=['--no-signed-overflow-check'],
    assumptions=['mpn_neg_n: signed negation of a limb wraps (gcc semantics)'],
    functions={'__gmpn_neg_n': dict(
        entry='mp_size_t V_n0 = __gmp_n; mp_ptr V_rp0 = __gmp_rp; mp_srcptr V_up0 = __gmp_up; mp_limb_t V_u = __gmp_up[gk]; g_ci = 0; g_co = 0;',
        inserts=[(r'__gmpn_com_n \(', r'gkc = (gk >= V_n0 - __gmp_n ? gk - (V_n0 - __gmp_n) : 0), \g<0>')],
        loops={0: dict(scalars=['__gmp_n', 'g_ci', 'g_co'], havoc_targets=['__gmp_up', '__gmp_rp'],
                       havoc='{ __CPROVER_assume (1 <= __gmp_n && __gmp_n <= V_n0); __gmp_up = V_up0 + (V_n0 - __gmp_n); __gmp_rp = V_rp0 + (V_n0 - __gmp_n); }',
                       slices=[('V_rp0', 'V_n0 * 8')],
                       inv='''(1 <= __gmp_n && __gmp_n <= V_n0 && __gmp_up == V_up0 + (V_n0 - __gmp_n) && __gmp_rp == V_rp0 + (V_n0 - __gmp_n)
                           && (gk >= V_n0 - __gmp_n ==> V_up0[gk] == V_u)
                           && (gk < V_n0 - __gmp_n ==> (V_u == 0 && V_rp0[gk] == 0 && g_ci == 0 && g_co == 0)))''',
                       dec='__gmp_n',
                       begin='if (V_n0 - __gmp_n == gk) { g_ci = 0; g_co = 0; }',
                       after='if (gk == V_n0 - __gmp_n) { g_ci = 0; g_co = 1; } if (gk > V_n0 - __gmp_n) { g_ci = 1; g_co = 1; }')})},
    harness=mpn_harness('mpn_neg_n', '__gmpn_neg_n (rp, up, n);', ptrs=('rp', 'up')),
    selftest=[('__gmpn_neg_n', r'\+\+__gmp_rp, \+\+__gmp_up, __gmp_n\)', '++__gmp_rp, ++__gmp_up, __gmp_n - 1)'),
              ('__gmpn_neg_n', r'\*__gmp_rp = 0;', '*__gmp_rp = 1;')],
))

for u in UNITS:
    if u['name'].endswith('_ovl'):
        u['timeout'] = 900
    if u['name'] in ('mpn_rshift_ovl', 'mpn_copyd_ovl'):
        u['tier'] = 'thorough'
    if u['name'] == 'mpn_copyd_ovl':
        u['solver'] = ['--sat-solver', 'cadical']      # measured: cadical 242 s, kissat/minisat no answer in 900 s
    if u['name'] in ('mpn_add_n', 'mpn_copyi', 'mpn_lshift', 'mpn_add'):
        u['quick_props'] = ['C05', 'C15']
