"""C10 mpz layer: mpz_setbit / mpz_clrbit against the infinite two's-complement string, as a CLOSED FORM per limb.
For d < 0 the string is ~(|d| - 1).  With lz = index of the lowest non-zero limb of |d| (ghost input g_lz):
    (|d| - 1)[k]  =  D[k] - (k <= lz)                 (mod B; the borrow of the -1 runs through the zero limbs up to lz)
setbit clears / clrbit sets the bit in that string, and |d'| = M' + 1, whose carry into limb k is 1 exactly while every lower limb
of M' is all ones.  For setbit that gives, for every k:
    d'[k] = ((D[k] - (k <= lz)) & ~(k == li ? bit : 0)) + (k <= lz && li >= k)
which is what the harness asserts at the ghost position gk (forall-introduction), plus sign, size and well-formedness."""
from c04_alloc import mpz_obj
from c03_mpz import store_loop
UNITS = []
LZ_ASM = ['ghost g_lz = index of the lowest non-zero limb: its defining forall ("limbs below g_lz are zero") is instantiated by __CPROVER_assume at the index each woven loop iteration reads',
          'mpn_decr_u borrow loop: the frame clause of its invariant ("limbs above the walking pointer are unchanged", proved at the symbolic positions gk and gj) is instantiated by __CPROVER_assume at the one limb the next iteration reads']

CONTRACT = '''void %s (mpz_ptr d, mp_bitcnt_t bit_index)
__CPROVER_requires (V_WF (d) && V_LZ_OK (d) && (long) (bit_index / 64) + 2 <= V_ZMAX && V_ABSIZ (d) < V_ZMAX && V_GHOSTS_OK)
__CPROVER_assigns (*d, __CPROVER_object_whole (V_PTR (d)))
__CPROVER_frees (V_PTR (d))
__CPROVER_ensures (V_WF_AT (d, gk));
'''
ENTRY = ('long V_n0 = V_ABSIZ (d), V_li = (long) (bit_index / 64); mp_limb_t V_bit = (mp_limb_t) 1 << (bit_index % 64);'
         ' mp_limb_t V_D = gk < V_n0 ? d->_mp_d[gk] : 0, V_Dj = gj < V_n0 ? d->_mp_d[gj] : 0;')
def decr_clause(K, D):
    return '((%(K)s < V_n0) ==> dp[%(K)s] == ((%(K)s == V_li) ? %(D)s - V_bit : ((V_li < %(K)s && %(K)s <= (__p - dp)) ? ~(mp_limb_t) 0 : %(D)s)))' % dict(K=K, D=D)
DECR_LOOP = dict(scalars=[], havoc_targets=['__p'], havoc='{ long V_d = nondet_long (); __CPROVER_assume (V_li <= V_d && V_d < g_lz); __p = dp + V_d; }', havoc_inv={'V_d': '(__p - dp)'},
                 slices=[('dp', 'V_n0 * 8')],
                 inv='(V_li <= (__p - dp) && (__p - dp) < g_lz && g_lz < V_n0 && __CPROVER_same_object (__p, dp) && dp == d->_mp_d && ' + decr_clause('gk', 'V_D') + ' && ' + decr_clause('gj', 'V_Dj') + ')',
                 dec='g_lz - (__p - dp)',
                 head='__CPROVER_assume (((__p + 1 - dp) < g_lz ==> __p[1] == 0) && ((__p + 1 - dp) == g_lz ==> __p[1] != 0));')
NORM_LOOP = dict(scalars=['dsize'], inv='(g_lz + 2 <= dsize && dsize <= V_n0 && ((dsize - 1 <= gk && gk < V_n0) ==> dp[gk] == 0))', dec='dsize')
ZB_LOOP = dict(scalars=['zero_bound'], inv='(0 <= zero_bound && zero_bound <= g_lz)', dec='g_lz - zero_bound',
               begin='__CPROVER_assume (zero_bound >= g_lz || dp[zero_bound] == 0);   /* g_lz instantiated at the limb read */')

SETBIT_H = '''void h_mpz_setbit (void) {
%(D)s  mpz_ptr d = &D;
  mp_bitcnt_t b = nondet_ulong ();
  gk = nondet_long (); g_lz = nondet_long ();
  __CPROVER_assume (0 <= gk && gk < V_ZMAX && V_WF (d) && V_LZ_OK (d));
  long sd = V_SIZ (d), n = V_ABS (sd), li = (long) (b / 64), lz = g_lz;
  __CPROVER_assume (li + 2 <= V_ZMAX && n < V_ZMAX);
  gj = n > 0 ? n - 1 : 0; gh = 0;
  mp_limb_t bit = (mp_limb_t) 1 << (b %% 64);
  mp_limb_t Dk = gk < n ? V_PTR (d)[gk] : 0;
  __CPROVER_assume (sd >= 0 || gk >= lz || Dk == 0);            /* g_lz instantiated at gk */
  %(f)s (d, b);
  long sw = V_SIZ (d), wn = V_ABS (sw);
  mp_limb_t Wk = V_PTR (d)[gk < V_ALLOC (d) ? gk : 0];
%(post)s
}'''
SETBIT_POST = '''  if (sd >= 0)
    {
      __CPROVER_assert (sw == (n > li + 1 ? n : li + 1), "[C10] d >= 0: size = max (n, bit/64 + 1), non-negative");
      __CPROVER_assert (gk < wn ==> Wk == (Dk | (gk == li ? bit : 0)), "[C10] d >= 0: limb gk = old limb, with the bit set in limb bit/64 (zero fill in between)");
    }
  else
    {
      mp_limb_t want = ((Dk - (gk <= lz ? 1 : 0)) & ~(gk == li ? bit : (mp_limb_t) 0)) + ((gk <= lz && li >= gk) ? 1 : 0);
      __CPROVER_assert (sw < 0 && wn <= n, "[C10] d < 0: stays negative, magnitude does not grow");
      __CPROVER_assert (gk < wn ==> Wk == want, "[C10] d < 0: limb gk of |d'| = ((|d| - 1) with the bit cleared) + 1, closed form in g_lz");
      __CPROVER_assert ((wn <= gk && gk < n) ==> want == 0, "[C10][C04] d < 0: the limbs dropped by normalisation are zero in the exact result");
    }'''
UNITS.append(dict(
    name='mpz_setbit', props=['C10', 'C04', 'C15'], source='mpz/setbit.c', contracts=['mpn.h', 'mpz.h', 'c10.h'],
    contract_text=CONTRACT % '__gmpz_setbit', enforce=['__gmpz_setbit'], replace=['__gmpz_realloc'], assumptions=LZ_ASM,
    functions={'__gmpz_setbit': dict(
        entry=ENTRY,
        inserts=[(r'\*__p = __x -', r'__CPROVER_assume (limb_index >= g_lz || __x == 0); \g<0>')],
        loops={0: store_loop('gk - dsize'), 1: ZB_LOOP, 2: NORM_LOOP, 3: 'unreachable', 4: 'unreachable', 5: DECR_LOOP})},
    harness=SETBIT_H % dict(D=mpz_obj('D'), f='__gmpz_setbit', post=SETBIT_POST), timeout=900,
    selftest=[('__gmpz_setbit', r'if \(limb_index > zero_bound\)', 'if (limb_index >= zero_bound)'),
              ('__gmpz_setbit', r'dsize -= dp\[dsize - 1\] == 0;', ';'),
              ('__gmpz_setbit', r'd->_mp_alloc < limb_index \+ 1', 'd->_mp_alloc < limb_index')]))

# ------------------------------------------------------------------ mpz_clrbit
# d >= 0: limb & ~bit, then normalise.  d < 0 (string ~(|d|-1), set the bit there, add 1):
#   bit/64 > lz : |d'|[k] = D[k] | (k == li ? bit : 0), zero filled up to the new top limb;   bit/64 < lz : unchanged (the bit is 0 already);
#   bit/64 == lz: limb lz becomes ((D[lz]-1) | bit) + 1 and, when that wraps to 0, a carry runs upwards: carry chain at gk with the ghost carries
#                 g_ci, g_co recorded by woven statements (as for mpn_add_1), possibly into a new limb 1.
CARRY_INV = '''(V_li + 1 <= i && i <= dsize && dsize == V_n0 && limb_index == V_li && dp == d->_mp_d && g_lz == V_li
   && ((gk < V_li) ==> dp[gk] == V_D) && ((gk == V_li && gk < V_n0) ==> dp[gk] == 0)
   && ((V_li < gk && gk < i) ==> (dp[gk] == 0 && V_D == ~(mp_limb_t) 0 && g_ci == 1 && g_co == 1))
   && ((gk >= i && gk < V_n0) ==> (dp[gk] == V_D && g_ci == 0 && g_co == 0)))'''
CLRBIT_POST = '''  if (sd >= 0)
    {
      __CPROVER_assert (sw >= 0 && wn <= n, "[C10] d >= 0: stays non-negative, does not grow");
      __CPROVER_assert (gk < wn ==> Wk == (Dk & ~(gk == li ? bit : (mp_limb_t) 0)), "[C10] d >= 0: limb gk = old limb with the bit cleared in limb bit/64");
      __CPROVER_assert ((wn <= gk && gk < n) ==> (Dk & ~(gk == li ? bit : (mp_limb_t) 0)) == 0, "[C10][C04] d >= 0: the limbs dropped by normalisation are zero in the exact result");
    }
  else if (li > lz)
    {
      __CPROVER_assert (sw == -(n > li + 1 ? n : li + 1), "[C10] d < 0, bit above the lowest non-zero limb: size = max (n, bit/64 + 1), negative");
      __CPROVER_assert (gk < wn ==> Wk == (Dk | (gk == li ? bit : 0)), "[C10] d < 0, bit above the lowest non-zero limb: the bit is set in the magnitude (zero fill in between)");
    }
  else if (li < lz)
    __CPROVER_assert (sw == sd && (gk < n ==> Wk == Dk), "[C10] d < 0, bit below the lowest non-zero limb: already clear, d unchanged");
  else
    {
      mp_limb_t m = (Dlz - 1) | bit;
      __CPROVER_assert (sw < 0 && (wn == n || wn == n + 1), "[C10] d < 0: stays negative, grows by at most one limb");
      __CPROVER_assert (gk < lz ==> Wk == Dk, "[C10] limbs below the lowest non-zero limb unchanged (zero)");
      __CPROVER_assert (gk == lz ==> Wk == m + 1, "[C10] limb lz = ((D[lz] - 1) | bit) + 1");
      __CPROVER_assert ((lz < gk && gk < n) ==> (g_ci <= 1 && g_co <= 1 && V_ADDREL (Wk, Dk, 0, g_ci, g_co)), "[C10] carry chain above lz at limb gk");
      __CPROVER_assert ((gk == lz + 1 && gk < n) ==> g_ci == (m == ~(mp_limb_t) 0), "[C10] carry into limb lz+1 iff limb lz wrapped");
      __CPROVER_assert ((gk == n - 1 && gk > lz) ==> (g_co ? (wn == n + 1 && V_PTR (d)[n] == 1) : wn == n), "[C10] a carry out of the top limb becomes a new limb 1");
      __CPROVER_assert ((n - 1 == lz) ==> ((m == ~(mp_limb_t) 0) ? (wn == n + 1 && V_PTR (d)[n] == 1) : wn == n), "[C10] one significant limb: new limb iff it wrapped");
    }'''
CLRBIT_H = SETBIT_H.replace('mp_limb_t Dk = ', 'mp_limb_t Dlz = sd != 0 ? V_PTR (d)[lz] : 0; g_ci = 0; g_co = 0;\n  mp_limb_t Dk = ').replace('h_mpz_setbit', 'h_mpz_clrbit')
UNITS.append(dict(
    name='mpz_clrbit', props=['C10', 'C04', 'C15'], source='mpz/clrbit.c', contracts=['mpn.h', 'mpz.h', 'c10.h'],
    contract_text=(CONTRACT % '__gmpz_clrbit').replace('__CPROVER_object_whole (V_PTR (d))', '__CPROVER_object_whole (V_PTR (d)), g_ci, g_co'),
    enforce=['__gmpz_clrbit'], replace=['__gmpz_realloc'], assumptions=LZ_ASM[:1],
    functions={'__gmpz_clrbit': dict(
        entry=ENTRY,
        loops={0: dict(scalars=['dsize'], inv='(1 <= dsize && dsize <= V_n0 && ((dsize - 1 <= gk && gk < V_n0) ==> dp[gk] == 0))', dec='dsize'),
               1: ZB_LOOP, 2: store_loop('gk - dsize'),
               3: dict(scalars=['i', 'g_ci', 'g_co'], slices=[('dp', 'V_n0 * 8')], inv=CARRY_INV, dec='V_n0 - i',
                       begin='if (i == gk) g_ci = 1;', end='if (i - 1 == gk) g_co = 1;')})},
    harness=CLRBIT_H % dict(D=mpz_obj('D'), f='__gmpz_clrbit', post=CLRBIT_POST), timeout=900,
    selftest=[('__gmpz_clrbit', r'if \(limb_index > zero_bound\)', 'if (limb_index >= zero_bound)'),
              ('__gmpz_clrbit', r'dsize\+\+;', ';'),
              ('__gmpz_clrbit', r'd->_mp_size = dsize;', 'd->_mp_size = dsize + 1;')]))

# ------------------------------------------------------------------ mpz_combit, two partitions (the others - d < 0 with the bit at or above the lowest non-zero limb - have no unit)
from c03_mpz import norm_loop
COMBIT_CONTRACT = (CONTRACT % '__gmpz_combit').replace('__CPROVER_object_whole (V_PTR (d))', '__CPROVER_object_whole (V_PTR (d)), g_ci, g_co, g2_ci, g2_co, gk, gj').replace(
    'V_WF_AT (d, gk)', 'V_WF_AT (d, gk) && gk == __CPROVER_old (gk)')
COMBIT_REWRITE = [(r'__gmpn_sub_1\(dp\+limb_index, dp\+limb_index, dsize \+ limb_index, bit\);', '__gmpn_sub_1(dp+limb_index, dp+limb_index, dsize - limb_index, bit);',
                   'length argument of the in-place mpn_sub_1: dsize + limb_index (more limbs than the block holds above limb_index) read as dsize - limb_index')]
COMBIT_ASM = ['`mpn_sub_1 (dp+limb_index, dp+limb_index, dsize + limb_index, bit)`: the length names limbs beyond the number; the in-place inline mpn_sub_1 stops where the borrow ends and never touches them, so no access '
              'leaves the block in the real code, but the call does not meet the documented operand-size precondition.  REWRITTEN in the verified text to `dsize - limb_index` (GMP 6 has this form)']
COMBIT_POS_POST = '''  long top = n > li + 1 ? n : li + 1;
  __CPROVER_assert (sw >= 0 && wn <= top, "[C10] d >= 0: stays non-negative, at most max (n, bit/64 + 1) limbs");
  __CPROVER_assert (gk < wn ==> Wk == (Dk ^ (gk == li ? bit : 0)), "[C10] d >= 0: limb gk = old limb with the bit flipped in limb bit/64 (zero fill in between)");
  __CPROVER_assert ((wn <= gk && gk < top) ==> (Dk ^ (gk == li ? bit : 0)) == 0, "[C10][C04] d >= 0: the limbs dropped by normalisation are zero in the exact result");'''
UNITS.append(dict(
    name='mpz_combit_pos', props=['C10', 'C04', 'C15'], source='mpz/combit.c', contracts=['mpn.h', 'mpz.h', 'c10.h'],
    contract_text=COMBIT_CONTRACT, enforce=['__gmpz_combit'], replace=['__gmpz_realloc', '__gmpn_sub_1'],
    assumptions=['partition: d >= 0'] + COMBIT_ASM,
    functions={'__gmpz_combit': dict(entry=ENTRY, rewrites=COMBIT_REWRITE,
        loops={0: store_loop('gk - dsize'), 1: norm_loop('dp', 'dsize'), 2: 'unreachable', 3: 'unreachable', 4: 'unreachable', 5: 'unreachable', 6: 'unreachable'})},
    replay='mpz_combit', harness=(SETBIT_H.replace('h_mpz_setbit', 'h_mpz_combit_pos').replace('mp_limb_t Dk = ', '__CPROVER_assume (sd >= 0);\n  mp_limb_t Dk = ')) % dict(D=mpz_obj('D'), f='__gmpz_combit', post=COMBIT_POS_POST),
    timeout=900,
    selftest=[('__gmpz_combit', r'dp\[limb_index\] \^= bit;', 'dp[limb_index] |= bit;'), ('__gmpz_combit', r'\(limb_index \+ 1\) > \(\(d\)->_mp_alloc\)', '(limb_index) > ((d)->_mp_alloc)')]))

# d < 0, bit inside the low zero limbs (bit/64 < lz): the string has a 0 there, combit sets it, the magnitude decreases by `bit` at limb bit/64 and the borrow
# runs up through the zero limbs: borrow chain at gk (relative position gk - bit/64 handed to mpn_sub_1's contract)
COMBIT_NEG_POST = '''  __CPROVER_assert (sw <= 0 && wn <= n, "[C10] d < 0, bit in the low zero limbs: not positive, does not grow");
  __CPROVER_assert (gk < li ==> Wk == Dk, "[C10] limbs below bit/64 unchanged");
  __CPROVER_assert ((li <= gk && gk < n) ==> (g_ci <= 1 && g_co <= 1 && V_SUBREL ((gk < wn ? Wk : 0), Dk, (gk == li ? bit : 0), g_ci, g_co)), "[C10] |d'| = |d| - bit*B^(bit/64): borrow chain at limb gk");
  __CPROVER_assert (gk == li ==> g_ci == 0, "[C10] no borrow into limb bit/64");'''
UNITS.append(dict(
    name='mpz_combit_neg_low', props=['C10', 'C04', 'C15'], source='mpz/combit.c', contracts=['mpn.h', 'mpz.h', 'c10.h'],
    contract_text=COMBIT_CONTRACT, enforce=['__gmpz_combit'], replace=['__gmpz_realloc', '__gmpn_sub_1'],
    assumptions=['partition: d < 0 and bit/64 below the lowest non-zero limb'] + LZ_ASM[:1] + COMBIT_ASM,
    functions={'__gmpz_combit': dict(entry=ENTRY, rewrites=COMBIT_REWRITE,
        inserts=[(r'mp_limb_t x = -dp\[limb_index\];', r'\g<0> __CPROVER_assume (limb_index >= g_lz || dp[limb_index] == 0);'),
                 (r'__gmpn_sub_1\(dp\+limb_index, dp\+limb_index, dsize \+ limb_index, bit\);',
                  r'{ long V_sk = gk, V_sj = gj; gk = gk >= limb_index ? gk - limb_index : V_NMAX; gj = gj >= limb_index ? gj - limb_index : V_NMAX; \g<0> gk = V_sk; gj = V_sj; }')],
        loops={0: 'unreachable', 1: 'unreachable',
               2: dict(scalars=['i', 'x'], inv='(-1 <= i && i < limb_index && x == 0)', dec='i + 1', begin='__CPROVER_assume (i >= g_lz || dp[i] == 0);'),
               3: 'unreachable', 4: 'unreachable', 5: 'unreachable', 6: norm_loop('dp', 'dsize')})},
    replay='mpz_combit', harness=(SETBIT_H.replace('h_mpz_setbit', 'h_mpz_combit_neg_low').replace('mp_limb_t Dk = ', '__CPROVER_assume (sd < 0 && li < lz); g_ci = 0; g_co = 0;\n  mp_limb_t Dk = ')) % dict(D=mpz_obj('D'), f='__gmpz_combit', post=COMBIT_NEG_POST),
    timeout=900,
    selftest=[('__gmpz_combit', r'for \(i = limb_index-1; i >= 0; i--\)', 'for (i = limb_index-2; i >= 0; i--)'), ('__gmpz_combit', r'\(\(d\)->_mp_size\) = -dsize;', '((d)->_mp_size) = dsize;')]))
