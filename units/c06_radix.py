"""C06 core: mpz_sizeinbase is exact for the power-of-two bases (loop-free, full domain), with the real mp_bases table linked in."""
from c04_alloc import mpz_obj
UNITS = []
UNITS.append(dict(
    name='mpz_sizeinbase_pow2', props=['C06', 'C04', 'C15'], source='mpz/sizeinbase.c', extra_sources=['mpn/mp_bases.c'],
    contracts=['mpz.h'], enforce=['__gmpz_sizeinbase'],
    contract_text='''#define V_LOG2B(b) ((b) == 2 ? 1 : (b) == 4 ? 2 : (b) == 8 ? 3 : (b) == 16 ? 4 : (b) == 32 ? 5 : (b) == 64 ? 6 : (b) == 128 ? 7 : 8)
#define V_BITS(x)  ((unsigned long) V_ABSIZ (x) * 64 - (unsigned long) __builtin_clzl (V_PTR (x)[V_ABSIZ (x) - 1]))
size_t __gmpz_sizeinbase (mpz_srcptr x, int base)
__CPROVER_requires (V_WF (x) && (base == 2 || base == 4 || base == 8 || base == 16 || base == 32 || base == 64 || base == 128 || base == 256))
__CPROVER_assigns ()
__CPROVER_ensures (V_SIZ (x) == 0 ==> __CPROVER_return_value == 1)
/* exact digit count: the least d with 2^(k*d) > |x|, i.e. ceil(bits/k) */
__CPROVER_ensures (V_SIZ (x) != 0 ==> __CPROVER_return_value == (V_BITS (x) + V_LOG2B (base) - 1) / V_LOG2B (base));
''',
    harness='void h_mpz_sizeinbase_pow2 (void) {\n' + mpz_obj('X') + '  int base = nondet_int ();\n  __gmpz_sizeinbase (&X, base);\n}',
    selftest=[('__gmpz_sizeinbase', r'\+ __lb_base - 1\)', '+ __lb_base)')],
))
