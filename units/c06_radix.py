"""C06 core: mpz_sizeinbase is exact for the power-of-two bases (loop-free, full domain), with the real mp_bases table linked in."""
from c04_alloc import mpz_obj
UNITS = []
UNITS.append(dict(
    name='mpz_sizeinbase_pow2', props=['C06', 'C04', 'C15'], source='mpz/sizeinbase.c', extra_sources=['mpn/mp_bases.c'],
    contracts=['mpz.h'], enforce=['__gmpz_sizeinbase'],
    contract_text='''#define V_LOG2B(b) ((b) == 2 ? 1 : (b) == 4 ? 2 : (b) == 8 ? 3 : (b) == 16 ? 4 : (b) == 32 ? 5 : (b) == 64 ? 6 : (b) == 128 ? 7 : 8)
#define V_BITS(x)  ((unsigned long) V_ABSIZ (x) * 64 - (unsigned long) __builtin_clzl (V_PTR (x)[V_ABSIZ (x) - 1]))
size_t __gmpz_sizeinbase (mpz_srcptr x, int base)
__CPROVER_requires (V_WF (x) && (base == 2 || base == 4 || base == 8 || base == 16 || base == 32 || base == 64 || base == 128 || base == 256))
__CPROVER_assigns ()
__CPROVER_ensures (V_SIZ (x) == 0 ==> __CPROVER_return_value == 1)
/* exact digit count: the least d with 2^(k*d) > |x|, i.e. ceil(bits/k) */
__CPROVER_ensures (V_SIZ (x) != 0 ==> __CPROVER_return_value == (V_BITS (x) + V_LOG2B (base) - 1) / V_LOG2B (base));
''',
    harness='void h_mpz_sizeinbase_pow2 (void) {\n' + mpz_obj('X') + '  int base = nondet_int ();\n  __gmpz_sizeinbase (&X, base);\n}',
    selftest=[('__gmpz_sizeinbase', r'\+ __lb_base - 1\)', '+ __lb_base)')],
))

# ------------------------------------------------------------------ mpn_get_str for power-of-two bases: EVERY digit is the right k-bit field of the operand
# digit j (0 = most significant) of a D-digit output is bits [(D-1-j)k, (D-j)k) of {up,un}; D = ceil(bitlength / k).  Unbounded in un, one unit per base.
GS_CONTRACT = '''#define V_NBITS(p,n) ((unsigned long) (n) * 64 - (unsigned long) __builtin_clzl ((p)[(n) - 1]))
/* the digit count D is the ghost gh, pinned by  (D-1)k < bitlength <= Dk  (no division by k in the specification: k = 3,5,6,7 made the divider circuits too slow) */
#define V_ND(p,n,k) gh
#define V_DOK(p,n,k) (1 <= gh && gh <= 64 * V_NMAX && (unsigned long) gh * (k) >= V_NBITS (p, n) && (unsigned long) (gh - 1) * (k) < V_NBITS (p, n))
/* k-bit field of {p,n} whose lowest bit is bit o (zero beyond limb n-1) */
#define V_FIELD(p,n,o,k) ((((p)[(o) / 64] >> ((o) % 64)) | ((((o) % 64) + (k) > 64 && (o) / 64 + 1 < (n)) ? (p)[(o) / 64 + 1] << (64 - ((o) % 64)) : 0)) & ((1UL << (k)) - 1))
size_t __gmpn_get_str (unsigned char *str, int base, mp_ptr up, mp_size_t un)
__CPROVER_requires (base == V_BASE && 0 <= un && un <= V_NMAX && (un == 0 || (V_R_OK (up, un) && up[un - 1] != 0)))
/* room: exactly the digits that are written (the manual asks for more - room for the largest un-limb number plus one - but mpz_get_str relies on this) */
__CPROVER_requires (!__CPROVER_same_object (str, up) && 0 <= gj && gj <= 64 * V_NMAX && (un == 0 ? __CPROVER_w_ok (str, 1) : (V_DOK (up, un, V_KC) && __CPROVER_w_ok (str, gh))))
__CPROVER_assigns (un == 0: __CPROVER_object_upto (str, 1); un != 0: __CPROVER_object_upto (str, gh))
__CPROVER_ensures (un == 0 ==> (__CPROVER_return_value == 1 && str[0] == 0))
__CPROVER_ensures (un != 0 ==> __CPROVER_return_value == (size_t) V_ND (up, un, V_KC))
__CPROVER_ensures ((un != 0 && gj < V_ND (up, un, V_KC)) ==> str[gj] == V_FIELD (up, un, (unsigned long) (V_ND (up, un, V_KC) - 1 - gj) * V_KC, V_KC));
'''
def _getstr(base):
    W = '(s - str)'
    common = ('(bits_per_digit == V_KC && base == V_BASE && 1 <= un && un <= V_NMAX && s >= str && __CPROVER_same_object (s, str) && 0 <= i && i <= un - 1 && n1 == up[i] '
              '&& V_D == V_ND (up, un, V_KC) && 0 <= WW && WW <= V_D && ((0 <= gj && gj < WW) ==> str[gj] == V_FIELD (up, un, (unsigned long) (V_D - 1 - gj) * V_KC, V_KC))').replace('WW', W)
    inv0 = common + ' && 1 <= bit_pos && bit_pos <= 63 + V_KC && (i == un - 1 || bit_pos <= 64) && (long) i * 64 + bit_pos == (V_D - WW) * V_KC)'.replace('WW', W)
    inv1 = common + ' && -V_KC <= bit_pos && bit_pos <= 63 && (i == un - 1 || bit_pos + V_KC <= 64) && (long) i * 64 + bit_pos == (V_D - WW - 1) * V_KC)'.replace('WW', W)
    hv = '{ long V_w = nondet_long (); __CPROVER_assume (0 <= V_w && V_w <= V_D); s = str + V_w; }'
    sl = [('str', 'gh')]
    return dict(
        name='mpn_get_str_b%d' % base, props=['C06', 'C04', 'C15'], source='mpn/generic/get_str.c', extra_sources=['mpn/mp_bases.c'], contracts=['mpn.h'],
        contract_text=('#define V_BASE %d\n#define V_KC %d\n' % (base, base.bit_length() - 1)) + GS_CONTRACT, enforce=['__gmpn_get_str'],
        functions={'__gmpn_get_str': dict(
            inserts=[(r'i = un - 1;\s*for \(;;\)', r'long V_D = gh; \g<0>')],
            loops={0: dict(scalars=['i', 'bit_pos', 'n1', 'n0'], havoc_targets=['s'], local_to_body=['V_w'], havoc=hv, havoc_inv={'V_w': '(s - str)'}, slices=sl, inv=inv0, dec='((long) i * 64 + bit_pos)'),
                   1: dict(scalars=['bit_pos'], havoc_targets=['s'], havoc=hv, havoc_inv={'V_w': '(s - str)'}, slices=sl, inv=inv1, dec='(bit_pos + V_KC)'),
                   2: 'unreachable', 3: 'unreachable', 4: 'unreachable', 5: 'unreachable'})},
        assumptions=['base %d only (one unit per power-of-two base 2..256); the general-base path (mpn_sb_get_str, mpn_dc_get_str, powers table) is unreachable here and has no unit' % base],
        harness='''void h_mpn_get_str_b%d (void) {
  mp_size_t un = nondet_long (); __CPROVER_assume (0 <= un && un <= V_NMAX);
  gj = nondet_long (); gh = nondet_long (); __CPROVER_assume (1 <= gh && gh <= 64 * V_NMAX);
  mp_limb_t *up = malloc (un * 8); unsigned char *str = malloc (gh);
  __CPROVER_assume (up != (void *) 0 && str != (void *) 0);
  __gmpn_get_str (str, V_BASE, up, un);
}''' % base, timeout=1200,
        selftest=[('__gmpn_get_str', r'n0 = \(n1 << -bit_pos\)', 'n0 = (n1 << (-bit_pos - 1))'), ('__gmpn_get_str', r'bits \+= bits_per_digit - cnt;', 'bits += bits_per_digit;')] if base in (8, 16) else [])
for _b in (2, 4, 8, 16, 32, 64, 128, 256):
    UNITS.append(_getstr(_b))
    if _b == 128: UNITS[-1]['tier'] = 'thorough'       # 450 s under load; the other seven bases stay in the quick tier

# ------------------------------------------------------------------ mpn_set_str for power-of-two bases: the inverse relation - every digit lands in its k-bit field
# digit m counted from the LEAST significant end (str[len-1-m]) is bits [mk, mk+k) of the result; bits at or above len*k are zero
SS_CONTRACT = '''#define V_SL(t,rp,size,top) ((t) < (size) ? (rp)[t] : ((t) == (size) ? (top) : (mp_limb_t) 0))          /* limbs written so far + the limb being assembled */
#define V_SFIELD(o,rp,size,top) (((V_SL ((long) ((o) / 64), rp, size, top) >> ((o) % 64)) | ((((o) % 64) + V_KC > 64) ? V_SL ((long) ((o) / 64) + 1, rp, size, top) << (64 - ((o) % 64)) : 0)) & ((1UL << V_KC) - 1))
mp_size_t __gmpn_set_str (mp_ptr rp, const unsigned char *str, size_t str_len, int base)
__CPROVER_requires (base == V_BASE && 1 <= str_len && str_len <= (size_t) V_NMAX && __CPROVER_r_ok (str, str_len) && V_W_OK (rp, (str_len * V_KC + 63) / 64) && !__CPROVER_same_object (str, rp))
__CPROVER_requires (0 <= gj && gj <= V_NMAX)
__CPROVER_assigns (__CPROVER_object_upto (rp, ((str_len * V_KC + 63) / 64) * 8))
/* size: all full limbs, plus the partial top limb when it is non-zero */
__CPROVER_ensures (__CPROVER_return_value == (mp_size_t) (str_len * V_KC / 64) || __CPROVER_return_value == (mp_size_t) (str_len * V_KC / 64) + 1)
__CPROVER_ensures ((unsigned long) gj < str_len ==> V_SFIELD ((unsigned long) gj * V_KC, rp, __CPROVER_return_value, (mp_limb_t) 0) == str[str_len - 1 - gj])
__CPROVER_ensures ((__CPROVER_return_value == (mp_size_t) (str_len * V_KC / 64) + 1) ==> (rp[str_len * V_KC / 64] != 0 && (rp[str_len * V_KC / 64] >> ((str_len * V_KC) % 64)) == 0));
'''
def _setstr(base):
    k = base.bit_length() - 1
    C = '((str + str_len - 1) - s)'
    inv = ('(bits_per_indigit == V_KC && base == V_BASE && 1 <= str_len && str_len <= (size_t) V_NMAX && __CPROVER_same_object (s, str) && 0 <= CC && (unsigned long) CC <= str_len '
           '&& size == (mp_size_t) ((unsigned long) CC * V_KC / 64) && next_bitpos == (int) ((unsigned long) CC * V_KC % 64) && (res_digit >> next_bitpos) == 0 '
           '&& ((0 <= gj && gj < CC) ==> V_SFIELD ((unsigned long) gj * V_KC, rp, size, res_digit) == str[str_len - 1 - gj]))').replace('CC', C)
    return dict(
        name='mpn_set_str_b%d' % base, props=['C06', 'C04', 'C15'], source='mpn/generic/set_str.c', extra_sources=['mpn/mp_bases.c'], contracts=['mpn.h'],
        contract_text=('#define V_BASE %d\n#define V_KC %d\n' % (base, k)) + SS_CONTRACT, enforce=['__gmpn_set_str'],
        functions={'__gmpn_set_str': dict(
            loops={0: dict(scalars=['size', 'next_bitpos', 'res_digit'], havoc_targets=['s'], local_to_body=['inp_digit'],
                           havoc='{ long V_c = nondet_long (); __CPROVER_assume (0 <= V_c && (unsigned long) V_c < str_len); s = str + (str_len - 1 - V_c); }', havoc_inv={'V_c': '((str + str_len - 1) - s)'},
                           slices=[('rp', '((str_len * V_KC + 63) / 64) * 8')], inv=inv, dec='(s - str + 1)', begin='__CPROVER_assume (*s < V_BASE);',
                           incr_as=dict(cond='s >= str', incr='s--', exit_when='s == str'))})},
        assumptions=['base %d only (one unit per power-of-two base); precondition "every input digit is below the base" is instantiated by a woven assume on the BYTE IN MEMORY (*s < base) that each iteration is about to read; the general-base path has no unit' % base,
                     'the loop header `for (s = str + len - 1; s >= str; s--)` ends with s one below str (ISO C undefined, flat memory with gcc): the cut tests s == str before the decrement instead; s is dead after the loop'],
        harness='''void h_mpn_set_str_b%d (void) {
  size_t len = nondet_ulong (); __CPROVER_assume (1 <= len && len <= (size_t) V_NMAX);
  unsigned char *str = malloc (len); mp_limb_t *rp = malloc (((len * V_KC + 63) / 64) * 8);
  __CPROVER_assume (str != (void *) 0 && rp != (void *) 0);
  gj = nondet_long ();
  __gmpn_set_str (rp, str, len, V_BASE);
}''' % base, timeout=1200,
        selftest=[('__gmpn_set_str', r'res_digit = inp_digit >> \(bits_per_indigit - next_bitpos\);', 'res_digit = inp_digit >> (bits_per_indigit - next_bitpos - 1);'),
                  ('__gmpn_set_str', r'if \(next_bitpos >= \(64 - 0\)\)', 'if (next_bitpos > (64 - 0))')] if base in (8, 16) else [])
for _b in (2, 4, 8, 16, 32, 64, 128, 256):
    UNITS.append(_setstr(_b))

# ------------------------------------------------------------------ mpz_get_str for power-of-two bases: sign, digit characters, terminator, allocation - over the
# mpn_get_str contract PROVED above (same text, replaced at the call)
ZG_CONTRACT = '''#define V_CH(d) ((char) ((d) < 10 ? '0' + (d) : (V_UPPER ? 'A' : 'a') + ((d) - 10)))
#define V_NEG(x) (V_SIZ (x) < 0)
char *__gmpz_get_str (char *res_str, int base, mpz_srcptr x)
__CPROVER_requires (V_WF (x) && base == V_ZBASE && 0 <= gj && gj <= 64 * V_NMAX && 1 <= gh && gh <= 64 * V_NMAX && (V_SIZ (x) == 0 ? gh == 1 : V_DOK (V_PTR (x), V_ABSIZ (x), V_KC)))
/* the manual: a caller-supplied block has mpz_sizeinbase (x, base) + 2 bytes */
__CPROVER_requires (res_str == (char *) 0 || (__CPROVER_w_ok (res_str, gh + 2) && !__CPROVER_same_object (res_str, V_PTR (x)) && !__CPROVER_same_object (res_str, x)))
__CPROVER_assigns (res_str != (char *) 0: __CPROVER_object_upto (res_str, gh + 2))
__CPROVER_ensures (__CPROVER_return_value != (char *) 0 && (res_str != (char *) 0 ==> __CPROVER_return_value == res_str))
/* a block allocated for the caller is resized to exactly strlen + 1 bytes */
__CPROVER_ensures (res_str == (char *) 0 ==> (__CPROVER_POINTER_OFFSET (__CPROVER_return_value) == 0 && __CPROVER_OBJECT_SIZE (__CPROVER_return_value) == (__CPROVER_size_t) (gh + 1 + V_NEG (x))))
__CPROVER_ensures ((V_NEG (x) ==> __CPROVER_return_value[0] == '-') && __CPROVER_return_value[gh + V_NEG (x)] == 0)
__CPROVER_ensures ((V_SIZ (x) == 0 && gj == 0) ==> __CPROVER_return_value[0] == '0')
/* digit gj (0 = most significant) is the character of the k-bit field [(D-1-gj)k, (D-gj)k) of |x| */
__CPROVER_ensures ((V_SIZ (x) != 0 && gj < gh) ==> __CPROVER_return_value[gj + V_NEG (x)] == V_CH (V_FIELD (V_PTR (x), V_ABSIZ (x), (unsigned long) (gh - 1 - gj) * V_KC, V_KC)));
'''
def _zgetstr(zbase):
    b = abs(zbase); k = b.bit_length() - 1
    inv = ('(0 <= i && (unsigned long) i <= str_size && str_size == (x_size == 0 ? (size_t) 1 : (size_t) gh) && __CPROVER_w_ok (res_str, str_size + 1) '
           '&& ((0 <= gj && gj < (long) i) ==> res_str[gj] == (x_size == 0 ? \'0\' : V_CH (V_FIELD (V_PTR (x), V_ABSIZ (x), (unsigned long) (gh - 1 - gj) * V_KC, V_KC)))) '
           '&& (((long) i <= gj && (unsigned long) gj < str_size) ==> (unsigned char) res_str[gj] == (x_size == 0 ? 0 : V_FIELD (V_PTR (x), V_ABSIZ (x), (unsigned long) (gh - 1 - gj) * V_KC, V_KC))))')
    return dict(
        name='mpz_get_str_b%s' % (str(zbase).replace('-', 'm')), props=['C06', 'C04', 'C15'], source='mpz/get_str.c', extra_sources=['mpn/mp_bases.c'], contracts=['mpn.h', 'mpz.h'],
        contract_text=('#define V_BASE %d\n#define V_ZBASE (%d)\n#define V_KC %d\n#define V_UPPER %d\n' % (b, zbase, k, 1 if zbase < 0 else 0)) + GS_CONTRACT + ZG_CONTRACT,
        enforce=['__gmpz_get_str'], replace=['__gmpn_get_str'], cbmc_flags=['--memory-leak-check'],
        functions={'__gmpz_get_str': dict(loops={0: 'unreachable', 1: dict(scalars=['i'], slices=[('res_str', 'str_size')], inv=inv, dec='((long) str_size - (long) i)', begin='__CPROVER_assume ((unsigned char) res_str[i] < V_BASE);')})},
        assumptions=['base %d only (power-of-two bases; one unit per base); mpn_get_str is used by the contract proved in unit mpn_get_str_b%d' % (zbase, b),
                     'the general-base path (copy of the operand, floating-point size estimate) is unreachable here and has no unit',
                     'every digit mpn_get_str delivered is below the base (its proved post-condition, a k-bit field): instantiated by a woven assume at the digit each iteration of the character loop reads'],
        harness='#include "/verif/contracts/alloc_stubs.h"\nvoid h_mpz_get_str_b%s (void) {\n  V_INSTALL_ALLOCATOR ();\n' % str(zbase).replace('-', 'm') + mpz_obj('X') + '''  gj = nondet_long (); gh = nondet_long (); gk = 0;
  __CPROVER_assume (1 <= gh && gh <= 64 * V_NMAX);
  char *buf = nondet_bool () ? (char *) 0 : malloc (gh + 2);
  char *r = __gmpz_get_str (buf, V_ZBASE, &X);
  free (r); free (X._mp_d);
}''', timeout=1500,
        selftest=[('__gmpz_get_str', r"\*res_str\+\+ = '-';", "*res_str = '-';"), ('__gmpz_get_str', r'res_str\[str_size\] = 0;', 'res_str[str_size - 1] = 0;'),
                  ('__gmpz_get_str', r'alloc_size \+= 1 \+ \(x_size<0\);', 'alloc_size += (x_size<0);')] if zbase in (16, -16) else [])
for _zb in (2, 4, 8, 16, 32, -16, -2):
    UNITS.append(_zgetstr(_zb))
    UNITS[-1]['tier'] = 'thorough'       # 5-17 minutes each: vp check stopped C06's quick tier after 900 s with mpz_get_str_b16 in it, so all of them run in the thorough tier only
    UNITS[-1]['timeout'] = 2400
