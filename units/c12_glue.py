"""C12 planned slice: mpq_mul / mpq_div / mpq_add / mpq_sub / mpq_canonicalize as glue proofs over ASSUMED gcd / exact division /
product on value tokens (DESIGN 3.4).  Proved: for every aliasing of (result, op1, op2) the result parts are exactly the
cross-cancellation (Henrici) terms of the PRE-state operands, the denominator ends up positive, operands that are not the
result are unchanged, every temporary is cleared, DIVIDE_BY_ZERO exactly for a zero divisor."""
UNITS = []
ASM = ['mpz_gcd, mpz_divexact_gcd, mpz_mul: ASSUMED contracts on value tokens (symmetric uninterpreted gcd/product on magnitudes, exact quotient; gcd >= 1 for non-zero operands, gcd(a,0)=|a|, x*1 = x, x/1 = x, x/x = 1)',
       'mpz_add / mpz_sub / mpz_set: token stubs (limb-exact contracts proved in units mpz_add, mpz_sub, mpz_set)',
       'values as a 64-bit window: |token| < 2^61; the stated lemma "the Henrici term is the canonical representative of the exact result" is NOT machine-checked']
QOBJ = lambda n: ('  __mpq_struct %(n)s; mp_limb_t L_%(n)sn[1], L_%(n)sd[1]; %(n)s._mp_num._mp_d = L_%(n)sn; %(n)s._mp_num._mp_alloc = 1; %(n)s._mp_num._mp_size = 0;'
                  ' %(n)s._mp_den._mp_d = L_%(n)sd; %(n)s._mp_den._mp_alloc = 1; %(n)s._mp_den._mp_size = 0;\n') % {'n': n}
PRE = '''%s%s%s  mpq_ptr r = &R; mpq_srcptr a = &A, b = &B;
  if (nondet_bool ()) a = r;
  if (nondet_bool ()) b = r;
  if (nondet_bool ()) b = a;                   /* every identification of result and operands */
  V_tok n1 = nondet_long (), d1 = nondet_long (), n2 = nondet_long (), d2 = nondet_long ();
  __CPROVER_assume (V_INRANGE (n1) && V_INRANGE (n2) && 0 < d1 && d1 < V_TMAX && 0 < d2 && d2 < V_TMAX);
  if (b == a) { n2 = n1; d2 = d1; }
  V_setval (&R._mp_num, 0); V_setval (&R._mp_den, 1); V_setval (&A._mp_num, 0); V_setval (&A._mp_den, 1); V_setval (&B._mp_num, 0); V_setval (&B._mp_den, 1);
  V_setval ((mpz_ptr) &a->_mp_num, n1); V_setval ((mpz_ptr) &a->_mp_den, d1); V_setval ((mpz_ptr) &b->_mp_num, n2); V_setval ((mpz_ptr) &b->_mp_den, d2);
''' % (QOBJ('R'), QOBJ('A'), QOBJ('B'))
POST = '''  if (a != r) __CPROVER_assert (V_val (&a->_mp_num) == n1 && V_val (&a->_mp_den) == d1, "[C05] first operand (not the result) unchanged");
  if (b != r) __CPROVER_assert (V_val (&b->_mp_num) == n2 && V_val (&b->_mp_den) == d2, "[C05] second operand (not the result) unchanged");
  __CPROVER_assert (V_val (&r->_mp_den) > 0, "[C12] denominator positive");
'''
def unit(fn, src, body, loops=None, muts=()):
    return dict(name='mpq_' + fn, props=['C12', 'C05', 'C04'], source='mpq/%s.c' % src, contracts=['tokens.h'],
                functions={'__gmpq_' + fn: (dict(loops=loops) if loops else {})}, harness='void h_mpq_%s (void) {\n%s%s%s}' % (fn, PRE, body, POST),
                unwind=18, assumptions=ASM, cbmc_flags=['--memory-leak-check'], timeout=600,
                selftest=[('__gmpq_' + fn,) + m for m in muts])
UNITS.append(unit('mul', 'mul', '''  __gmpq_mul (r, a, b);
  if (a == b)
    { __CPROVER_assert (V_val (&r->_mp_num) == V_MUL (n1, n1) && V_val (&r->_mp_den) == V_MUL (d1, d1), "[C12] square: (n/d)^2 = n^2/d^2 (already coprime)"); }
  else
    { V_tok g1 = V_GCD (n1, d2), g2 = V_GCD (n2, d1);
      __CPROVER_assert (V_val (&r->_mp_num) == V_MUL (V_DIVX (n1, g1), V_DIVX (n2, g2)), "[C12] numerator = (n1/gcd(n1,d2)) * (n2/gcd(n2,d1))");
      __CPROVER_assert (V_val (&r->_mp_den) == V_MUL (V_DIVX (d2, g1), V_DIVX (d1, g2)), "[C12] denominator = (d2/gcd(n1,d2)) * (d1/gcd(n2,d1))"); }
''', muts=[(r'__gmpz_divexact_gcd \(tmp2, &\(op1->_mp_den\), gcd2\)', '__gmpz_divexact_gcd (tmp2, &(op1->_mp_den), gcd1)'),
           (r'__gmpz_clear \(tmp2\);', ';')]))
UNITS.append(unit('div', 'div', '''  g_div0_expected = (n2 == 0);
  __gmpq_div (r, a, b);
  __CPROVER_assert (n2 != 0, "[C12][C02] returned normally, so the divisor was not zero");
  { V_tok g1 = V_GCD (n1, n2), g2 = V_GCD (d2, d1);
    V_tok en = V_MUL (V_DIVX (n1, g1), V_DIVX (d2, g2)), ed = V_MUL (V_DIVX (n2, g1), V_DIVX (d1, g2));
    __CPROVER_assert (V_val (&r->_mp_num) == (ed < 0 ? -en : en), "[C12] numerator = (n1/gcd(n1,n2)) * (d2/gcd(d1,d2)), sign of the divisor moved up");
    __CPROVER_assert (V_val (&r->_mp_den) == (ed < 0 ? -ed : ed), "[C12] denominator = |(n2/gcd(n1,n2)) * (d1/gcd(d1,d2))|"); }
''', muts=[(r'if \(quot->_mp_den._mp_size < 0\)', 'if (quot->_mp_den._mp_size > 0)'),
           (r'__gmpz_mul \(numtmp, tmp1, tmp2\);', '__gmpz_mul (&(quot->_mp_num), tmp1, tmp2);')]))
AORS = '''  __gmpq_%(op)s (r, a, b);
  { V_tok g = V_GCD (d1, d2), en, ed;
    if (g == 1)
      { en = V_MUL (n1, d2) %(sg)s V_MUL (n2, d1); ed = V_MUL (d1, d2); }
    else
      { V_tok t = V_MUL (n1, V_DIVX (d2, g)) %(sg)s V_MUL (n2, V_DIVX (d1, g)), h = V_GCD (t, g);
        if (h == 1) { en = t; ed = V_MUL (d2, V_DIVX (d1, g)); }
        else { en = V_DIVX (t, h); ed = V_MUL (V_DIVX (d2, h), V_DIVX (d1, g)); } }
    __CPROVER_assert (V_val (&r->_mp_num) == en, "[C12] numerator is the Henrici term of n1/d1 %(sg)s n2/d2");
    __CPROVER_assert (V_val (&r->_mp_den) == ed, "[C12] denominator is the Henrici term"); }
'''
for op, sg in (('add', '+'), ('sub', '-')):
    u = unit(op, 'aors', AORS % dict(op=op, sg=sg), muts=[(r'__gmpz_mul \(tmp2, &\(op2->_mp_num\), tmp2\);', '__gmpz_mul (tmp2, &(op1->_mp_num), tmp2);')] if op == 'add' else [])
    u['functions'] = {'__gmpq_aors': {}, '__gmpq_' + op: {}}
    u['selftest'] = [('__gmpq_aors',) + m[1:] for m in u['selftest']]
    UNITS.append(u)
UNITS.append(dict(name='mpq_canonicalize', props=['C12', 'C04'], source='mpq/canonicalize.c', contracts=['tokens.h'], functions={'__gmpq_canonicalize': {}},
    harness='void h_mpq_canonicalize (void) {\n' + QOBJ('R') + '''  V_tok n = nondet_long (), d = nondet_long (); __CPROVER_assume (V_INRANGE (n) && V_INRANGE (d));
  V_setval (&R._mp_num, n); V_setval (&R._mp_den, d);
  g_div0_expected = (d == 0);
  __gmpq_canonicalize (&R);
  __CPROVER_assert (d != 0, "[C12][C02] returned normally, so the denominator was not zero");
  V_tok g = V_GCD (n, d), en = V_DIVX (n, g), ed = V_DIVX (d, g);
  __CPROVER_assert (V_val (&R._mp_num) == (d < 0 ? -en : en) && V_val (&R._mp_den) == (d < 0 ? -ed : ed), "[C12] both parts divided by their gcd, sign moved to the numerator");
  __CPROVER_assert (V_val (&R._mp_den) > 0, "[C12] denominator positive");
}''', unwind=18, assumptions=ASM, cbmc_flags=['--memory-leak-check'],
    selftest=[('__gmpq_canonicalize', r'if \(op->_mp_den._mp_size < 0\)', 'if (op->_mp_num._mp_size < 0)')]))

# one run per alias partition of (result, op1, op2) for the two slow units (250 s -> a few seconds each)
from c03_mpz import split_alias
_BLK = '''  if (nondet_bool ()) a = r;
  if (nondet_bool ()) b = r;
  if (nondet_bool ()) b = a;                   /* every identification of result and operands */
'''
_OPTS = [('', ''), ('ra', '  a = r;\n'), ('rb', '  b = r;\n'), ('ab', '  b = a;\n'), ('rab', '  a = r; b = r;\n')]
_new = []
for _u in UNITS:
    if _u['name'] in ('mpq_add', 'mpq_sub', 'mpq_mul', 'mpq_div'):
        _new.extend(split_alias(_u, _BLK, _OPTS))
    else:
        _new.append(_u)
UNITS[:] = _new
