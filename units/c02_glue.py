"""C02 core: rounding glue of the floor/ceiling/mod families over assumed truncating division (token G-proofs)."""
UNITS = []
OBJ = lambda n: '  __mpz_struct %s; mp_limb_t L_%s[1]; %s._mp_d = L_%s; %s._mp_alloc = 1; %s._mp_size = 0;\n' % (n, n, n, n, n, n)
ASM = ['mpz_tdiv_qr / mpz_tdiv_q / mpz_tdiv_r: ASSUMED contract on value tokens (uninterpreted truncating quotient and remainder with: r == 0 or sgn r == sgn n, |r| < |d|, DIVIDE_BY_ZERO iff d == 0)',
       'mpz_add / mpz_sub / mpz_add_ui / mpz_sub_ui / mpz_set: token-level stubs (their limb-exact contracts are proved in units mpz_add, mpz_sub, mpz_set; add_ui/sub_ui assumed)',
       'values as a 64-bit window: |token| < 2^61 so interpreted +,- cannot wrap (uninterpreted parts are width-independent)']
def glue(fn, outs, post, muts):
    """outs: 'qr' | 'q' | 'r'"""
    name = 'mpz_' + fn
    args = {'qr': 'q, r, n, d', 'q': 'q, n, d', 'r': 'r, n, d'}[outs]
    # alias partitions: n in {N, outputs}, d in {D, outputs, n}
    alias = []
    outl = {'qr': ['q', 'r'], 'q': ['q'], 'r': ['r']}[outs]
    alias.append('  mpz_srcptr n = &N, d = &D;')
    for o in outl:
        alias.append('  if (nondet_bool ()) n = %s;' % o)
    for o in outl:
        alias.append('  if (nondet_bool ()) d = %s;' % o)
    alias.append('  if (nondet_bool ()) d = n;')
    h = ['void h_%s (void) {' % name, OBJ('Q'), OBJ('R'), OBJ('N'), OBJ('D'), '  mpz_ptr q = &Q, r = &R;'] + alias + ['''
  V_tok vn = nondet_long (), vd = nondet_long ();
  __CPROVER_assume (V_INRANGE (vn) && V_INRANGE (vd));
  if (d == n) vd = vn;
  V_setval ((mpz_ptr) &Q, 0); V_setval ((mpz_ptr) &R, 0); V_setval ((mpz_ptr) &N, 0); V_setval ((mpz_ptr) &D, 0);
  V_setval ((mpz_ptr) n, vn); V_setval ((mpz_ptr) d, vd);
  g_div0_expected = (vd == 0);
  __gmpz_%s (%s);
  __CPROVER_assert (vd != 0, "[C02] returned normally, so the divisor was not zero");
  V_tok tq = __CPROVER_uninterpreted_tdivq (vn, vd), tr = __CPROVER_uninterpreted_tdivr (vn, vd);
%s
  if (n == &N) __CPROVER_assert (V_val (&N) == vn, "[C05] dividend (not an output) unchanged");
  if (d == &D) __CPROVER_assert (V_val (&D) == vd, "[C05] divisor (not an output) unchanged");
}''' % (fn, args, post)]
    return dict(name=name, props=['C02', 'C05'], source='mpz/%s.c' % fn, contracts=['tokens.h'], functions={'__gmpz_' + fn: {}},
                harness='\n'.join(h), unwind=18, assumptions=ASM, selftest=[('__gmpz_' + fn,) + m for m in muts])
FLOOR = '  _Bool adj = tr != 0 && ((vn < 0) != (vd < 0));   /* floor: q = trunc - 1, r = rem + d when the exact quotient is negative and inexact */\n'
CEIL = '  _Bool adj = tr != 0 && ((vn < 0) == (vd < 0));   /* ceiling: q = trunc + 1, r = rem - d when the exact quotient is positive and inexact */\n'
AQ = lambda sgn: '  __CPROVER_assert (V_val (q) == tq %s (adj ? 1 : 0), "[C02] quotient rounded in the documented direction");\n' % sgn
AR = lambda sgn: '  __CPROVER_assert (V_val (r) == tr %s (adj ? vd : 0), "[C02] remainder = n - q*d: sign and range as documented");\n' % sgn
UNITS.append(glue('fdiv_qr', 'qr', FLOOR + AQ('-') + AR('+'), [(r'xsize < 0 && rem', 'xsize <= 0 && rem'), (r'__gmpz_add \(rem, rem, divisor\)', '__gmpz_sub (rem, rem, divisor)'), (r'quot == divisor \|\| rem == divisor', 'quot == divisor')]))
UNITS.append(glue('fdiv_q', 'q', FLOOR + AQ('-'), [(r'\(divisor_size \^ dividend_size\) < 0', '(divisor_size ^ dividend_size) >= 0')]))
UNITS.append(glue('fdiv_r', 'r', FLOOR + AR('+'), [(r'if \(rem == divisor\)', 'if (0)')]))
UNITS.append(glue('cdiv_qr', 'qr', CEIL + AQ('+') + AR('-'), [(r'xsize >= 0 && rem', 'xsize > 0 && rem'), (r'quot == divisor \|\| rem == divisor', 'rem == divisor')]))
UNITS.append(glue('cdiv_q', 'q', CEIL + AQ('+'), [(r'__gmpz_add_ui \(quot, quot, 1L\)', '__gmpz_sub_ui (quot, quot, 1L)')]))
UNITS.append(glue('cdiv_r', 'r', CEIL + AR('-'), [(r'if \(rem == divisor\)', 'if (0)')]))
UNITS.append(glue('mod', 'r', '  /* mpz_mod: result in [0,|d|): add |d| when the truncated remainder is negative */\n'
                  '  __CPROVER_assert (V_val (r) == tr + (tr < 0 ? (vd < 0 ? -vd : vd) : 0), "[C02] mod: non-negative remainder, sign of the divisor ignored");\n'
                  '  __CPROVER_assert (V_val (r) >= 0 && V_val (r) < (vd < 0 ? -vd : vd), "[C02] mod: result in [0,|d|)");\n',
                  [(r'if \(divisor->_mp_size < 0\)', 'if (divisor->_mp_size > 0)')]))

# ------------------------------------------------------------------ mpz_tdiv_qr: limb-level glue over the ASSUMED shape contract of mpn_tdiv_qr
from c04_alloc import mpz_obj
from c03_mpn import copy_loop
from c03_mpz import norm_loop, split_alias
TQ_CONTRACT = '''_Bool g_div0_expected;
void __gmp_divide_by_zero (void) { __CPROVER_assert (g_div0_expected, "[C02] DIVIDE_BY_ZERO is raised only when the divisor is zero"); __CPROVER_assume (0); }
void __gmpz_tdiv_qr (mpz_ptr quot, mpz_ptr rem, mpz_srcptr num, mpz_srcptr den)
__CPROVER_requires (V_WF (quot) && V_WF (rem) && V_WF (num) && V_WF (den) && quot != rem && V_GHOSTS_OK)
__CPROVER_assigns (*quot, *rem, __CPROVER_object_whole (V_PTR (quot)), __CPROVER_object_whole (V_PTR (rem)), g_div_calls, g_dnum, g_dden, g_dnn, g_ddn, __CPROVER_alloca_object)
__CPROVER_frees (V_PTR (quot), V_PTR (rem))
__CPROVER_ensures (V_WF_AT (quot, gk) && V_WF_AT (rem, gk));
'''
TQ_H = '''void *__gmp_tmp_reentrant_alloc (struct tmp_reentrant_t **m, size_t n) { void *q = malloc (n); __CPROVER_assume (q != (void *) 0); return q; }
void __gmp_tmp_reentrant_free (struct tmp_reentrant_t *m) { }
void h_mpz_tdiv_qr (void) {
%(Q)s%(R)s%(N)s%(D)s  mpz_ptr q = &Q, r = &R; mpz_srcptr n = &N, d = &D;
ALIASBLOCK
  gk = nondet_long (); gj = nondet_long (); gh = nondet_long ();
  __CPROVER_assume (V_GHOSTS_OK && V_WF (q) && V_WF (r) && V_WF (n) && V_WF (d));
  long ns = V_SIZ (n), ds = V_SIZ (d), nl = V_ABS (ns), dl = V_ABS (ds);
  __CPROVER_assume (gh == (dl > 0 ? dl - 1 : 0));        /* third ghost position: the divisor's top limb (must survive a reallocation of an aliased output) */
  mp_limb_t Nk = gk < nl ? V_PTR (n)[gk] : 0, Dj = gj < dl ? V_PTR (d)[gj] : 0, Dk = gk < dl ? V_PTR (d)[gk] : 0;
  g_div0_expected = (dl == 0); g_div_calls = 0;
  __gmpz_tdiv_qr (q, r, n, d);
  __CPROVER_assert (dl != 0, "[C02] returned normally, so the divisor was not zero");
  long qs = V_SIZ (q), rs = V_SIZ (r);
  if (nl < dl)
    { /* |n| < |d|: quotient 0, remainder n */
      __CPROVER_assert (qs == 0 && g_div_calls == 0, "[C02] |n| < |d| by size: quotient 0 without dividing");
      __CPROVER_assert (rs == ns && (gk < nl ==> V_PTR (r)[gk] == Nk), "[C02][C05] |n| < |d| by size: remainder is n, limb for limb");
    }
  else
    {
      __CPROVER_assert (g_div_calls == 1 && g_dnn == nl && g_ddn == dl, "[C02] one multi-limb division of {n,nl} by {d,dl}");
      __CPROVER_assert (g_dnum == Nk && g_dden == Dj, "[C02][C05] the divider saw the original limbs of n and d (faithful temporary copies when an output aliases an input)");
      __CPROVER_assert (V_ABS (qs) == nl - dl + 1 || V_ABS (qs) == nl - dl, "[C02] quotient has nl-dl+1 or nl-dl limbs");
      __CPROVER_assert (qs == 0 || (qs < 0) == ((ns < 0) != (ds < 0)), "[C02] quotient sign = xor of the operand signs (truncation toward zero)");
      __CPROVER_assert (V_ABS (rs) <= dl && (rs == 0 || (rs < 0) == (ns < 0)), "[C02] remainder: at most dl limbs, sign of the dividend");
    }
  if (n != q && n != r) __CPROVER_assert ((long) V_SIZ (n) == ns && (gk < nl ==> V_PTR (n)[gk] == Nk), "[C05] dividend (not an output) unchanged");
  if (d != q && d != r) __CPROVER_assert ((long) V_SIZ (d) == ds && (gk < dl ==> V_PTR (d)[gk] == Dk), "[C05] divisor (not an output) unchanged");
}'''
_tq = dict(name='mpz_tdiv_qr', props=['C02', 'C04', 'C05', 'C15'], source='mpz/tdiv_qr.c', contracts=['mpn.h', 'mpz.h', 'div_assumed.h'], contract_text=TQ_CONTRACT,
           enforce=['__gmpz_tdiv_qr'], replace=['__gmpz_realloc', '__gmpn_tdiv_qr'],
           functions={'__gmpz_tdiv_qr': dict(loops={0: copy_loop(['gk', 'gj']), 1: copy_loop(['gk', 'gj']), 2: copy_loop(['gk', 'gj']), 3: norm_loop('rp', 'dl', 'gk')})},
           assumptions=['mpn_tdiv_qr: ASSUMED shape contract (contracts/div_assumed.h): preconditions nn >= dn >= 1, normal divisor top limb, non-overlap; quotient/remainder areas written; the QUOTIENT VALUE is not specified'],
           harness=TQ_H % dict(Q=mpz_obj('Q'), R=mpz_obj('R'), N=mpz_obj('N'), D=mpz_obj('D')), timeout=1500,
           selftest=[])
_TQ_OPTS = [('nq', '  n = q;'), ('nr', '  n = r;'), ('dq', '  d = q;'), ('dr', '  d = r;'), ('nqdr', '  n = q; d = r;'), ('nd', '  d = n;')]
for _t, _c in _TQ_OPTS:
    _v = dict(_tq); _v['name'] = 'mpz_tdiv_qr_' + _t
    _v['harness'] = _tq['harness'].replace('ALIASBLOCK', _c).replace('h_mpz_tdiv_qr (void)', 'h_mpz_tdiv_qr_%s (void)' % _t)
    UNITS.append(_v)
for _u in UNITS:
    if _u['name'] == 'mpz_tdiv_qr_dr':
        _u['selftest'] = [('__gmpz_tdiv_qr', r'if \(dp == rp \|\| dp == qp\)', 'if (dp == qp)'), ('__gmpz_tdiv_qr', r'ql -= +qp\[ql - 1\] == 0;', ';')]
    if _u['name'] == 'mpz_tdiv_qr_nq':
        _u['selftest'] = [('__gmpz_tdiv_qr', r'if \(np == rp \|\| np == qp\)', 'if (np == rp)')]

# ------------------------------------------------------------------ mpz_tdiv_r (same glue, quotient in temporary space)
TR_CONTRACT = '''_Bool g_div0_expected;
void __gmp_divide_by_zero (void) { __CPROVER_assert (g_div0_expected, "[C02] DIVIDE_BY_ZERO is raised only when the divisor is zero"); __CPROVER_assume (0); }
void __gmpz_tdiv_r (mpz_ptr rem, mpz_srcptr num, mpz_srcptr den)
__CPROVER_requires (V_WF (rem) && V_WF (num) && V_WF (den) && V_GHOSTS_OK)
__CPROVER_assigns (*rem, __CPROVER_object_whole (V_PTR (rem)), g_div_calls, g_dnum, g_dden, g_dnn, g_ddn, __CPROVER_alloca_object)
__CPROVER_frees (V_PTR (rem))
__CPROVER_ensures (V_WF_AT (rem, gk));
'''
TR_H = '''void *__gmp_tmp_reentrant_alloc (struct tmp_reentrant_t **m, size_t n) { void *q = malloc (n); __CPROVER_assume (q != (void *) 0); return q; }
void __gmp_tmp_reentrant_free (struct tmp_reentrant_t *m) { }
void h_mpz_tdiv_r (void) {
%(R)s%(N)s%(D)s  mpz_ptr r = &R; mpz_srcptr n = &N, d = &D;
ALIASBLOCK
  gk = nondet_long (); gj = nondet_long (); gh = nondet_long ();
  __CPROVER_assume (V_GHOSTS_OK && V_WF (r) && V_WF (n) && V_WF (d));
  long ns = V_SIZ (n), ds = V_SIZ (d), nl = V_ABS (ns), dl = V_ABS (ds);
  __CPROVER_assume (gh == (dl > 0 ? dl - 1 : 0));
  mp_limb_t Nk = gk < nl ? V_PTR (n)[gk] : 0, Dj = gj < dl ? V_PTR (d)[gj] : 0, Dk = gk < dl ? V_PTR (d)[gk] : 0;
  g_div0_expected = (dl == 0); g_div_calls = 0;
  __gmpz_tdiv_r (r, n, d);
  __CPROVER_assert (dl != 0, "[C02] returned normally, so the divisor was not zero");
  long rs = V_SIZ (r);
  if (nl < dl)
    __CPROVER_assert (g_div_calls == 0 && rs == ns && (gk < nl ==> V_PTR (r)[gk] == Nk), "[C02][C05] |n| < |d| by size: remainder is n, limb for limb, without dividing");
  else
    {
      __CPROVER_assert (g_div_calls == 1 && g_dnn == nl && g_ddn == dl && g_dnum == Nk && g_dden == Dj, "[C02][C05] one division of the original limbs of n by those of d");
      __CPROVER_assert (V_ABS (rs) <= dl && (rs == 0 || (rs < 0) == (ns < 0)), "[C02] remainder: at most dl limbs, sign of the dividend");
    }
  if (n != r) __CPROVER_assert ((long) V_SIZ (n) == ns && (gk < nl ==> V_PTR (n)[gk] == Nk), "[C05] dividend (not the output) unchanged");
  if (d != r) __CPROVER_assert ((long) V_SIZ (d) == ds && (gk < dl ==> V_PTR (d)[gk] == Dk), "[C05] divisor (not the output) unchanged");
}'''
_tr = dict(name='mpz_tdiv_r', props=['C02', 'C04', 'C05', 'C15'], source='mpz/tdiv_r.c', contracts=['mpn.h', 'mpz.h', 'div_assumed.h'], contract_text=TR_CONTRACT,
           enforce=['__gmpz_tdiv_r'], replace=['__gmpz_realloc', '__gmpn_tdiv_qr'],
           functions={'__gmpz_tdiv_r': dict(loops={0: copy_loop(['gk', 'gj']), 1: copy_loop(['gk', 'gj']), 2: copy_loop(['gk', 'gj']), 3: norm_loop('rp', 'dl', 'gk')})},
           assumptions=_tq['assumptions'], harness=TR_H % dict(R=mpz_obj('R'), N=mpz_obj('N'), D=mpz_obj('D')), timeout=1500, selftest=[])
for _t, _c in (('d3', ''), ('nr', '  n = r;'), ('dr', '  d = r;'), ('nd', '  d = n;')):
    _v = dict(_tr); _v['name'] = 'mpz_tdiv_r_' + _t
    _v['harness'] = _tr['harness'].replace('ALIASBLOCK', _c).replace('h_mpz_tdiv_r (void)', 'h_mpz_tdiv_r_%s (void)' % _t)
    if _t == 'dr':
        _v['selftest'] = [('__gmpz_tdiv_r', r'if \(dp == rp\)', 'if (0)')]
    if _t == 'nr':
        _v['tier'] = 'quick'; _v['selftest'] = [('__gmpz_tdiv_r', r'ns >= 0 \? dl : -dl', 'ns > 0 ? -dl : dl')]      # dropping the np == rp copy is benign: mpn_tdiv_qr permits np == rp
    UNITS.append(_v)
for _u in UNITS:
    if _u['name'] == 'mpz_tdiv_qr_nr':
        _u['tier'] = 'quick'

# ------------------------------------------------------------------ mpz_tdiv_q (quotient only; mpn_tdiv_q ASSUMED)
TQQ_CONTRACT = '''_Bool g_div0_expected;
void __gmp_divide_by_zero (void) { __CPROVER_assert (g_div0_expected, "[C02] DIVIDE_BY_ZERO is raised only when the divisor is zero"); __CPROVER_assume (0); }
void __gmpz_tdiv_q (mpz_ptr quot, mpz_srcptr num, mpz_srcptr den)
__CPROVER_requires (V_WF (quot) && V_WF (num) && V_WF (den) && V_GHOSTS_OK)
__CPROVER_assigns (*quot, __CPROVER_object_whole (V_PTR (quot)), g_div_calls, g_dnum, g_dden, g_dnn, g_ddn, __CPROVER_alloca_object)
__CPROVER_frees (V_PTR (quot))
__CPROVER_ensures (V_WF_AT (quot, gk));
'''
TQQ_H = '''void *__gmp_tmp_reentrant_alloc (struct tmp_reentrant_t **m, size_t n) { void *q = malloc (n); __CPROVER_assume (q != (void *) 0); return q; }
void __gmp_tmp_reentrant_free (struct tmp_reentrant_t *m) { }
void h_mpz_tdiv_q (void) {
%(Q)s%(N)s%(D)s  mpz_ptr q = &Q; mpz_srcptr n = &N, d = &D;
ALIASBLOCK
  gk = nondet_long (); gj = nondet_long (); gh = nondet_long ();
  __CPROVER_assume (V_GHOSTS_OK && V_WF (q) && V_WF (n) && V_WF (d));
  long ns = V_SIZ (n), ds = V_SIZ (d), nl = V_ABS (ns), dl = V_ABS (ds);
  __CPROVER_assume (gh == (dl > 0 ? dl - 1 : 0));
  mp_limb_t Nk = gk < nl ? V_PTR (n)[gk] : 0, Dj = gj < dl ? V_PTR (d)[gj] : 0, Dk = gk < dl ? V_PTR (d)[gk] : 0;
  g_div0_expected = (dl == 0); g_div_calls = 0;
  __gmpz_tdiv_q (q, n, d);
  __CPROVER_assert (dl != 0, "[C02] returned normally, so the divisor was not zero");
  long qs = V_SIZ (q);
  if (nl < dl)
    __CPROVER_assert (g_div_calls == 0 && qs == 0, "[C02] |n| < |d| by size: quotient 0 without dividing");
  else
    {
      __CPROVER_assert (g_div_calls == 1 && g_dnn == nl && g_ddn == dl && g_dnum == Nk && g_dden == Dj, "[C02][C05] one division of the original limbs of n by those of d");
      __CPROVER_assert (V_ABS (qs) == nl - dl + 1 || V_ABS (qs) == nl - dl, "[C02] quotient has nl-dl+1 or nl-dl limbs");
      __CPROVER_assert (qs == 0 || (qs < 0) == ((ns < 0) != (ds < 0)), "[C02] quotient sign = xor of the operand signs (truncation toward zero)");
    }
  if (n != q) __CPROVER_assert ((long) V_SIZ (n) == ns && (gk < nl ==> V_PTR (n)[gk] == Nk), "[C05] dividend (not the output) unchanged");
  if (d != q) __CPROVER_assert ((long) V_SIZ (d) == ds && (gk < dl ==> V_PTR (d)[gk] == Dk), "[C05] divisor (not the output) unchanged");
}'''
_tqq = dict(name='mpz_tdiv_q', props=['C02', 'C04', 'C05', 'C15'], source='mpz/tdiv_q.c', contracts=['mpn.h', 'mpz.h', 'div_assumed.h'], contract_text=TQQ_CONTRACT,
           enforce=['__gmpz_tdiv_q'], replace=['__gmpz_realloc', '__gmpn_tdiv_q'],
           functions={'__gmpz_tdiv_q': dict(loops={0: copy_loop(['gk', 'gj']), 1: copy_loop(['gk', 'gj'])})},
           assumptions=['mpn_tdiv_q: ASSUMED shape contract (contracts/div_assumed.h): preconditions nn >= dn >= 1, normal divisor top limb, quotient area separate from both operands; the QUOTIENT VALUE is not specified'],
           harness=TQQ_H % dict(Q=mpz_obj('Q'), N=mpz_obj('N'), D=mpz_obj('D')), timeout=1500, selftest=[])
for _t, _c in (('d3', ''), ('nq', '  n = q;'), ('dq', '  d = q;'), ('nd', '  d = n;')):
    _v = dict(_tqq); _v['name'] = 'mpz_tdiv_q_' + _t
    _v['harness'] = _tqq['harness'].replace('ALIASBLOCK', _c).replace('h_mpz_tdiv_q (void)', 'h_mpz_tdiv_q_%s (void)' % _t)
    if _t == 'dq':
        _v['selftest'] = [('__gmpz_tdiv_q', r'if \(dp == qp\)', 'if (0)')]
    if _t == 'nq':
        _v['tier'] = 'quick'; _v['selftest'] = [('__gmpz_tdiv_q', r'if \(np == qp\)', 'if (0)'), ('__gmpz_tdiv_q', r'\(ns \^ ds\) >= 0 \? ql : -ql', '(ns ^ ds) > 0 ? ql : -ql')]
    UNITS.append(_v)

# ------------------------------------------------------------------ mpz_{t,f,c}div_ui and mpz_{t,f,c}div_r_ui over the ASSUMED contract of mpn_mod_1
MOD1_CONTRACT = '''_Bool g_div0_expected; int g_m1_calls; mp_limb_t g_m1_u, g_m1_d, g_m1_res; long g_m1_n;
void __gmp_divide_by_zero (void) { __CPROVER_assert (g_div0_expected, "[C02] DIVIDE_BY_ZERO is raised only when the divisor is zero"); __CPROVER_assume (0); }
/* ASSUMED (not proved by any unit): mpn_mod_1 ({up,n}, d) for n >= 1, d != 0 returns {up,n} mod d, a limb below d (an abstract value g_m1_res here) */
mp_limb_t __gmpn_mod_1 (mp_srcptr up, mp_size_t n, mp_limb_t d)
__CPROVER_requires (1 <= n && n <= V_ZMAX && V_R_OK (up, n) && d != 0 && 0 <= gk)
__CPROVER_assigns (g_m1_calls, g_m1_u, g_m1_d, g_m1_res, g_m1_n)
__CPROVER_ensures (g_m1_calls == __CPROVER_old (g_m1_calls) + 1 && g_m1_n == n && g_m1_d == d && g_m1_u == V_OLDSEL (gk < n, up + gk))
__CPROVER_ensures (__CPROVER_return_value == g_m1_res && g_m1_res < d);
'''
def _ui_unit(kind, with_rem):
    f = '__gmpz_%sdiv_%sui' % (kind, 'r_' if with_rem else '')
    adj = {'t': '0', 'f': '(ns < 0)', 'c': '(ns >= 0)'}[kind]                 # when the truncated remainder t != 0 is replaced by d - t
    rsign = {'t': '(ns < 0)', 'f': '0', 'c': '1'}[kind]                      # sign of a non-zero remainder: dividend / non-negative / non-positive
    what = {'t': 'truncation: remainder has the sign of n, |r| = |n| mod d', 'f': 'floor: 0 <= r < d, r = d - (|n| mod d) for negative n with a non-zero remainder',
            'c': 'ceiling: -d < r <= 0, |r| = d - (|n| mod d) for non-negative n with a non-zero remainder'}[kind]
    if with_rem:
        contract = '''mpir_ui %s (mpz_ptr rem, mpz_srcptr dividend, mpir_ui divisor)
__CPROVER_requires (V_WF (rem) && V_WF (dividend) && V_GHOSTS_OK)
__CPROVER_assigns (*rem, __CPROVER_object_whole (V_PTR (rem)), g_m1_calls, g_m1_u, g_m1_d, g_m1_res, g_m1_n)
__CPROVER_frees (V_PTR (rem))
__CPROVER_ensures (V_WF_AT (rem, gk));
''' % f
        objs = mpz_obj('R') + mpz_obj('N') + '  mpz_ptr r = &R; mpz_srcptr n = &N;\n  if (nondet_bool ()) n = r;\n'
        call = '%s (r, n, d)' % f
        wf = ' && V_WF (r)'
    else:
        contract = '''mpir_ui %s (mpz_srcptr dividend, mpir_ui divisor)
__CPROVER_requires (V_WF (dividend) && V_GHOSTS_OK)
__CPROVER_assigns (g_m1_calls, g_m1_u, g_m1_d, g_m1_res, g_m1_n);
''' % f
        objs = mpz_obj('N') + '  mpz_srcptr n = &N;\n'
        call = '%s (n, d)' % f
        wf = ''
    h = '''void h_%(name)s (void) {
%(objs)s  mpir_ui d = nondet_ulong ();
  gk = nondet_long (); gj = nondet_long (); gh = nondet_long ();
  __CPROVER_assume (V_GHOSTS_OK && V_WF (n)%(wf)s);
  long ns = V_SIZ (n), nl = V_ABS (ns); mp_limb_t Nk = gk < nl ? V_PTR (n)[gk] : 0;
  g_div0_expected = (d == 0); g_m1_calls = 0;
  mpir_ui ret = %(call)s;
  __CPROVER_assert (d != 0, "[C02] returned normally, so the divisor was not zero");
  if (ns == 0)
    __CPROVER_assert (ret == 0 && g_m1_calls == 0, "[C02] 0 / d: remainder 0");
  else
    {
      __CPROVER_assert (g_m1_calls == 1 && g_m1_n == nl && g_m1_d == d && g_m1_u == Nk, "[C02] one single-limb reduction of the limbs of |n| by d");
      mp_limb_t t = g_m1_res;
      __CPROVER_assert (ret == ((t != 0 && %(adj)s) ? d - t : t) && ret < d, "[C02] return value is |r| - %(what)s");
    }
%(rempost)s}'''
    rempost = ''
    if with_rem:
        rempost = '''  __CPROVER_assert (ret == 0 ? V_SIZ (r) == 0 : (V_ABS ((long) V_SIZ (r)) == 1 && V_PTR (r)[0] == ret && (V_SIZ (r) < 0) == (_Bool) %s), "[C02] remainder stored: magnitude = return value, sign per rounding rule");
  if (n != r) __CPROVER_assert ((long) V_SIZ (n) == ns && (gk < nl ==> V_PTR (n)[gk] == Nk), "[C05] dividend (not the output) unchanged");
''' % rsign
    name = f[len('__g'):].replace('mpz_', 'mpz_')
    name = 'mpz_%sdiv_%sui' % (kind, 'r_' if with_rem else '')
    muts = {('t', False): [(r'return rl;', 'return rl + (ns < 0);')],
            ('f', False): [(r'if \(ns < 0\)', 'if (ns <= 0 && rl > 1)')],
            ('c', False): [(r'if \(ns >= 0\)', 'if (ns > 0 || rl == 1)')],
            ('t', True): [(r'ns >= 0 \? 1 : -1', 'ns >= 0 ? 1 : 1')],
            ('f', True): [(r'rl = divisor - rl;', 'rl = divisor - rl - (rl == 1);')],
            ('c', True): [(r'\(\(rem\)->_mp_size\) = -1;', '((rem)->_mp_size) = 1;')]}[(kind, with_rem)]
    return dict(name=name, props=['C02', 'C04', 'C05', 'C15'] if with_rem else ['C02', 'C15'], source='mpz/%sdiv_%sui.c' % (kind, 'r_' if with_rem else ''),
                contracts=['mpn.h', 'mpz.h'], contract_text=MOD1_CONTRACT + contract, enforce=[f], replace=['__gmpn_mod_1'],
                assumptions=['mpn_mod_1: ASSUMED contract (n >= 1, d != 0; returns an abstract value below d that stands for {up,n} mod d); the remainder VALUE is not specified'],
                harness=h % dict(name=name, objs=objs, wf=wf, call=call, adj=adj, what=what, rempost=rempost), timeout=600,
                selftest=[(f, a, b) for a, b in muts])
for _k in 'tfc':
    for _wr in (False, True):
        UNITS.append(_ui_unit(_k, _wr))

# ------------------------------------------------------------------ mpz_{t,f,c}div_q_ui and _qr_ui over the ASSUMED contract of mpn_divrem_1
# the adjustment step q+1 (MPN_INCR_U) is PROVED on the limbs: trailing all-ones limbs become 0, the first other limb is incremented, the rest is unchanged
D1_CONTRACT = '''_Bool g_div0_expected; int g_d1_calls; mp_limb_t g_d1_u, g_d1_d, g_d1_r, g_d1_qk, g_d1_qj, g_d1_qt; long g_d1_n, g_d1_nm;
void __gmp_divide_by_zero (void) { __CPROVER_assert (g_div0_expected, "[C02] DIVIDE_BY_ZERO is raised only when the divisor is zero"); __CPROVER_assume (0); }
/* ASSUMED (not proved by any unit): mpn_divrem_1 (qp, 0, {np,nn}, d) for nn >= 1, d != 0, qp == np or separate: nn quotient limbs (abstract; the limbs at gk, gj are
   captured), remainder r < d.  Elementary facts about a true quotient q = floor(N/d), N < B^nn with non-zero top limb:
   (a) at most one high zero limb; (b) r != 0 ==> q != B^nn - 1, so q has a lowest limb g_d1_nm that is not all ones (all limbs below it are: delivered at gh) */
mp_limb_t __gmpn_divrem_1 (mp_ptr qp, mp_size_t qxn, mp_srcptr np, mp_size_t nn, mp_limb_t d)
__CPROVER_requires (qxn == 0 && 1 <= nn && nn <= V_ZMAX && d != 0 && V_W_OK (qp, nn) && V_R_OK (np, nn) && V_SAME_OR_SEPARATE (qp, np, nn) && V_GHOSTS_OK)
__CPROVER_assigns (__CPROVER_object_upto (qp, nn * 8), g_d1_calls, g_d1_u, g_d1_d, g_d1_r, g_d1_qk, g_d1_qj, g_d1_qt, g_d1_n, g_d1_nm)
__CPROVER_ensures (g_d1_calls == __CPROVER_old (g_d1_calls) + 1 && g_d1_n == nn && g_d1_d == d && g_d1_u == V_OLDSEL (gk < nn, np + gk))
__CPROVER_ensures (__CPROVER_return_value == g_d1_r && g_d1_r < d)
__CPROVER_ensures ((gk < nn ==> g_d1_qk == qp[gk]) && (gj < nn ==> g_d1_qj == qp[gj]) && g_d1_qt == qp[nn - 1])
__CPROVER_ensures ((V_OLDSEL (nn >= 1, np + (nn - 1)) != 0 && nn >= 2 && qp[nn - 1] == 0) ==> qp[nn - 2] != 0)
__CPROVER_ensures (g_d1_r != 0 ==> (0 <= g_d1_nm && g_d1_nm < nn && qp[g_d1_nm] != ~(mp_limb_t) 0 && (gh < g_d1_nm ==> qp[gh] == ~(mp_limb_t) 0)));
'''
def _incr_loop(first):
    T = '(__p - qp)' if first else '((__p - qp) + 1)'
    X = lambda g, q: '((%s < TT ==> qp[%s] == 0) && ((TT <= %s && %s < nn) ==> qp[%s] == %s))' % (g, g, g, g, g, q)
    inv = ('(__CPROVER_same_object (__p, qp) && LO <= TT && TT <= g_d1_nm && g_d1_nm < nn && nn == g_d1_n && qp == quot->_mp_d && qp[g_d1_nm] != ~(mp_limb_t) 0 && V_W_OK (qp, nn) && '
           + X('gk', 'g_d1_qk') + ' && ' + X('gj', 'g_d1_qj') + ' && ' + X('(nn - 1)', 'g_d1_qt') + ')').replace('TT', T).replace('LO', '0' if first else '1')
    hv = ('{ long V_t = nondet_long (); __CPROVER_assume (%d <= V_t && V_t <= g_d1_nm); __p = qp + V_t%s; }' % (0 if first else 1, '' if first else ' - 1'))
    return dict(scalars=[], havoc_targets=['__p'], havoc=hv, havoc_inv={'V_t': T}, slices=[('qp', 'nn * 8')], inv=inv, dec='(g_d1_nm - %s)' % T,
                head='__CPROVER_assume (%s < g_d1_nm ==> qp[%s] == ~(mp_limb_t) 0);' % (T, T))
def _qui_unit(kind, with_rem):
    f = '__gmpz_%sdiv_q%s_ui' % (kind, 'r' if with_rem else '')
    name = 'mpz_%sdiv_q%s_ui' % (kind, 'r' if with_rem else '')
    adj = {'t': '0', 'f': '(ns < 0)', 'c': '(ns >= 0)'}[kind]
    rsign = {'t': '(ns < 0)', 'f': '0', 'c': '1'}[kind]
    if with_rem:
        sig = '(mpz_ptr quot, mpz_ptr rem, mpz_srcptr dividend, mpir_ui divisor)'
        req = 'V_WF (quot) && V_WF (rem) && V_WF (dividend) && quot != rem'
        asg = '*quot, __CPROVER_object_whole (V_PTR (quot)), rem->_mp_size, __CPROVER_object_upto (V_PTR (rem), 8)'
        ens = 'V_WF_AT (quot, gk) && V_WF_AT (quot, gj) && V_WF_AT (rem, gk)'
        objs = mpz_obj('Q') + mpz_obj('R') + mpz_obj('N') + '  mpz_ptr q = &Q, r = &R; mpz_srcptr n = &N;\nALIASBLOCK\n'
        call = '%s (q, r, n, d)' % f
        wf = 'V_WF (q) && V_WF (r) && V_WF (n)'
        aliases = (('', ''), ('nq', '  n = q;'), ('nr', '  n = r;'))
    else:
        sig = '(mpz_ptr quot, mpz_srcptr dividend, mpir_ui divisor)'
        req = 'V_WF (quot) && V_WF (dividend)'
        asg = '*quot, __CPROVER_object_whole (V_PTR (quot))'
        ens = 'V_WF_AT (quot, gk) && V_WF_AT (quot, gj)'
        objs = mpz_obj('Q') + mpz_obj('N') + '  mpz_ptr q = &Q; mpz_srcptr n = &N;\nALIASBLOCK\n'
        call = '%s (q, n, d)' % f
        wf = 'V_WF (q) && V_WF (n)'
        aliases = (('', ''), ('nq', '  n = q;'))
    contract = '''mpir_ui %s %s
__CPROVER_requires (%s && V_GHOSTS_OK)
__CPROVER_assigns (%s, g_d1_calls, g_d1_u, g_d1_d, g_d1_r, g_d1_qk, g_d1_qj, g_d1_qt, g_d1_n, g_d1_nm)
__CPROVER_frees (V_PTR (quot))
__CPROVER_ensures (%s);
''' % (f, sig, req, asg, ens)
    h = '''void h_%(name)s (void) {
%(objs)s  mpir_ui d = nondet_ulong ();
  gk = nondet_long (); gj = nondet_long (); gh = nondet_long ();
  __CPROVER_assume (V_GHOSTS_OK && %(wf)s);
  long ns = V_SIZ (n), nl = V_ABS (ns); mp_limb_t Nk = gk < nl ? V_PTR (n)[gk] : 0;
  g_div0_expected = (d == 0); g_d1_calls = 0;
  mpir_ui ret = %(call)s;
  __CPROVER_assert (d != 0, "[C02] returned normally, so the divisor was not zero");
  long qs = V_SIZ (q), ql = V_ABS (qs);
  if (ns == 0)
    __CPROVER_assert (ret == 0 && qs == 0 && g_d1_calls == 0, "[C02] 0 / d: quotient 0, remainder 0");
  else
    {
      __CPROVER_assert (g_d1_calls == 1 && g_d1_n == nl && g_d1_d == d && g_d1_u == Nk, "[C02][C05] one single-limb division of the original limbs of |n| by d");
      mp_limb_t t = g_d1_r; _Bool adj = (t != 0 && %(adj)s);
      __CPROVER_assert (ret == (adj ? d - t : t) && ret < d, "[C02] return value is |r| per the rounding rule");
      __CPROVER_assert ((ql == nl || ql == nl - 1) && (qs == 0 || (qs < 0) == (ns < 0)), "[C02] quotient: nl or nl-1 limbs, sign of the dividend (the divisor is positive)");
      if (!adj)
        __CPROVER_assert (gk < nl ==> V_PTR (q)[gk] == g_d1_qk, "[C02] no adjustment: the truncated quotient limb for limb");
      else
        /* |q| = |q_trunc| + 1: limbs below the lowest not-all-ones limb become 0, that limb is incremented, the rest is unchanged */
        __CPROVER_assert (gk < nl ==> V_PTR (q)[gk] == (gk < g_d1_nm ? (mp_limb_t) 0 : (gk == g_d1_nm ? g_d1_qk + 1 : g_d1_qk)), "[C02] adjustment: |q| = |q_trunc| + 1 as a carry chain on the limbs");
    }
%(rempost)s  if (n != q%(nr)s) __CPROVER_assert ((long) V_SIZ (n) == ns && (gk < nl ==> V_PTR (n)[gk] == Nk), "[C05] dividend (not an output) unchanged");
}'''
    rempost = ''
    if with_rem:
        rempost = '''  __CPROVER_assert (ret == 0 ? V_SIZ (r) == 0 : (V_ABS ((long) V_SIZ (r)) == 1 && V_PTR (r)[0] == ret && (V_SIZ (r) < 0) == (_Bool) %s), "[C02] remainder stored: magnitude = return value, sign per rounding rule");
''' % rsign
    loops = {} if kind == 't' else {0: _incr_loop(True), 1: _incr_loop(False)}
    muts = {'t': [(r'qn = nn - \(qp\[nn - 1\] == 0\);', 'qn = nn;')],
            'f': [(r'rl != 0 && ns < 0' if not with_rem else r'if \(ns < 0\)', 'rl != 0 && ns <= 0 && rl > 1' if not with_rem else 'if (ns < 0 && rl > 1)'), (r'ns >= 0 \? qn : -qn', 'ns >= 0 ? qn : qn')],
            'c': [(r'rl != 0 && ns >= 0' if not with_rem else r'if \(ns >= 0\)', 'ns >= 0' if not with_rem else 'if (ns <= 0)')]}[kind]
    base = dict(name=name, props=['C02', 'C04', 'C05', 'C15'], source='mpz/%sdiv_q%s_ui.c' % (kind, 'r' if with_rem else ''),
                contracts=['mpn.h', 'mpz.h'], contract_text=D1_CONTRACT + contract, enforce=[f], replace=['__gmpn_divrem_1', '__gmpz_realloc'],
                functions={f: dict(loops=loops)},
                assumptions=['mpn_divrem_1: ASSUMED contract (abstract quotient limbs and remainder r < d; at most one high zero quotient limb; r != 0 ==> the quotient is not all ones, with the lowest not-all-ones limb as a ghost whose defining "all limbs below are all ones" is instantiated at the limb each iteration of the increment reads); the quotient VALUE is not specified'],
                harness=h % dict(name=name, objs=objs, wf=wf, call=call, adj=adj, rempost=rempost, nr=' && n != r' if with_rem else ''), timeout=900,
                selftest=[(f, a, b) for a, b in muts])
    out = []
    for t, c in aliases:
        v = dict(base); v['name'] = name + ('_' + t if t else '')
        v['harness'] = base['harness'].replace('ALIASBLOCK', c).replace('h_%s (void)' % name, 'h_%s (void)' % v['name'])
        if t: v['selftest'] = []
        out.append(v)
    return out
for _k in 'tfc':
    for _wr in (False, True):
        UNITS.extend(_qui_unit(_k, _wr))

# ------------------------------------------------------------------ mpz_divisible_2exp_p: 1 exactly when the low d bits of |a| are zero (a == 0 included)
UNITS.append(dict(name='mpz_divisible_2exp_p', props=['C02', 'C04', 'C15'], source='mpz/divis_2exp.c', contracts=['mpn.h', 'mpz.h'],
    contract_text='''int __gmpz_divisible_2exp_p (mpz_srcptr a, mp_bitcnt_t d)
__CPROVER_requires (V_WF (a) && 0 <= gj && gj <= V_NMAX)
__CPROVER_assigns (g_hd)
__CPROVER_ensures (__CPROVER_return_value == 0 || __CPROVER_return_value == 1)
/* d reaches past the top of a: only 0 is divisible */
__CPROVER_ensures ((unsigned long) V_ABSIZ (a) <= d / 64 ==> __CPROVER_return_value == (V_SIZ (a) == 0))
/* otherwise: answer 1 means every whole limb below d is zero (at gj) and the partial limb has its low d mod 64 bits clear */
__CPROVER_ensures (((unsigned long) V_ABSIZ (a) > d / 64 && __CPROVER_return_value == 1) ==> (((unsigned long) gj < d / 64 ==> V_PTR (a)[gj] == 0) && (V_PTR (a)[d / 64] & ((1UL << (d % 64)) - 1)) == 0))
/* answer 0 names a witness: a non-zero whole limb g_hd below d, or (g_hd == d/64) a set bit among the low d mod 64 bits of the partial limb */
__CPROVER_ensures (((unsigned long) V_ABSIZ (a) > d / 64 && __CPROVER_return_value == 0) ==> (0 <= g_hd && (unsigned long) g_hd <= d / 64
      && ((unsigned long) g_hd < d / 64 ? V_PTR (a)[g_hd] != 0 : (V_PTR (a)[d / 64] & ((1UL << (d % 64)) - 1)) != 0)));
''', enforce=['__gmpz_divisible_2exp_p'],
    functions={'__gmpz_divisible_2exp_p': dict(
        inserts=[(r'(?<=if \(ap\[i\] != 0\))\s*return 0;', r' { g_hd = i; \g<0> }'), (r'dbits = d % \(64 - 0\);', r'g_hd = dlimbs; \g<0>')],
        loops={0: dict(scalars=['i', 'g_hd'], inv='(0 <= i && i <= dlimbs && dlimbs == (mp_size_t) (d / 64) && dlimbs < asize && asize == V_ABSIZ (a) && ap == V_PTR (a) && ((0 <= gj && gj < i) ==> ap[gj] == 0))', dec='(dlimbs - i)')})},
    harness='void h_mpz_divisible_2exp_p (void) {\n' + mpz_obj('A') + '  mp_bitcnt_t d = nondet_ulong (); gj = nondet_long ();\n  __gmpz_divisible_2exp_p (&A, d);\n}', timeout=600,
    selftest=[('__gmpz_divisible_2exp_p', r'for \(i = 0; i < dlimbs; i\+\+\)', 'for (i = 1; i < dlimbs; i++)'), ('__gmpz_divisible_2exp_p', r'if \(asize <= dlimbs\)', 'if (asize < dlimbs)')]))

# ------------------------------------------------------------------ the _2exp division forms: bounded native stand-in (labelled bounded, never counted as proof)
UNITS.append(dict(
    name='mpz_div_2exp_enum', kind='native', props=['C02', 'C05'], source='mpz/tdiv_q_2exp.c', more_sources=['mpz/tdiv_r_2exp.c', 'mpz/cfdiv_q_2exp.c', 'mpz/cfdiv_r_2exp.c'],
    driver='replay/smallops_enum.c', args=['div2exp'],
    bounded='BOUNDED (not proof): complete enumeration of mpz_{t,f,c}div_{q,r}_2exp over operands of 0..3 limbs over the limb alphabet {0, 1, 5, 2^63, 2^64-5, 2^64-1}, both signs (431 values) x 19 shift counts around the limb '
            'boundaries 0..260 x (w == u, w != u with a one-limb or a generous destination): 98268 calls',
    desc='[C02][C05] u == q * 2^cnt + r with |r| < 2^cnt and the remainder sign of the rounding mode (truncation: sign of u; floor: r >= 0; ceiling: r <= 0), which defines q and r uniquely; result normalised; u unchanged unless it is the destination',
    assumptions=['bounded stand-in: the _2exp forms have no proof unit (mpn_rshift at a symbolic limb offset, the pattern that left mpz_mul_2exp undecided); the check uses mpz_mul_2exp, mpz_sub, mpz_setbit, mpz_cmpabs, mpz_divisible_2exp_p of the same library to evaluate the defining equation'],
    timeout=300, selftest=[]))

# ------------------------------------------------------------------ mpz_tdiv_q_2exp (proved: 4 partitions by branch and aliasing, 50-145 s each): |w| = |u| >> cnt limb-wise, sign of u
from c04_alloc import mpz_obj as _mpz_obj
from c03_mpn import copy_loop as _copy_loop
_TQ_H = '''void h_%(name)s (void) {
%(W)s%(U)s%(alias)s
  mp_bitcnt_t cnt = nondet_ulong ();
  gk = nondet_long (); gj = 0; gh = 0;
  __CPROVER_assume (0 <= gk && gk < V_ZMAX && V_WF (w) && V_WF (u));
  long su = V_SIZ (u), un = V_ABS (su), lc = (long) (cnt / 64); unsigned c = cnt %% 64;
  __CPROVER_assume (%(part)s);
  mp_limb_t Ua = (gk + lc < un && gk + lc >= 0) ? V_PTR (u)[gk + lc] : 0, Ub = (gk + lc + 1 < un && gk + lc + 1 >= 0) ? V_PTR (u)[gk + lc + 1] : 0;
  mp_limb_t Utop = un > 0 ? V_PTR (u)[un - 1] : 0;
  __gmpz_tdiv_q_2exp (w, u, cnt);
  long sw = V_SIZ (w), wn = V_ABS (sw);
  mp_limb_t Wk = gk < wn ? V_PTR (w)[gk < V_ALLOC (w) ? gk : 0] : 0;
  mp_limb_t want = c ? ((Ua >> c) | (Ub << (64 - c))) : Ua;
  if (un <= lc)
    __CPROVER_assert (sw == 0, "[C02] |u| < 2^cnt: quotient 0");
  else
    {
      long full = un - lc, exp = (c && (Utop >> c) == 0) ? full - 1 : full;
      __CPROVER_assert (wn == exp && (wn == 0 || (sw < 0) == (su < 0)), "[C02] size = limbs of |u| >> cnt, sign of u");
      __CPROVER_assert (gk < full ==> Wk == want, "[C02][C05] limb gk of |w| = bits [cnt + 64 gk, cnt + 64 gk + 64) of |u| (truncation toward zero)");
    }
  if (u != w) __CPROVER_assert ((long) V_SIZ (u) == su, "[C05] source unchanged");
}'''
_TQ_CONTRACT = '''void __gmpz_tdiv_q_2exp (mpz_ptr w, mpz_srcptr u, mp_bitcnt_t cnt)
__CPROVER_requires (V_WF (w) && V_WF (u) && V_GHOSTS_OK)
__CPROVER_assigns (*w, __CPROVER_object_whole (V_PTR (w)), gk)
__CPROVER_frees (V_PTR (w))
__CPROVER_ensures (V_WF_AT (w, gk) && gk == __CPROVER_old (gk));
'''
for _at, _ac in (('', '  mpz_ptr w = &W; mpz_srcptr u = &U;\n'), ('wu', '  mpz_ptr w = &W; mpz_srcptr u = w;\n')):
    for _pt, _pc in (('bits', 'c != 0'), ('limbs', 'c == 0')):
        _nm = 'mpz_tdiv_q_2exp_' + _pt + ('_' + _at if _at else '')
        UNITS.append(dict(
            name=_nm, props=['C02', 'C05', 'C04', 'C15'], source='mpz/tdiv_q_2exp.c', contracts=['mpn.h', 'mpz.h'], contract_text=_TQ_CONTRACT,
            enforce=['__gmpz_tdiv_q_2exp'], replace=['__gmpz_realloc', '__gmpn_rshift'], replay='mpz_tdiv_q_2exp',
            assumptions=['partition: %s, %s' % (_pc, _at or 'w != u')],
            functions={'__gmpz_tdiv_q_2exp': dict(
                # mpn_rshift's contract speaks about its own position gk < n: a harness position beyond the quotient is mapped to 0 for the call (nothing is claimed about it)
                inserts=[(r'__gmpn_rshift \(wp, up \+ limb_cnt, wsize, cnt\);', r'{ long V_sv = gk; gk = gk < wsize ? gk : 0; \g<0> gk = V_sv; }')],
                loops={0: _copy_loop('gk', 'incr')} if _pt == 'limbs' else {0: 'unreachable'})},
            harness=_TQ_H % dict(name=_nm, W=_mpz_obj('W'), U=_mpz_obj('U'), alias=_ac, part=_pc), timeout=900,
            selftest=[('__gmpz_tdiv_q_2exp', r'wsize -= wp\[wsize - 1\] == 0;', ';')] if _pt == 'bits' and not _at else []))
