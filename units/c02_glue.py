"""C02 core: rounding glue of the floor/ceiling/mod families over assumed truncating division (token G-proofs)."""
UNITS = []
OBJ = lambda n: '  __mpz_struct %s; mp_limb_t L_%s[1]; %s._mp_d = L_%s; %s._mp_alloc = 1; %s._mp_size = 0;\n' % (n, n, n, n, n, n)
ASM = ['mpz_tdiv_qr / mpz_tdiv_q / mpz_tdiv_r: ASSUMED contract on value tokens (uninterpreted truncating quotient and remainder with: r == 0 or sgn r == sgn n, |r| < |d|, DIVIDE_BY_ZERO iff d == 0)',
       'mpz_add / mpz_sub / mpz_add_ui / mpz_sub_ui / mpz_set: token-level stubs (their limb-exact contracts are proved in units mpz_add, mpz_sub, mpz_set; add_ui/sub_ui assumed)',
       'values as a 64-bit window: |token| < 2^61 so interpreted +,- cannot wrap (uninterpreted parts are width-independent)']
def glue(fn, outs, post, muts):
    """outs: 'qr' | 'q' | 'r'"""
    name = 'mpz_' + fn
    args = {'qr': 'q, r, n, d', 'q': 'q, n, d', 'r': 'r, n, d'}[outs]
    # alias partitions: n in {N, outputs}, d in {D, outputs, n}
    alias = []
    outl = {'qr': ['q', 'r'], 'q': ['q'], 'r': ['r']}[outs]
    alias.append('  mpz_srcptr n = &N, d = &D;')
    for o in outl:
        alias.append('  if (nondet_bool ()) n = %s;' % o)
    for o in outl:
        alias.append('  if (nondet_bool ()) d = %s;' % o)
    alias.append('  if (nondet_bool ()) d = n;')
    h = ['void h_%s (void) {' % name, OBJ('Q'), OBJ('R'), OBJ('N'), OBJ('D'), '  mpz_ptr q = &Q, r = &R;'] + alias + ['''
  V_tok vn = nondet_long (), vd = nondet_long ();
  __CPROVER_assume (V_INRANGE (vn) && V_INRANGE (vd));
  if (d == n) vd = vn;
  V_setval ((mpz_ptr) &Q, 0); V_setval ((mpz_ptr) &R, 0); V_setval ((mpz_ptr) &N, 0); V_setval ((mpz_ptr) &D, 0);
  V_setval ((mpz_ptr) n, vn); V_setval ((mpz_ptr) d, vd);
  g_div0_expected = (vd == 0);
  __gmpz_%s (%s);
  __CPROVER_assert (vd != 0, "[C02] returned normally, so the divisor was not zero");
  V_tok tq = __CPROVER_uninterpreted_tdivq (vn, vd), tr = __CPROVER_uninterpreted_tdivr (vn, vd);
%s
  if (n == &N) __CPROVER_assert (V_val (&N) == vn, "[C05] dividend (not an output) unchanged");
  if (d == &D) __CPROVER_assert (V_val (&D) == vd, "[C05] divisor (not an output) unchanged");
}''' % (fn, args, post)]
    return dict(name=name, props=['C02', 'C05'], source='mpz/%s.c' % fn, contracts=['tokens.h'], functions={'__gmpz_' + fn: {}},
                harness='\n'.join(h), unwind=18, assumptions=ASM, selftest=[('__gmpz_' + fn,) + m for m in muts])
FLOOR = '  _Bool adj = tr != 0 && ((vn < 0) != (vd < 0));   /* floor: q = trunc - 1, r = rem + d when the exact quotient is negative and inexact */\n'
CEIL = '  _Bool adj = tr != 0 && ((vn < 0) == (vd < 0));   /* ceiling: q = trunc + 1, r = rem - d when the exact quotient is positive and inexact */\n'
AQ = lambda sgn: '  __CPROVER_assert (V_val (q) == tq %s (adj ? 1 : 0), "[C02] quotient rounded in the documented direction");\n' % sgn
AR = lambda sgn: '  __CPROVER_assert (V_val (r) == tr %s (adj ? vd : 0), "[C02] remainder = n - q*d: sign and range as documented");\n' % sgn
UNITS.append(glue('fdiv_qr', 'qr', FLOOR + AQ('-') + AR('+'), [(r'xsize < 0 && rem', 'xsize <= 0 && rem'), (r'__gmpz_add \(rem, rem, divisor\)', '__gmpz_sub (rem, rem, divisor)'), (r'quot == divisor \|\| rem == divisor', 'quot == divisor')]))
UNITS.append(glue('fdiv_q', 'q', FLOOR + AQ('-'), [(r'\(divisor_size \^ dividend_size\) < 0', '(divisor_size ^ dividend_size) >= 0')]))
UNITS.append(glue('fdiv_r', 'r', FLOOR + AR('+'), [(r'if \(rem == divisor\)', 'if (0)')]))
UNITS.append(glue('cdiv_qr', 'qr', CEIL + AQ('+') + AR('-'), [(r'xsize >= 0 && rem', 'xsize > 0 && rem'), (r'quot == divisor \|\| rem == divisor', 'rem == divisor')]))
UNITS.append(glue('cdiv_q', 'q', CEIL + AQ('+'), [(r'__gmpz_add_ui \(quot, quot, 1L\)', '__gmpz_sub_ui (quot, quot, 1L)')]))
UNITS.append(glue('cdiv_r', 'r', CEIL + AR('-'), [(r'if \(rem == divisor\)', 'if (0)')]))
UNITS.append(glue('mod', 'r', '  /* mpz_mod: result in [0,|d|): add |d| when the truncated remainder is negative */\n'
                  '  __CPROVER_assert (V_val (r) == tr + (tr < 0 ? (vd < 0 ? -vd : vd) : 0), "[C02] mod: non-negative remainder, sign of the divisor ignored");\n'
                  '  __CPROVER_assert (V_val (r) >= 0 && V_val (r) < (vd < 0 ? -vd : vd), "[C02] mod: result in [0,|d|)");\n',
                  [(r'if \(divisor->_mp_size < 0\)', 'if (divisor->_mp_size > 0)')]))
