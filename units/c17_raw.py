"""C17 core: mpz_inp_raw (header decode, body placement, limb reversal, short-read paths) and mpz_out_raw."""
from c04_alloc import mpz_obj
from c03_mpz import norm_loop
UNITS = []
CT = ['mpn.h', 'mpz.h', 'c11.h', 'mpq.h', 'c17.h']
FREAD = '''/* stream model: transfers an arbitrary number of items <= requested and leaves arbitrary bytes in the buffer
   (every truncation point, every content).  ISO C contract of fread, assumed. */
size_t fread (void *p, size_t size, size_t n, FILE *fp)
{
  __CPROVER_assert (size * n == 0 || __CPROVER_w_ok (p, size * n), "[C04][C17] fread: destination holds size*n bytes");
  size_t got = nondet_ulong (); __CPROVER_assume (got <= n);
  if (size * n > 0) __CPROVER_havoc_slice (p, size * n);
  return got;
}
'''
UNITS.append(dict(
    name='mpz_inp_raw_p', props=['C17', 'C04', 'C15'], source='mpz/inp_raw.c', contracts=CT, enforce=['mpz_inp_raw_p'], replace=['__gmpz_realloc'],
    # '(mp_size_t)(-1) << 32' (sign extension) shifts a negative value: formally undefined, gcc: arithmetic shift
    drop_checks=['--undefined-shift-check'], cbmc_flags=['--no-undefined-shift-check'],
    assumptions=['mpz_inp_raw_p: left shift of -1 behaves as two\'s complement (gcc semantics)'],
    functions={'mpz_inp_raw_p': {}, 'mpz_inp_raw_m': dict(loops={0: 'unwind', 1: 'unwind', 2: 'unwind', 3: 'unwind'})},
    harness='void h_mpz_inp_raw_p (void) {\n' + mpz_obj('X') + '''  unsigned char cs[4]; __mpir_out_struct out;
  gk = nondet_long (); gj = nondet_long (); gh = nondet_long ();
  mpz_inp_raw_p (&X, cs, &out);
}''',
    selftest=[('mpz_inp_raw_p', r'\(char \*\) \(xp \+ abs_xsize\) - abs_csize', '(char *) (xp + abs_xsize) - abs_csize - 1'),
              ('mpz_inp_raw_p', r'csize >= 0 \? abs_xsize : -abs_xsize', 'csize >= 0 ? -abs_xsize : abs_xsize')],
))
rev_inv = '''(0 <= i && i <= (abs_xsize + 1) / 2 && sp == xp + i && ep == xp + (abs_xsize - 1 - i) && xp == V_xp0 && abs_xsize == V_n0
   && ((gk < V_n0 && (gk < i || gk > V_n0 - 1 - i)) ==> xp[gk] == V_BS (V_m))
   && ((i <= gk && gk <= V_n0 - 1 - i) ==> (xp[gk] == V_g && xp[V_n0 - 1 - gk] == V_m)))'''
UNITS.append(dict(
    name='mpz_inp_raw_m', props=['C17', 'C04', 'C15'], source='mpz/inp_raw.c', contracts=CT, enforce=['mpz_inp_raw_m'],
    functions={'mpz_inp_raw_m': dict(
        inserts=[(r'xp = \(\(x\)->_mp_d\);', r'\g<0> mp_ptr V_xp0 = xp; long V_n0 = abs_xsize; mp_limb_t V_g = gk < V_n0 ? xp[gk] : 0, V_m = gk < V_n0 ? xp[V_n0 - 1 - gk] : 0;')],
        loops={0: dict(scalars=['i', 'elimb', 'slimb'], havoc_targets=['sp', 'ep'],
                       havoc='{ __CPROVER_assume (0 <= i && i <= (abs_xsize + 1) / 2); sp = xp + i; ep = xp + (abs_xsize - 1 - i); }',
                       slices=[('xp', 'abs_xsize * 8')], inv=rev_inv, dec='(abs_xsize + 1) / 2 - i'),
               1: 'unwind', 2: 'unwind', 3: norm_loop('xp', 'abs_xsize', 'gk')})},
    harness='void h_mpz_inp_raw_m (void) {\n' + mpz_obj('X') + '''  __mpir_out_struct out; out.allocatedSize = nondet_ulong (); out.writtenSize = nondet_ulong (); out.written = 0; out.allocated = 0;
  gk = nondet_long ();
  mpz_inp_raw_m (&X, &out);
}''',
    selftest=[('mpz_inp_raw_m', r'i < \(abs_xsize\+1\)/2', 'i < abs_xsize/2'),
              ('mpz_inp_raw_m', r'\(\(x\)->_mp_size\) >= 0 \? abs_xsize : -abs_xsize', '((x)->_mp_size) >= 0 ? abs_xsize : abs_xsize')],
))
UNITS.append(dict(
    name='mpz_inp_raw', props=['C17', 'C04', 'C15'], source='mpz/inp_raw.c', contracts=CT, enforce=['__gmpz_inp_raw'],
    # mpz_inp_raw_p is loop-free and is verified inline here (a conditional 'fresh block or unchanged block' post-condition
    # cannot be assumed soundly at a replaced call); its own contract is proved separately in unit mpz_inp_raw_p
    replace=['__gmpz_realloc', 'mpz_inp_raw_m'],
    drop_checks=['--undefined-shift-check'], cbmc_flags=['--no-undefined-shift-check'],
    assumptions=['fread: ISO C contract (transfers <= n items, may leave arbitrary bytes in the buffer), modelled by a stub'],
    functions={'__gmpz_inp_raw': {}, 'mpz_inp_raw_m': dict(loops={0: 'unwind', 1: 'unwind', 2: 'unwind', 3: 'unwind'})},
    harness=FREAD + 'void h_mpz_inp_raw (void) {\n' + mpz_obj('X') + '''  FILE *fp = (FILE *) nondet_ulong ();
  gk = nondet_long (); gj = nondet_long (); gh = nondet_long ();
  __gmpz_inp_raw (&X, fp);
}''',
    selftest=[('__gmpz_inp_raw', r'if \(out->writtenSize != 0\)', 'if (out->writtenSize > 8)')],
))

out_inv = '''(1 <= i && i <= V_n0 && xp == V_xp0 + (V_n0 - i) && bp == V_b0 - 8 * (V_n0 - i) && __CPROVER_same_object (bp, tp)
   && (i < V_n0 ==> xlimb == V_xp0[V_n0 - i - 1])
   && (gk < V_n0 - i ==> *(mp_limb_t *) (V_b0 - 8 * (gk + 1)) == V_BS (V_xp0[gk])))'''
UNITS.append(dict(
    name='mpz_out_raw_m', props=['C17', 'C04', 'C15'], source='mpz/out_raw.c', contracts=CT, enforce=['mpz_out_raw_m'],
    functions={'mpz_out_raw_m': dict(
        inserts=[(r'i = abs_xsize;', r'\g<0> long V_n0 = abs_xsize; mp_srcptr V_xp0 = xp; char *V_b0 = bp;')],
        loops={0: dict(scalars=['i', 'xlimb'], havoc_targets=['xp', 'bp'],
                       havoc='{ __CPROVER_assume (1 <= i && i <= V_n0); xp = V_xp0 + (V_n0 - i); bp = V_b0 - 8 * (V_n0 - i); }',
                       slices=[('tp', 'tsize')], inv=out_inv, dec='i'),
               1: 'unwind', 2: 'unwind', 3: 'unwind'})},
    harness='#include "/verif/contracts/alloc_stubs.h"\nvoid h_mpz_out_raw_m (void) {\n  V_INSTALL_ALLOCATOR ();\n' + mpz_obj('X') + '''  __mpir_out_struct out;
  gk = nondet_long ();
  mpz_out_raw_m (&out, &X);
}''',
    selftest=[('mpz_out_raw_m', r'zeros /= 8;', 'zeros /= 4;'), ('mpz_out_raw_m', r'bp\[-4\] = bytes >> 24;', 'bp[-4] = bytes >> 16;'),
              ('mpz_out_raw_m', r'xsize >= 0 \? bytes : -bytes', 'xsize > 0 ? -bytes : bytes')],
))
FWRITE = '''size_t fwrite (const void *p, size_t size, size_t n, FILE *fp)
{
  __CPROVER_assert (size * n == 0 || __CPROVER_r_ok (p, size * n), "[C04][C17] fwrite: source holds size*n readable bytes");
  size_t put = nondet_ulong (); __CPROVER_assume (put <= n);       /* every failing write position */
  return put;
}
'''
UNITS.append(dict(
    name='mpz_out_raw', props=['C17', 'C04', 'C15'], source='mpz/out_raw.c', contracts=CT, enforce=['__gmpz_out_raw'], replace=['mpz_out_raw_m'],
    cbmc_flags=['--memory-leak-check'],
    assumptions=['fwrite: ISO C contract (transfers <= n items), modelled by a stub'],
    functions={'__gmpz_out_raw': {}, 'mpz_out_raw_m': dict(loops={0: 'unwind', 1: 'unwind', 2: 'unwind', 3: 'unwind'})},
    harness='#include "/verif/contracts/alloc_stubs.h"\n' + FWRITE + 'void h_mpz_out_raw (void) {\n  V_INSTALL_ALLOCATOR ();\n' + mpz_obj('X') + '''  FILE *fp = (FILE *) nondet_ulong ();
  gk = nondet_long ();
  __gmpz_out_raw (fp, &X);
  free (X._mp_d);          /* the harness's own block; anything still allocated after this is a leak of mpz_out_raw */
}''',
    selftest=[('__gmpz_out_raw', r'\(out->allocated, out->allocatedSize\)', '(out->allocated, out->writtenSize)')],
))
