"""C10 mpn: logic operations, popcount, hamdist, scan0, scan1 (L-proofs)."""
from c03_mpn import mpn_harness
UNITS = []
P = ['C10', 'C05', 'C04', 'C15']
OPS = {'and_n': ('*__s1++ & *__s2++', 'a & b'), 'andn_n': None, 'nand_n': None, 'ior_n': None, 'iorn_n': None, 'nior_n': None, 'xor_n': None, 'xnor_n': None}
EXPR = {'and_n': 'V_u & V_v', 'andn_n': 'V_u & ~V_v', 'nand_n': '~(V_u & V_v)', 'ior_n': 'V_u | V_v', 'iorn_n': 'V_u | ~V_v',
        'nior_n': '~(V_u | V_v)', 'xor_n': 'V_u ^ V_v', 'xnor_n': '~(V_u ^ V_v)'}
MUT = {'and_n': (r'\*__s1\+\+ & \*__s2\+\+', '*__s1++ | *__s2++'), 'andn_n': (r'& ~', '& '), 'nand_n': (r'~\(', '('), 'ior_n': (r'\*__s1\+\+ \| \*__s2\+\+', '*__s1++ ^ *__s2++'),
       'iorn_n': (r'\| ~', '| '), 'nior_n': (r'~\(', '('), 'xor_n': (r'\*__s1\+\+ \^ \*__s2\+\+', '*__s1++ | *__s2++'), 'xnor_n': (r'~\(', '(')}
for op in EXPR:
    f = '__gmpn_' + op
    UNITS.append(dict(
        name='mpn_' + op, props=P, source='mpn/generic/%s.c' % op, contracts=['mpn.h'], enforce=[f],
        functions={f: dict(
            entry='mp_limb_t V_u = up[gk], V_v = vp[gk];',
            loops={0: dict(snap='mp_size_t V_n0 = __n; mp_ptr V_d0 = __d; mp_srcptr V_a0 = __s1, V_b0 = __s2;',
                           scalars=['__n'], havoc_targets=['__d', '__s1', '__s2'],
                           havoc='{ __CPROVER_assume (1 <= __n && __n <= V_n0); __d = V_d0 + (V_n0 - __n); __s1 = V_a0 + (V_n0 - __n); __s2 = V_b0 + (V_n0 - __n); }',
                           slices=[('V_d0', 'V_n0 * 8')],
                           inv='''(1 <= __n && __n <= V_n0 && V_n0 == n && V_d0 == rp && V_a0 == up && V_b0 == vp
                               && __d == V_d0 + (V_n0 - __n) && __s1 == V_a0 + (V_n0 - __n) && __s2 == V_b0 + (V_n0 - __n)
                               && (gk >= V_n0 - __n ==> (V_a0[gk] == V_u && V_b0[gk] == V_v)) && (gk < V_n0 - __n ==> V_d0[gk] == (%s)))''' % EXPR[op],
                           dec='__n')})},
        harness=mpn_harness('mpn_' + op, '%s (rp, up, vp, n);' % f),
        selftest=[(f,) + MUT[op]],
    ))

def popham(op):
    f = '__gmpn_' + op
    ham = op == 'hamdist'
    L = (lambda j: '(V_up0[%s] ^ V_vp0[%s])' % (j, j)) if ham else (lambda j: 'V_up0[%s]' % j)
    pc = lambda j: '(mp_bitcnt_t) __builtin_popcountl (%s)' % L(j)
    walk = 'up == V_up0 + V_o' + (' && vp == V_vp0 + V_o' if ham else '')
    # V_o = limbs consumed so far (ghost, recomputed from the loop counters)
    inv0 = '''(0 <= i && i <= (V_n0 >> 2) && n == V_n0 && %s && result <= 64 * (mp_bitcnt_t) V_o
        && (gk < V_o ==> (g_po == g_pi + %s && g_po <= 64 * (mp_bitcnt_t) (gk + 1) && (gk == 0 ==> g_pi == 0)))
        && (gk == V_o - 1 ==> g_po == result))''' % (walk.replace('V_o', '(4 * ((V_n0 >> 2) - i))'), pc('gk'))
    inv0 = inv0.replace('V_o', '(4 * ((V_n0 >> 2) - i))')
    # tail loop: n in 1..3 limbs left, partial byte-wise counts in x (each byte <= 8 per limb added)
    inv1 = '''(1 <= n && n <= V_t0 && V_t0 <= 3 && %s
        && V_lanes_le (x, 8 * (mp_limb_t) (V_t0 - n))
        && V_xs == V_xsum (x)
        && (gk < V_o ==> (g_po == g_pi + %s && g_po <= 64 * (mp_bitcnt_t) (gk + 1) && (gk == 0 ==> g_pi == 0)))
        && (gk == V_o - 1 ==> g_po == V_r1 + V_xs))''' % (walk, pc('gk'))
    inv1 = inv1.replace('V_o', '(V_b1 + (V_t0 - n))')
    blk = ' + '.join('V_c%d' % j for j in range(4))
    pre = lambda j: ' + '.join(['V_rb'] + ['V_c%d' % t for t in range(j)])
    begin0 = 'long V_bb = 4 * ((V_n0 >> 2) - i); mp_bitcnt_t V_rb = result; mp_bitcnt_t ' + ', '.join('V_c%d = %s' % (j, pc('V_bb + %d' % j)) for j in range(4)) + '; ' + ' '.join(
        'if (gk == V_bb + %d) { g_pi = %s; g_po = g_pi + V_c%d; }' % (j, pre(j), j) for j in range(4))
    end0 = '__CPROVER_assert (result == V_rb + %s, "[C10] %s: SWAR count of a 4-limb block equals the sum of the limb popcounts");' % (blk, op)
    return dict(
        name='mpn_' + op, props=['C10', 'C04', 'C15'], source='mpn/generic/%s.c' % op, contracts=['mpn.h'], enforce=[f],
        contract_text='''/* sum of the 8 byte lanes of x */
#define V_lanes_le(x,m) ((((x) & 0xff) <= (m)) && ((((x) >> 8) & 0xff) <= (m)) && ((((x) >> 16) & 0xff) <= (m)) && ((((x) >> 24) & 0xff) <= (m)) && ((((x) >> 32) & 0xff) <= (m)) && ((((x) >> 40) & 0xff) <= (m)) && ((((x) >> 48) & 0xff) <= (m)) && ((((x) >> 56) & 0xff) <= (m)))
#define V_xsum(x) ((mp_bitcnt_t) (((x) & 0xff) + (((x) >> 8) & 0xff) + (((x) >> 16) & 0xff) + (((x) >> 24) & 0xff) + (((x) >> 32) & 0xff) + (((x) >> 40) & 0xff) + (((x) >> 48) & 0xff) + (((x) >> 56) & 0xff)))''',
        functions={f: dict(
            entry='mp_size_t V_n0 = n; mp_srcptr V_up0 = up%s; mp_bitcnt_t V_xs = 0, V_r1 = 0; long V_b1 = 0, V_t0 = 0; g_pi = 0; g_po = 0;' % (', V_vp0 = vp' if ham else ''),
            inserts=[(r'n &= 3;', r'\g<0> V_b1 = V_n0 - n; V_t0 = n; V_r1 = result; V_xs = 0;'),
                     (r'x = \(x >> 8\) \+ x;\s*x = \(x >> 16\) \+ x;\s*x = \(x >> 32\) \+ x;\s*result \+= x & 0xff;',
                      r'\g<0> __CPROVER_assert (result == V_r1 + V_xs, "[C10] tail: folded byte lanes equal the lane sum");')],
            loops={0: dict(scalars=['i', 'p0', 'p1', 'p2', 'p3', 'p01', 'p23', 'x', 'result', 'g_pi', 'g_po'],
                           havoc_targets=['up'] + (['vp'] if ham else []),
                           havoc='{ __CPROVER_assume (0 <= i && i <= (V_n0 >> 2)); up = V_up0 + 4 * ((V_n0 >> 2) - i); %s }' % ('vp = V_vp0 + 4 * ((V_n0 >> 2) - i);' if ham else ''),
                           inv=inv0, dec='i', begin=begin0, end=end0, local_to_body=['V_bb', 'V_rb', 'V_c0', 'V_c1', 'V_c2', 'V_c3']),
                   1: dict(scalars=['n', 'p0', 'x', 'V_xs', 'g_pi', 'g_po'], havoc_targets=['up'] + (['vp'] if ham else []),
                           havoc='{ __CPROVER_assume (1 <= n && n <= V_t0); up = V_up0 + V_b1 + (V_t0 - n); %s }' % ('vp = V_vp0 + V_b1 + (V_t0 - n);' if ham else ''),
                           inv=inv1, dec='n',
                           begin='{ long V_c = V_b1 + (V_t0 - n); if (gk == V_c) { g_pi = V_r1 + V_xs; g_po = g_pi + %s; } V_xs += %s; }' % (pc('V_c'), pc('V_c')),
                           local_to_body=['V_c'])})},
        harness=mpn_harness('mpn_' + op, '%s (%s, n);' % (f, 'up, vp' if ham else 'up'), ptrs=('up', 'vp') if ham else ('up',)), timeout=1200, tier='thorough',
        selftest=[(f, r'n &= 3;', 'n &= 1;'), (f, r'up \+= 4;', 'up += 3;')],
    )
UNITS.append(popham('popcount'))
UNITS.append(popham('hamdist'))

def scan(want):
    f = '__gmpn_scan%d' % want
    X = (lambda e: '(%s)' % e) if want else (lambda e: '(~(%s))' % e)
    inv = '''(V_sw <= (p - up - 1) && (p - up - 1) <= g_hd && __CPROVER_same_object (p, up)
        && alimb == ((p - up - 1) == V_sw ? (%s & V_mask) : %s)
        && ((starting_bit <= gb && gb / 64 < (mp_bitcnt_t) (p - up - 1)) ==> V_BIT (up, gb) == %d))''' % (X('up[p - up - 1]'), X('up[p - up - 1]'), 1 - want)
    return dict(
        name='mpn_scan%d' % want, props=['C10', 'C04', 'C15'], source='mpn/generic/scan%d.c' % want, contracts=['mpn.h'], enforce=[f],
        functions={f: dict(
            entry='long V_sw = starting_bit / 64; mp_limb_t V_mask = - (mp_limb_t) 1 << (starting_bit % 64);',
            loops={0: dict(scalars=['alimb'], havoc_targets=['p'],
                           havoc='{ long V_d = nondet_long (); __CPROVER_assume (V_sw <= V_d && V_d <= g_hd); p = up + V_d + 1; }',
                           inv=inv, dec='g_hd - (p - up - 1)')})},
        harness='''void h_mpn_scan%d (void) {
  mp_size_t n = nondet_long (); __CPROVER_assume (1 <= n && n <= V_NMAX);
  mp_limb_t *up = malloc (n * 8);
  g_hd = nondet_long (); gb = nondet_ulong (); mp_bitcnt_t sb = nondet_ulong ();
  __CPROVER_assume (0 <= g_hd && g_hd < n);
  %s (up, sb);
}''' % (want, f),
        selftest=[(f, r'- \(mp_limb_t\) 1 <<', '- (mp_limb_t) 2 <<'), (f, r'\(p - up - 1\) \*', '(p - up) *')],
    )
UNITS.append(scan(0))
UNITS.append(scan(1))
