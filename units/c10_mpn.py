"""C10 mpn: logic operations, popcount, hamdist, scan0, scan1 (L-proofs)."""
from c03_mpn import mpn_harness
UNITS = []
P = ['C10', 'C05', 'C04', 'C15']
OPS = {'and_n': ('*__s1++ & *__s2++', 'a & b'), 'andn_n': None, 'nand_n': None, 'ior_n': None, 'iorn_n': None, 'nior_n': None, 'xor_n': None, 'xnor_n': None}
EXPR = {'and_n': 'V_u & V_v', 'andn_n': 'V_u & ~V_v', 'nand_n': '~(V_u & V_v)', 'ior_n': 'V_u | V_v', 'iorn_n': 'V_u | ~V_v',
        'nior_n': '~(V_u | V_v)', 'xor_n': 'V_u ^ V_v', 'xnor_n': '~(V_u ^ V_v)'}
MUT = {'and_n': (r'\*__s1\+\+ & \*__s2\+\+', '*__s1++ | *__s2++'), 'andn_n': (r'& ~', '& '), 'nand_n': (r'~\(', '('), 'ior_n': (r'\*__s1\+\+ \| \*__s2\+\+', '*__s1++ ^ *__s2++'),
       'iorn_n': (r'\| ~', '| '), 'nior_n': (r'~\(', '('), 'xor_n': (r'\*__s1\+\+ \^ \*__s2\+\+', '*__s1++ | *__s2++'), 'xnor_n': (r'~\(', '(')}
for op in EXPR:
    f = '__gmpn_' + op
    UNITS.append(dict(
        name='mpn_' + op, props=P, source='mpn/generic/%s.c' % op, contracts=['mpn.h'], enforce=[f],
        functions={f: dict(
            entry='mp_limb_t V_u = up[gk], V_v = vp[gk];',
            loops={0: dict(snap='mp_size_t V_n0 = __n; mp_ptr V_d0 = __d; mp_srcptr V_a0 = __s1, V_b0 = __s2;',
                           scalars=['__n'], havoc_targets=['__d', '__s1', '__s2'],
                           havoc='{ __CPROVER_assume (1 <= __n && __n <= V_n0); __d = V_d0 + (V_n0 - __n); __s1 = V_a0 + (V_n0 - __n); __s2 = V_b0 + (V_n0 - __n); }',
                           slices=[('V_d0', 'V_n0 * 8')],
                           inv='''(1 <= __n && __n <= V_n0 && V_n0 == n && V_d0 == rp && V_a0 == up && V_b0 == vp
                               && __d == V_d0 + (V_n0 - __n) && __s1 == V_a0 + (V_n0 - __n) && __s2 == V_b0 + (V_n0 - __n)
                               && (gk >= V_n0 - __n ==> (V_a0[gk] == V_u && V_b0[gk] == V_v)) && (gk < V_n0 - __n ==> V_d0[gk] == (%s)))''' % EXPR[op],
                           dec='__n')})},
        harness=mpn_harness('mpn_' + op, '%s (rp, up, vp, n);' % f),
        selftest=[(f,) + MUT[op]],
    ))

def popham(op):
    """popcount / hamdist: the functional contract (prefix sums, DESIGN 3.3) is NOT decided: the SWAR adder tree of one
    4-limb block against the sum of four bit counts did not come back from kissat or MiniSat in 5 minutes (measured, DESIGN 8).
    What is proved here is the frame (no writes), that every limb read is inside {up,n} / {vp,n}, and termination."""
    f = '__gmpn_' + op
    ham = op == 'hamdist'
    walk = 'up == V_up0 + V_o' + (' && vp == V_vp0 + V_o' if ham else '')
    inv0 = ('(0 <= i && i <= (V_n0 >> 2) && n == V_n0 && %s)' % walk).replace('V_o', '(4 * ((V_n0 >> 2) - i))')
    inv1 = ('(1 <= n && n <= V_t0 && V_t0 <= 3 && V_b1 + V_t0 == V_n0 && %s)' % walk).replace('V_o', '(V_b1 + (V_t0 - n))')
    return dict(
        name='mpn_' + op + '_safety', props=['C10', 'C04', 'C15'], source='mpn/generic/%s.c' % op, enforce=[f],
        contract_text='mp_bitcnt_t %s (mp_srcptr up, %smp_size_t n) __CPROVER_requires (1 <= n && n <= V_NMAX && V_R_OK (up, n)%s) __CPROVER_assigns ();'
                      % (f, 'mp_srcptr vp, ' if ham else '', ' && V_R_OK (vp, n)' if ham else ''),
        assumptions=['mpn_%s: only memory safety, frame and termination are proved; the bit-count value is undecided (SWAR adder tree, SAT time-out)' % op],
        functions={f: dict(
            entry='mp_size_t V_n0 = n; mp_srcptr V_up0 = up%s; long V_b1 = 0, V_t0 = 0;' % (', V_vp0 = vp' if ham else ''),
            inserts=[(r'n &= 3;', r'\g<0> V_b1 = V_n0 - n; V_t0 = n;')],
            loops={0: dict(scalars=['i', 'p0', 'p1', 'p2', 'p3', 'p01', 'p23', 'x', 'result'],
                           havoc_targets=['up'] + (['vp'] if ham else []),
                           havoc='{ __CPROVER_assume (0 <= i && i <= (V_n0 >> 2)); up = V_up0 + 4 * ((V_n0 >> 2) - i); %s }' % ('vp = V_vp0 + 4 * ((V_n0 >> 2) - i);' if ham else ''),
                           inv=inv0, dec='i'),
                   1: dict(scalars=['n', 'p0', 'x'], havoc_targets=['up'] + (['vp'] if ham else []),
                           havoc='{ __CPROVER_assume (1 <= n && n <= V_t0); up = V_up0 + V_b1 + (V_t0 - n); %s }' % ('vp = V_vp0 + V_b1 + (V_t0 - n);' if ham else ''),
                           inv=inv1, dec='n')})},
        harness=mpn_harness('mpn_' + op + '_safety', '%s (%s, n);' % (f, 'up, vp' if ham else 'up'), ptrs=('up', 'vp') if ham else ('up',)),
        selftest=[(f, r'up \+= 4;', 'up += 5;')],
    )
UNITS.append(popham('popcount'))
UNITS.append(popham('hamdist'))

def scan(want):
    f = '__gmpn_scan%d' % want
    X = (lambda e: '(%s)' % e) if want else (lambda e: '(~(%s))' % e)
    inv = '''(V_sw <= (p - up - 1) && (p - up - 1) <= g_hd && __CPROVER_same_object (p, up)
        && alimb == ((p - up - 1) == V_sw ? (%s & V_mask) : %s)
        && ((starting_bit <= gb && gb / 64 < (mp_bitcnt_t) (p - up - 1)) ==> V_BIT (up, gb) == %d))''' % (X('up[p - up - 1]'), X('up[p - up - 1]'), 1 - want)
    return dict(
        name='mpn_scan%d' % want, props=['C10', 'C04', 'C15'], source='mpn/generic/scan%d.c' % want, contracts=['mpn.h'], enforce=[f],
        functions={f: dict(
            entry='long V_sw = starting_bit / 64; mp_limb_t V_mask = - (mp_limb_t) 1 << (starting_bit % 64);',
            loops={0: dict(scalars=['alimb'], havoc_targets=['p'],
                           havoc='{ long V_d = nondet_long (); __CPROVER_assume (V_sw <= V_d && V_d <= g_hd); p = up + V_d + 1; }', havoc_inv={'V_d': '(p - up - 1)'},
                           inv=inv, dec='g_hd - (p - up - 1)')})},
        harness='''void h_mpn_scan%d (void) {
  mp_size_t n = nondet_long (); __CPROVER_assume (1 <= n && n <= V_NMAX);
  mp_limb_t *up = malloc (n * 8);
  g_hd = nondet_long (); gb = nondet_ulong (); mp_bitcnt_t sb = nondet_ulong ();
  __CPROVER_assume (0 <= g_hd && g_hd < n);
  %s (up, sb);
}''' % (want, f),
        selftest=[(f, r'- \(mp_limb_t\) 1 <<', '- (mp_limb_t) 2 <<'), (f, r'\(p - up - 1\) \*', '(p - up) *')],
    )
UNITS.append(scan(0))
UNITS.append(scan(1))
