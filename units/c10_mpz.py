"""C10 mpz layer (part): mpz_tstbit, mpz_scan0, mpz_scan1 against the infinite two's-complement limb function."""
UNITS = []
OBJ = '''  long a = nondet_long (); __CPROVER_assume (1 <= a && a <= V_ZMAX);
  __mpz_struct U; U._mp_alloc = a; U._mp_d = malloc (a * 8); __CPROVER_assume (U._mp_d != (void *) 0);
  g_lz = nondet_long (); U._mp_size = nondet_long ();
'''
# The defining property of the ghost g_lz ("every limb below g_lz is zero") is a forall over the input; it is INSTANTIATED, by a woven
# assume, at the one index a generic loop iteration reads.  Listed as an assumption of the unit.
LZ_ASM = ['ghost g_lz = index of the lowest non-zero limb: its defining forall ("limbs below g_lz are zero") is instantiated by __CPROVER_assume at the index each woven loop iteration reads']
TAIL = lambda lo: '(%s <= V_pk && V_pk <= V_k && p == u_ptr + V_pk)' % lo
UNITS.append(dict(
    name='mpz_tstbit', props=['C10', 'C04', 'C15'], source='mpz/tstbit.c', contracts=['mpz.h', 'c10.h'], enforce=['__gmpz_tstbit'],
    functions={'__gmpz_tstbit': dict(
        inserts=[(r'limb = \*p;', r'\g<0> __CPROVER_assume (limb_index >= g_lz || limb == 0);   /* g_lz instantiated at the limb just read */')],
        loops={0: dict(scalars=['limb'], havoc_targets=['p'], havoc='{ long V_d = nondet_long (); __CPROVER_assume (0 <= V_d && V_d <= limb_index); p = u_ptr + V_d; }', havoc_inv={'V_d': '(p - u_ptr)'},
                       inv='''(p >= u_ptr && p <= u_ptr + limb_index && __CPROVER_same_object (p, u_ptr) && limb == -u_ptr[limb_index] && limb_index < (long) abs_size && size < 0
                           && (g_lz < limb_index ==> p > u_ptr + g_lz))''', dec='p - u_ptr',
                       begin='__CPROVER_assume ((p - 1 - u_ptr) >= g_lz || p[-1] == 0);   /* g_lz: instantiated at the limb read next */')})},
    assumptions=LZ_ASM,
    harness='void h_mpz_tstbit (void) {\n' + OBJ + '  mp_bitcnt_t b = nondet_ulong ();\n  __gmpz_tstbit (&U, b);\n}',
    selftest=[('__gmpz_tstbit', r'limb--;', ';'), ('__gmpz_tstbit', r'return \(size < 0\);', 'return 0;')]))

# ------------------------------------------------------------------ mpz_scan0 / mpz_scan1
ENTRY = ''
DECL_INS = (r'int cnt;', r'\g<0> long V_n = abs_size, V_s = starting_limb; int V_found = 0;')
PC = '(p - u_ptr)'
def skip_full(want_tc_bit):
    """loop that steps over limbs in which every examined bit has the non-sought value; `limb` is the (complemented-as-needed) current limb.
    want_tc_bit: value the skipped TC bits have."""
    return '''(V_s <= PC && PC < V_n && __CPROVER_same_object (p, u_ptr) && V_n == abs_size && V_s == starting_limb && u_end == u_ptr + V_n && u_ptr == u->_mp_d
        && ((starting_bit <= gb && gb / 64 < (mp_bitcnt_t) PC) ==> V_TCBIT (u, gb) == %d))''' % want_tc_bit
LOW = '((((mp_limb_t) 1) << (starting_bit % 64)) - 1)'
Q_INV = '''(q >= u_ptr && q <= p && __CPROVER_same_object (q, u_ptr) && p == u_ptr + V_s && V_s < V_n && V_n == abs_size && size < 0 && V_found == 0 && u_ptr == u->_mp_d && u_end == u_ptr + V_n
        && limb == u_ptr[V_s] && (g_lz < V_s ==> q > u_ptr + g_lz))'''
Q_LOOP = dict(scalars=['V_found'], havoc_targets=['q'], havoc='{ long V_d = nondet_long (); __CPROVER_assume (0 <= V_d && V_d <= V_s); q = u_ptr + V_d; }', havoc_inv={'V_d': '(q - u_ptr)'},
              inv=Q_INV, dec='q - u_ptr', begin='__CPROVER_assume ((q - 1 - u_ptr) >= g_lz || q[-1] == 0);')
COMMON_INS = [DECL_INS, (r'if \(size >= 0\)', r'__CPROVER_assume (starting_limb >= g_lz || limb == 0); \g<0>'),
              (r'goto inverted;', r'{ V_found = 1; \g<0> }')]
def nz_search(tcbit):
    """for(;;)/do-while that advances p to the next non-zero limb above the starting limb (which lies above g_lz)"""
    return ('''(V_s < PC && PC < V_n && __CPROVER_same_object (p, u_ptr) && V_n == abs_size && V_s == starting_limb && size < 0 && g_lz <= V_s && u_ptr == u->_mp_d && u_end == u_ptr + V_n
        && u_ptr[V_n - 1] != 0 && ((starting_bit <= gb && gb / 64 < (mp_bitcnt_t) PC) ==> V_TCBIT (u, gb) == %d))''' % tcbit).replace('PC', PC)
UNITS.append(dict(
    name='mpz_scan0', props=['C10', 'C04', 'C15'], source='mpz/scan0.c', contracts=['mpz.h', 'c10.h'], enforce=['__gmpz_scan0'], assumptions=LZ_ASM,
    functions={'__gmpz_scan0': dict(
        entry=ENTRY, inserts=COMMON_INS,
        loops={0: dict(scalars=['limb'], havoc_targets=['p'], havoc='{ long V_d = nondet_long (); __CPROVER_assume (V_s <= V_d && V_d < V_n); p = u_ptr + V_d; }', havoc_inv={'V_d': '(p - u_ptr)'},
                       inv=(skip_full(1) + ' && size >= 0 && limb == (PC == V_s ? (u_ptr[PC] | LOW) : u_ptr[PC])').replace('PC', PC).replace('LOW', LOW), dec='V_n - ' + PC),
               1: Q_LOOP,
               2: dict(scalars=['limb'], havoc_targets=['p'], havoc='{ long V_d = nondet_long (); __CPROVER_assume (V_s < V_d && V_d < V_n); p = u_ptr + V_d; }', havoc_inv={'V_d': '(p - u_ptr)'},
                       inv=nz_search(1), dec='V_n - ' + PC)})},
    harness='void h_mpz_scan0 (void) {\n' + OBJ + '  mp_bitcnt_t sb = nondet_ulong (); gb = nondet_ulong ();\n  __gmpz_scan0 (&U, sb);\n}', timeout=900,
    selftest=[('__gmpz_scan0', r'limb--;', ';'), ('__gmpz_scan0', r'return \(mp_bitcnt_t\) abs_size \* \(64 - 0\);', 'return (mp_bitcnt_t) abs_size * (64 - 0) - 1;'),
              ('__gmpz_scan0', r'if \(\*q != 0\)', 'if (*q == 0)')]))

POS_NZ = ('''(V_s < PC && PC < V_n && __CPROVER_same_object (p, u_ptr) && V_n == abs_size && V_s == starting_limb && size >= 0 && u_ptr == u->_mp_d && u_end == u_ptr + V_n
        && u_ptr[V_n - 1] != 0 && ((starting_bit <= gb && gb / 64 < (mp_bitcnt_t) PC) ==> V_TCBIT (u, gb) == 0))''').replace('PC', PC)
UP_TO_LZ = ('''(V_s <= PC && PC < g_lz && g_lz < V_n && __CPROVER_same_object (p, u_ptr) && V_n == abs_size && V_s == starting_limb && size < 0 && V_found == 0
        && u_ptr == u->_mp_d && u_end == u_ptr + V_n && u_ptr[g_lz] != 0)''').replace('PC', PC)
INV_SKIP = ('''(V_s <= PC && PC < V_n && __CPROVER_same_object (p, u_ptr) && V_n == abs_size && V_s == starting_limb && size < 0 && g_lz <= V_s && u_ptr == u->_mp_d && u_end == u_ptr + V_n
        && V_TCLIMB (u, V_s) == ~V_pre && limb == (PC == V_s ? (V_pre | LOW) : u_ptr[PC])
        && ((starting_bit <= gb && gb / 64 < (mp_bitcnt_t) PC) ==> V_TCBIT (u, gb) == 0))''').replace('PC', PC).replace('LOW', LOW)
UNITS.append(dict(
    name='mpz_scan1', props=['C10', 'C04', 'C15'], source='mpz/scan1.c', contracts=['mpz.h', 'c10.h'], enforce=['__gmpz_scan1'], assumptions=LZ_ASM,
    functions={'__gmpz_scan1': dict(
        entry=ENTRY,
        inserts=[(r'int cnt;', r'\g<0> long V_n = abs_size, V_s = starting_limb; int V_found = 0; mp_limb_t V_pre = 0;'),
                 (r'if \(size >= 0\)', r'__CPROVER_assume (starting_limb >= g_lz || limb == 0); \g<0>'),
                 (r'goto inverted;', r'{ V_found = 1; \g<0> }'),
                 (r'inverted:', r'\g<0> V_pre = limb;')],
        loops={0: dict(scalars=['limb'], havoc_targets=['p'], havoc='{ long V_d = nondet_long (); __CPROVER_assume (V_s < V_d && V_d < V_n); p = u_ptr + V_d; }', havoc_inv={'V_d': '(p - u_ptr)'},
                       inv=POS_NZ, dec='V_n - ' + PC),
               1: Q_LOOP,
               2: dict(scalars=['limb'], havoc_targets=['p'], havoc='{ long V_d = nondet_long (); __CPROVER_assume (V_s <= V_d && V_d < g_lz); p = u_ptr + V_d; }', havoc_inv={'V_d': '(p - u_ptr)'},
                       inv=UP_TO_LZ, dec='g_lz - ' + PC, end='__CPROVER_assume (%s >= g_lz || limb == 0);' % PC),
               3: dict(scalars=['limb'], havoc_targets=['p'], havoc='{ long V_d = nondet_long (); __CPROVER_assume (V_s <= V_d && V_d < V_n); p = u_ptr + V_d; }', havoc_inv={'V_d': '(p - u_ptr)'},
                       inv=INV_SKIP, dec='V_n - ' + PC)})},
    harness='void h_mpz_scan1 (void) {\n' + OBJ + '  mp_bitcnt_t sb = nondet_ulong (); gb = nondet_ulong ();\n  __gmpz_scan1 (&U, sb);\n}', timeout=900,
    selftest=[('__gmpz_scan1', r'limb = -limb;', 'limb = ~limb;'), ('__gmpz_scan1', r'limb--;', ';'),
              ('__gmpz_scan1', r'return \(mp_bitcnt_t\)abs_size \* \(64 - 0\);', 'return (mp_bitcnt_t)abs_size * (64 - 0) + 1;')]))

# ------------------------------------------------------------------ mpz_com: ~x = -x - 1 (the two's-complement identity), as limb chains on the magnitudes
from c04_alloc import mpz_obj
from c03_mpz import split_alias, ALIAS2, A2
_com = dict(name='mpz_com', props=['C10', 'C04', 'C05', 'C15'], source='mpz/com.c', contracts=['mpn.h', 'mpz.h'],
    contract_text='''void __gmpz_com (mpz_ptr dst, mpz_srcptr src)
__CPROVER_requires (V_WF (dst) && V_WF (src) && V_ABSIZ (src) < V_ZMAX && V_GHOSTS_OK)
__CPROVER_assigns (*dst, __CPROVER_object_whole (V_PTR (dst)), g_ci, g_co, g2_ci, g2_co)
__CPROVER_frees (V_PTR (dst))
__CPROVER_ensures (V_WF_AT (dst, gk));
''', enforce=['__gmpz_com'], replace=['__gmpz_realloc', '__gmpn_add_1', '__gmpn_sub_1'],
    harness='void h_mpz_com (void) {\n' + mpz_obj('W') + mpz_obj('U') + ALIAS2 + '''  gk = nondet_long (); gh = nondet_long ();
  __CPROVER_assume (0 <= gk && gk < V_ZMAX && 0 <= gh && gh <= V_NMAX && V_WF (w) && V_WF (u));
  gj = gk + 1;
  long su = V_SIZ (u), un = V_ABS (su);
  mp_limb_t Uk = gk < un ? V_PTR (u)[gk] : 0;
  __gmpz_com (w, u);
  long sw = V_SIZ (w), wn = V_ABS (sw);
  mp_limb_t Wk = V_PTR (w)[gk < V_ALLOC (w) ? gk : 0], one = (gk == 0 ? 1 : 0);
  if (su == 0)
    __CPROVER_assert (sw == -1 && V_PTR (w)[0] == 1, "[C10] ~0 = -1");
  else if (su > 0)
    { /* ~x = -(x + 1) */
      __CPROVER_assert (gk < un ==> (g_ci <= 1 && g_co <= 1 && V_ADDREL (Wk, Uk, one, g_ci, g_co)), "[C10][C05] x >= 0: |~x| = x + 1, carry chain at limb gk");
      __CPROVER_assert ((gk == 0 && gk < un) ==> g_ci == 0, "[C10] no carry into limb 0");
      __CPROVER_assert (gk == un - 1 ==> (g_co == 0 ? wn == un : (wn == un + 1 && V_PTR (w)[un] == 1)), "[C10] a carry out of the top limb becomes a new limb 1");
      __CPROVER_assert (sw < 0, "[C10] ~x is negative for x >= 0");
    }
  else
    { /* x < 0: ~x = |x| - 1 >= 0 */
      __CPROVER_assert (gk < un ==> (g_ci <= 1 && g_co <= 1 && V_SUBREL (Wk, Uk, one, g_ci, g_co)), "[C10][C05] x < 0: ~x = |x| - 1, borrow chain at limb gk");
      __CPROVER_assert ((gk == 0 && gk < un) ==> g_ci == 0, "[C10] no borrow into limb 0");
      __CPROVER_assert (sw >= 0 && (wn == un || wn == un - 1) && ((wn <= gk && gk < un) ==> Wk == 0), "[C10][C04] non-negative, size drops by at most one limb");
    }
  if (u != w) __CPROVER_assert ((long) V_SIZ (u) == su && (gk < un ==> V_PTR (u)[gk] == Uk), "[C05] source unchanged");
}''', timeout=600,
    selftest=[('__gmpz_com', r'dst->_mp_alloc < size \+ 1', 'dst->_mp_alloc < size'), ('__gmpz_com', r'dst->_mp_size = -size;', 'dst->_mp_size = size;')])
UNITS.extend(split_alias(_com, ALIAS2, A2))
