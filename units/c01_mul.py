"""C01 core: mpn_mul_1 / addmul_1 / submul_1, product carry chain relative to the machine word multiply."""
from c03_mpn import mpn_harness, with_overlap
UNITS = []
def mul1(op):
    f = '__gmpn_' + op
    rel = {'mul_1': 'V_MULREL (V_rp0[gk], V_u, vl, g_ci, CO)', 'addmul_1': 'V_ADDMULREL (V_rp0[gk], V_r, V_u, vl, g_ci, CO)',
           'submul_1': 'V_SUBMULREL (V_rp0[gk], V_r, V_u, vl, g_ci, CO)'}[op]
    inv = '''(1 <= n && n <= V_n0 && up == V_up0 + (V_n0 - n) && rp == V_rp0 + (V_n0 - n) && (n == V_n0 ==> cl == 0)
      && ((gk >= V_n0 - n && gk < V_n0) ==> (V_up0[gk] == V_u && V_rp0[gk] == V_r))
      && (gk < V_n0 - n ==> %s)
      && ((gk == 0 && gk < V_n0 - n) ==> g_ci == 0) NZ)''' % rel.replace('CO', '(gk == V_n0 - n - 1 ? cl : g_co)')
    inv = inv.replace('NZ', '&& ((gk < V_n0 - n && V_u != 0 && vl != 0) ==> (V_rp0[gk] != 0 || (gk == V_n0 - n - 1 ? cl : g_co) != 0))' if op == 'mul_1' else '')
    sc = ['ul', 'cl', 'hpl', 'lpl', 'n', 'g_ci', 'g_co'] + ([] if op == 'mul_1' else ['rl'])
    u = dict(
        name='mpn_' + op, props=['C01', 'C05', 'C04', 'C15'], source='mpn/generic/%s.c' % op, contracts=['mpn.h'], enforce=[f],
        assumptions=['umul_ppmm (x86 mulq) is an uninterpreted function pair (hi,lo) with hi <= B-2 and exactness for operands 0/1: the kernels are proved correct relative to the machine multiply'],
        functions={f: dict(
            entry='mp_size_t V_n0 = n; mp_ptr V_rp0 = rp; mp_srcptr V_up0 = up; mp_limb_t V_u = gk < n ? up[gk] : 0, V_r = gk < n ? rp[gk] : 0;',
            loops={0: dict(scalars=sc, havoc_targets=['up', 'rp'],
                           havoc='{ __CPROVER_assume (1 <= n && n <= V_n0); up = V_up0 + (V_n0 - n); rp = V_rp0 + (V_n0 - n); }',
                           slices=[('V_rp0', 'V_n0 * 8')], inv=inv, dec='n',
                           begin='if (V_n0 - n == gk) g_ci = cl; if (V_n0 - n == gk + 1) g_co = cl;',
                           after='if (gk == V_n0 - 1) g_co = cl;', local_to_body=['__vu', '__vv'])})},
        harness=mpn_harness('mpn_' + op, 'mp_limb_t v; %s (rp, up, n, v);' % f, ptrs=('rp', 'up')),
        selftest=[(f, r'cl = \(lpl < cl\) \+ hpl', 'cl = (lpl <= cl) + hpl')] +
                 ([(f, r'cl \+= lpl < rl', 'cl += lpl <= rl')] if op == 'addmul_1' else []) +
                 ([(f, r'cl \+= lpl > rl', 'cl += lpl >= rl')] if op == 'submul_1' else []),
    )
    return u
UNITS.append(mul1('mul_1'))
UNITS.append(mul1('addmul_1'))
UNITS.append(mul1('submul_1'))
