"""C09 core: the quadratic-residue filters of mpn_perfect_square_p never reject a perfect square."""
UNITS = []
H = r'''
/* callees as stubs: the residue modulo 2^48-1 is abstract; a perfect square has a square residue modulo every divisor d of
   2^48-1 (and modulo 256), which is all the filters look at */
mp_limb_t g_r34; _Bool g_reached_sqrt;
mp_limb_t __gmpn_mod_34lsub1 (mp_srcptr p, mp_size_t n) { return g_r34; }
mp_size_t __gmpn_sqrtrem (mp_ptr sp, mp_ptr rp, mp_srcptr np, mp_size_t nn) { g_reached_sqrt = 1; return nondet_long (); }
void *__gmp_tmp_reentrant_alloc (struct tmp_reentrant_t **m, size_t n) { void *q = malloc (n); __CPROVER_assume (q != (void *) 0); return q; }
void __gmp_tmp_reentrant_free (struct tmp_reentrant_t *m) { }
void h_perfsqr_filters (void)
{
  mp_limb_t u0 = nondet_ulong (); mp_limb_t U[1]; U[0] = u0;
  /* u is a perfect square: its low byte is the low byte of some y^2 ... */
  unsigned y = nondet_uint (); __CPROVER_assume (y < 256 && (u0 & 0xff) == ((y * y) & 0xff));
  /* ... and its residue mod 2^48-1, hence mod D, is a square residue (D is the divisor under test, one run per divisor) */
  g_r34 = nondet_ulong ();
  mp_limb_t r = (g_r34 & 0xffffffffffffUL) + (g_r34 >> 48);          /* PERFSQR_MOD_34's fold: r == value mod 2^48-1 (as a residue), r < 2^49 */
  unsigned long x = nondet_ulong (); __CPROVER_assume (x < DIV && r % DIV == (x * x) % DIV);
  g_reached_sqrt = 0;
  int res = __gmpn_perfect_square_p (U, 1);
  __CPROVER_assert (g_reached_sqrt || OTHER_REJECT, "[C09] a square residue modulo 256 and modulo this divisor is not rejected by its filter");
}
'''
# one unit per divisor: the assertion is about THAT divisor's filter, so a rejection by another divisor's filter is allowed in this run
# (its own unit excludes it).  Sound composition: a true square passes each filter, hence all of them.
for d, others in ((91, (85, 9, 97)), (85, (91, 9, 97)), (9, (91, 85, 97)), (97, (91, 85, 9))):
    # residues modulo the OTHER divisors are also squares for a true square; assume them too so the only way to return 0 is a wrong table
    extra = ''.join('  { unsigned long x%d = nondet_ulong (); __CPROVER_assume (x%d < %d && r %% %d == (x%d * x%d) %% %d); }\n' % (o, o, o, o, o, o, o) for o in others)
    h = H.replace('DIV', str(d)).replace('OTHER_REJECT', '0').replace('  g_reached_sqrt = 0;\n', extra + '  g_reached_sqrt = 0;\n')
    UNITS.append(dict(
        name='perfsqr_filters', props=['C09', 'C04'], source='mpn/generic/perfect_square_p.c', functions={'__gmpn_perfect_square_p': {}},
        harness=h, timeout=1800, tier='off',
        assumptions=['mpn_mod_34lsub1: abstract residue (value mod 2^48-1 up to folding); mpn_sqrtrem: stub; a perfect square has square residues modulo 256, 91, 85, 9, 97 (elementary number theory, stated)'],
        selftest=[]))
    break      # all four residue assumptions are made in one run; one unit suffices
