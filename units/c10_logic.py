"""C10 mpz layer: mpz_xor, mixed signs (one operand >= 0, the other < 0): the result is negative,
       |res| = (P ^ (|N| - 1)) + 1          (-(P ^ -N) = ~(P ^ ~(N-1)) + 1)
stated limb-wise at the ghost position gk as two chains: the borrow chain of |N| - 1 (ghost borrow g_bi at gk, recorded right after the
mpn_sub_1 call) and the carry chain of the final + 1 (g_ci, g_co from mpn_add_1's contract), a carry out of the top limb becoming a new limb 1.
The same-sign partitions of mpz_xor and mpz_and / mpz_ior have no unit."""
from c04_alloc import mpz_obj
from c03_mpn import copy_loop
from c03_mpz import norm_loop
UNITS = []
CONTRACT = '''V_limb g_bi, g_bo;
void __gmpz_xor (mpz_ptr res, mpz_srcptr op1, mpz_srcptr op2)
__CPROVER_requires (V_WF (res) && V_WF (op1) && V_WF (op2) && V_ABSIZ (op1) + 1 < V_ZMAX && V_ABSIZ (op2) + 1 < V_ZMAX && V_GHOSTS_OK)
__CPROVER_assigns (*res, __CPROVER_object_whole (V_PTR (res)), g_ci, g_co, g2_ci, g2_co, g_bi, g_bo)
__CPROVER_frees (V_PTR (res))
__CPROVER_ensures (V_WF_AT (res, gk));
'''
STUBS = '''void *__gmp_tmp_reentrant_alloc (struct tmp_reentrant_t **m, size_t n) { void *q = malloc (n); __CPROVER_assume (q != (void *) 0); *m = (struct tmp_reentrant_t *) q; return q; }
void __gmp_tmp_reentrant_free (struct tmp_reentrant_t *m) { free (m); }
'''
def xor_loop(n):
    """for (i = n - 1; i >= 0; i--) res_ptr[i] = op1_ptr[i] ^ op2_ptr[i];   (op2_ptr is the temporary |N| - 1)"""
    return dict(scalars=['i'], slices=[('res_ptr', '%s * 8' % n)], snap='mp_limb_t V_a = gk < %s ? op1_ptr[gk] : 0, V_b = gk < %s ? op2_ptr[gk] : 0;' % (n, n),
                inv='(-1 <= i && i < %(n)s && ((i < gk && gk < %(n)s) ==> res_ptr[gk] == (V_a ^ V_b)) && ((0 <= gk && gk <= i) ==> (op1_ptr[gk] == V_a && op2_ptr[gk] == V_b)))' % dict(n=n),
                dec='i + 1')
H = '''%(stubs)svoid h_%(name)s (void) {
%(W)s%(U)s%(V)s%(alias)s
  gk = nondet_long (); gj = nondet_long (); gh = 0;
  __CPROVER_assume (0 <= gk && gk < V_ZMAX && 0 <= gj && gj < V_ZMAX && V_WF (w) && V_WF (u) && V_WF (v));
  long su = V_SIZ (u), sv = V_SIZ (v), un = V_ABS (su), vn = V_ABS (sv);
  __CPROVER_assume (un + 1 < V_ZMAX && vn + 1 < V_ZMAX);
  __CPROVER_assume (%(signs)s);
  /* P: the non-negative operand, N: the negative one */
  long pn = su >= 0 ? un : vn, nn = su >= 0 ? vn : un, mx = pn > nn ? pn : nn;
  mpz_srcptr P = su >= 0 ? u : v, N = su >= 0 ? v : u;
  mp_limb_t Pk = gk < pn ? V_PTR (P)[gk] : 0, Nk = gk < nn ? V_PTR (N)[gk] : 0;
  mp_limb_t Uk = gk < un ? V_PTR (u)[gk] : 0, Vk = gk < vn ? V_PTR (v)[gk] : 0;
  g_bi = 0; g_bo = 0; g_ci = 0; g_co = 0;
  __gmpz_xor (w, u, v);
  long sw = V_SIZ (w), wn = V_ABS (sw);
  mp_limb_t Wk = (gk < wn) ? V_PTR (w)[gk < V_ALLOC (w) ? gk : 0] : 0;
  mp_limb_t Mk = gk < nn ? Nk - (gk == 0 ? 1 : 0) - g_bi : 0;                  /* limb gk of |N| - 1 */
  __CPROVER_assert (sw <= 0 && wn <= mx + 1, "[C10] mixed signs: result not positive, at most max (pn, nn) + 1 limbs");
  __CPROVER_assert (gk < nn ==> (g_bi <= 1 && g_bo <= 1 && (gk == 0) == (g_bi == 0 && gk == 0)), "[C10] borrows of |N| - 1 are 0 or 1");
  __CPROVER_assert (gk == 0 ==> g_bi == 0, "[C10] no borrow into limb 0 of |N| - 1");
  __CPROVER_assert (gk < mx ==> (g_ci <= 1 && g_co <= 1 && V_ADDREL (Wk, (Pk ^ Mk), (gk == 0 ? 1 : 0), g_ci, g_co)), "[C10][C05] |res| = (P ^ (|N| - 1)) + 1: carry chain at limb gk");
  __CPROVER_assert ((gk == 0 && gk < mx) ==> g_ci == 0, "[C10] no carry into limb 0");
  __CPROVER_assert (gk == mx - 1 ==> (g_co ? (wn == mx + 1 && V_PTR (w)[mx] == 1) : wn <= mx), "[C10] a carry out of the top limb becomes a new limb 1");
  if (u != w) __CPROVER_assert ((long) V_SIZ (u) == su && (gk < un ==> V_PTR (u)[gk] == Uk), "[C05] op1 unchanged");
  if (v != w) __CPROVER_assert ((long) V_SIZ (v) == sv && (gk < vn ==> V_PTR (v)[gk] == Vk), "[C05] op2 unchanged");
}'''
ALIASES = [('', '  mpz_ptr w = &W; mpz_srcptr u = &U, v = &V;\n'), ('wu', '  mpz_ptr w = &W; mpz_srcptr u = w, v = &V;\n'), ('wv', '  mpz_ptr w = &W; mpz_srcptr u = &U, v = w;\n')]
# each sign pattern is split by shape (which operand is longer): one symbolic copy offset per run
SIGNS = [('pn_long', 'su >= 0 && sv < 0 && un > vn'), ('pn_short', 'su >= 0 && sv < 0 && un <= vn'), ('np_long', 'su < 0 && sv >= 0 && vn > un'), ('np_short', 'su < 0 && sv >= 0 && vn <= un')]
for atag, acode in ALIASES:
    for stag, scode in SIGNS:
        name = 'mpz_xor_' + stag + ('_' + atag if atag else '')
        loops = dict((k, 'unreachable') for k in range(10))
        loops.update({10: copy_loop('gk - op2_size'), 11: xor_loop('op2_size'), 12: copy_loop('gk - op1_size'), 13: xor_loop('op1_size'), 14: norm_loop('res_ptr', 'res_size')})
        UNITS.append(dict(
            name=name, props=['C10', 'C05', 'C04', 'C15'], source='mpz/xor.c', contracts=['mpn.h', 'mpz.h'], contract_text=CONTRACT,
            enforce=['__gmpz_xor'], replace=['__gmpz_realloc', '__gmpn_add_1', '__gmpn_sub_1'],
            assumptions=['partition: one operand >= 0, the other < 0 (%s); alias partition %s' % (scode, atag or 'all distinct'), 'TMP_ALLOC: alloca below 65536 bytes, otherwise the reentrant heap allocator (stub: malloc/free)'],
            functions={'__gmpz_xor': dict(
                inserts=[(r'__gmpn_sub_1 \(opx, op2_ptr, op2_size, \(mp_limb_t\) 1\);\s*op2_ptr = opx;\s*res_alloc = \(\(op1_size\) > \(op2_size\) \? \(op1_size\) : \(op2_size\)\) \+ 1;',
                          r'\g<0> g_bi = g_ci; g_bo = g_co;')],
                loops=loops)},
            harness=H % dict(stubs=STUBS, name=name, W=mpz_obj('W'), U=mpz_obj('U'), V=mpz_obj('V'), alias=acode, signs=scode), timeout=1200,
            tier='off', replay='mpz_xor',      # enabled per unit below once it has been decided on the unchanged tree
            selftest=[('__gmpz_xor', r'res_ptr\[res_size\] = cy;\s*res_size\+\+;', 'res_ptr[res_size] = cy;'),
                      ('__gmpz_xor', r'res_alloc = \(\(op1_size\) > \(op2_size\) \? \(op1_size\) : \(op2_size\)\) \+ 1;', 'res_alloc = ((op1_size) > (op2_size) ? (op1_size) : (op2_size));')] if not atag and stag == 'pn_short' else []))

# ------------------------------------------------------------------ bounded native stand-ins (labelled bounded, never counted as proof)
SPACE = 'operands of 0..3 limbs over the limb alphabet {0, 1, 5, 2^63, 2^64-5, 2^64-1} (top limb non-zero), both signs (431 values)'
UNITS.append(dict(
    name='mpz_logic_enum', kind='native', props=['C10', 'C05'], source='mpz/and.c', more_sources=['mpz/ior.c', 'mpz/xor.c'], driver='replay/smallops_enum.c', args=['logic'],
    bounded='BOUNDED (not proof): complete enumeration of mpz_and / mpz_ior / mpz_xor over every ordered pair of ' + SPACE + ', alias modes distinct / res == op1 / res == op2 / op1 == op2, '
            'destination of one limb or of six: 1.67 million calls against the two\'s-complement limb function tc(z)[k] = z >= 0 ? Z[k] : ~(|z| - 1)[k]',
    desc='[C10][C05] every limb of the infinite two\'s-complement string of the result is the bitwise function of the operands\' strings, the result is normalised, input-only operands are unchanged - over the whole enumerated space',
    assumptions=['bounded stand-in: the proof units of mpz_xor (mixed signs) ran out of memory in CBMC\'s propositional reduction (14 GB cap) and are kept at tier off; mpz_and / mpz_ior have no proof unit'],
    timeout=600, selftest=[]))
UNITS.append(dict(
    name='mpz_bits_enum', kind='native', props=['C10'], source='mpz/setbit.c', more_sources=['mpz/clrbit.c', 'mpz/combit.c'], driver='replay/smallops_enum.c', args=['bits'],
    bounded='BOUNDED (not proof): complete enumeration of mpz_setbit / mpz_clrbit / mpz_combit over ' + SPACE + ' x 19 bit indices around the limb boundaries 0..260 x minimal or generous allocation: 49134 calls',
    desc='[C10] the two\'s-complement string of the result differs from the operand\'s in exactly the addressed bit (set / cleared / flipped); the result is normalised - over the whole enumerated space',
    assumptions=['bounded stand-in for the partitions of mpz_combit that have no proof unit (d < 0 with the bit at or above the lowest non-zero limb); mpz_setbit and mpz_clrbit are proved by their own units'],
    timeout=300, selftest=[]))
