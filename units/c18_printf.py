"""C18 core: integer layout of the gmp_printf family (printf/doprnti.c) against the C rule, and the flag parser of
printf/doprnt.c (bounded, exhaustive over the flag/width/precision grammar)."""
UNITS = []

STR_STUBS = '''/* digit string model: s0 points to `g_len` characters followed by NUL; strlen answers from the ghost length (no bound on the digit count) */
size_t g_len; const char *g_s0;
static size_t V_strlen (const char *s)
{
  __CPROVER_assert (__CPROVER_same_object (s, g_s0) && s >= g_s0 && (size_t) (s - g_s0) <= g_len, "[C18][C04] strlen argument lies inside the digit string");
  return g_len - (size_t) (s - g_s0);
}
static char *V_strchr (const char *s, int c) { return (char *) 0; }      /* integers: no '/' (the mpq form is not covered) */
#define strlen V_strlen
#define strchr V_strchr
'''
# the preprocessed repo text calls strlen/strchr by name; the #defines above are placed BEFORE the function by the weaver
LAYOUT_H = r'''
#undef strlen
#undef strchr
/* gmp-impl.h's constants (macros are gone after preprocessing) */
#define DOPRNT_JUSTIFY_NONE 0
#define DOPRNT_JUSTIFY_LEFT 1
#define DOPRNT_JUSTIFY_RIGHT 2
#define DOPRNT_JUSTIFY_INTERNAL 3
#define DOPRNT_SHOWBASE_YES 1
#define DOPRNT_SHOWBASE_NO 2
#define DOPRNT_SHOWBASE_NONZERO 3
/* recording sinks: total length so far, and the character emitted at one symbolic output position gp (forall-intro) */
long g_pos; long gp; int g_out; _Bool g_out_set; int g_fail_at; int g_events;
static int sink_reps (void *d, int c, int n)
{
  __CPROVER_assert (n > 0, "[C18] reps is called with a positive count");
  if (g_events++ == g_fail_at) return -1;                      /* the output function may fail at any event */
  if (g_pos <= gp && gp < g_pos + n) { g_out = c; g_out_set = 1; }
  g_pos += n;
  return n;
}
static int sink_mem (void *d, const char *p, size_t n)
{
  __CPROVER_assert (n == 0 || __CPROVER_r_ok (p, n), "[C18][C04] memory is called on n readable bytes");
  if (g_events++ == g_fail_at) return -1;
  if (g_pos <= gp && gp < g_pos + (long) n) { g_out = p[gp - g_pos]; g_out_set = 1; }
  g_pos += (long) n;
  return (int) n;
}
void h_doprnt_integer (void)
{
  struct doprnt_funs_t funs = {0, sink_mem, sink_reps, 0};
  struct doprnt_params_t p;
  size_t cap = nondet_ulong (); __CPROVER_assume (cap >= 2 && cap <= 100000);
  char *buf = malloc (cap); __CPROVER_assume (buf != (void *) 0);
  size_t len = nondet_ulong (); __CPROVER_assume (len >= 1 && len < cap && buf[len] == 0);
  g_s0 = buf; g_len = len;
  _Bool neg = (buf[0] == '-'); __CPROVER_assume (!neg || len >= 2);
  long nd0 = (long) len - neg;                                    /* digits as produced by mpz_get_str */
  __CPROVER_assume (buf[neg] != '-' && buf[neg] != 0);
  _Bool iszero = (buf[neg] == '0'); __CPROVER_assume (!iszero || (nd0 == 1 && !neg));     /* no leading zeros: "0" only for zero */
  __CPROVER_assume (p.width >= 0 && p.width <= 100000 && p.prec >= -1 && p.prec <= 100000);
  __CPROVER_assume (p.sign == '+' || p.sign == ' ' || p.sign == 0);
  __CPROVER_assume (p.base == 10 || p.base == 16 || p.base == -16 || p.base == 8);
  __CPROVER_assume (p.showbase == DOPRNT_SHOWBASE_NO || p.showbase == DOPRNT_SHOWBASE_NONZERO);      /* what the C parser produces for '#' */
  __CPROVER_assume (p.justify == DOPRNT_JUSTIFY_LEFT || p.justify == DOPRNT_JUSTIFY_RIGHT || p.justify == DOPRNT_JUSTIFY_INTERNAL);
  __CPROVER_assume (p.fill == ' ' || p.fill == '0');
  _Bool hexb = (p.base == 16 || p.base == -16), sb = (p.showbase != DOPRNT_SHOWBASE_NO);
  /* documented deviation (property C18): '#' with precision 0 on a zero value in hex prints the prefix; outside the comparison */
  __CPROVER_assume (!(sb && hexb && iszero && p.prec == 0));
  gp = nondet_long (); __CPROVER_assume (gp >= 0);
  g_fail_at = nondet_int (); g_events = 0; g_pos = 0; g_out_set = 0;
  int ret = __gmp_doprnt_integer (&funs, 0, &p, buf);
  /* ---- the C rule (C11 7.21.6.1) for d,i,o,x,X, written out */
  long ndig = (iszero && p.prec == 0) ? 0 : nd0;
  long signlen = (neg || p.sign) ? 1 : 0; int signch = neg ? '-' : p.sign;
  long zeros = p.prec > ndig ? p.prec - ndig : 0;
  long pref = 0;
  if (sb && hexb && !iszero) pref = 2;
  if (sb && p.base == 8) pref = (zeros > 0 || (ndig > 0 && buf[neg] == '0')) ? 0 : 1;     /* '#': force a leading zero "if and only if necessary" */
  long body = signlen + pref + zeros + ndig;
  long pad = p.width > body ? p.width - body : 0, total = body + pad;
  long padl = p.justify == DOPRNT_JUSTIFY_RIGHT ? pad : 0, padi = p.justify == DOPRNT_JUSTIFY_INTERNAL ? pad : 0;
  _Bool failed = (g_fail_at >= 0 && g_fail_at < g_events);
  __CPROVER_assert (failed == (ret == -1), "[C18] returns -1 exactly when an output callback failed");
  if (!failed)
    {
      __CPROVER_assert (ret == total && g_pos == total, "[C18] length = max(width, sign + prefix + max(precision, digits)) and equals the bytes emitted");
      if (gp < total)
        {
          int want;
          long o = gp;
          if (o < padl) want = p.fill;
          else if ((o -= padl) < signlen) want = signch;
          else if ((o -= signlen) < pref) want = (p.base == 8 ? '0' : (o == 0 ? '0' : (p.base == 16 ? 'x' : 'X')));
          else if ((o -= pref) < zeros) want = '0';
          else if ((o -= zeros) < padi) want = p.fill;
          else if ((o -= padi) < ndig) want = buf[neg + o];
          else want = p.fill;
          __CPROVER_assert (g_out_set && g_out == want, "[C18] byte at output position gp is the one the C rule places there: [pad][sign][prefix][precision zeros][0-flag pad][digits][pad]");
        }
    }
}
'''
UNITS.append(dict(
    name='doprnt_integer', props=['C18', 'C04'], source='printf/doprnti.c', contract_text=STR_STUBS,
    functions={'__gmp_doprnt_integer': {}},
    assumptions=['strlen/strchr: ghost-length stubs (ISO C contract); digit string as produced by mpz_get_str (optional -, no leading zeros)',
                 'only the mpz form (no / in the string); showbase as set by the C parser for # (the C++ showbase mode is not covered)'],
    harness=LAYOUT_H, timeout=900,
    selftest=[('__gmp_doprnt_integer', r'justlen <= 0', 'justlen < 0'),
              ('__gmp_doprnt_integer', r'signlen = \(sign != .\\0.\)', 'signlen = (sign == \'-\')'),
              ('__gmp_doprnt_integer', r'case -16: showbase = "0X"', 'case -16: showbase = "0x"')],
))

# ------------------------------------------------------------------ flag parser of __gmp_doprnt (bounded, exhaustive over the grammar)
PARSE_H = r'''
#define DOPRNT_JUSTIFY_NONE 0
#define DOPRNT_JUSTIFY_LEFT 1
#define DOPRNT_JUSTIFY_RIGHT 2
#define DOPRNT_JUSTIFY_INTERNAL 3
#define DOPRNT_SHOWBASE_YES 1
#define DOPRNT_SHOWBASE_NO 2
#define DOPRNT_SHOWBASE_NONZERO 3
/* callees of __gmp_doprnt, as stubs: the digit string is irrelevant here, the parameters handed to the layout routine are recorded */
struct doprnt_params_t g_seen; int g_calls;
int __gmp_doprnt_integer (const struct doprnt_funs_t *funs, void *data, const struct doprnt_params_t *p, const char *s) { g_seen = *p; g_calls++; return 1; }
static char g_digits[2] = "7";
char *__gmpz_get_str (char *res, int base, mpz_srcptr x) { return g_digits; }
static void *V_alloc (size_t n) { void *q = malloc (n); __CPROVER_assume (q != (void *) 0); return q; }
static void V_free1 (void *q, size_t n) { if (q != (void *) g_digits) free (q); }
static int V_fmt (void *d, const char *f, va_list ap) { return 0; }
static int call_doprnt (const struct doprnt_funs_t *funs, const char *fmt, ...)
{
  va_list ap; int r;
  va_start (ap, fmt);
  r = __gmp_doprnt (funs, (void *) 0, fmt, ap);
  va_end (ap);
  return r;
}
static void check1 (const char *fmt, _Bool f_minus, _Bool f_plus, _Bool f_space, _Bool f_hash, _Bool f_zero, int width, int prec, char conv)
{
  struct doprnt_funs_t funs = {V_fmt, 0, 0, 0};
  __mpz_struct Z; mp_limb_t zl[1] = {7}; Z._mp_d = zl; Z._mp_alloc = 1; Z._mp_size = 1;
  g_calls = 0;
  call_doprnt (&funs, fmt, &Z);
  __CPROVER_assert (g_calls == 1, "[C18] one Z conversion reaches the integer layout routine exactly once");
  /* C11 7.21.6.1 p6, for d i o x X: '-' left-justifies (and cancels 0); '0' pads with zeros after sign/prefix unless '-' is present or a
     precision is given; '+' overrides space; '#' alternative form */
  int want_just = f_minus ? DOPRNT_JUSTIFY_LEFT : ((f_zero && prec < 0) ? DOPRNT_JUSTIFY_INTERNAL : DOPRNT_JUSTIFY_RIGHT);
  char want_fill = (!f_minus && f_zero && prec < 0) ? '0' : ' ';
  __CPROVER_assert (g_seen.justify == want_just && g_seen.fill == want_fill, "[C18] justification and pad character follow the C rule for the flags - and 0 (0 is ignored with - or with a precision)");
  __CPROVER_assert (g_seen.sign == (f_plus ? '+' : (f_space ? ' ' : 0)), "[C18] sign flag: + overrides space whatever their order");
  __CPROVER_assert (g_seen.showbase == (f_hash ? DOPRNT_SHOWBASE_NONZERO : DOPRNT_SHOWBASE_NO), "[C18] # selects the alternative form");
  __CPROVER_assert (g_seen.width == width && g_seen.prec == prec, "[C18] width and precision as written (no precision = all digits)");
  __CPROVER_assert (g_seen.base == (conv == 'o' ? 8 : conv == 'x' ? 16 : conv == 'X' ? -16 : 10), "[C18] base from the conversion character");
}
void h_doprnt_parse (void)
{
  __gmp_allocate_func = V_alloc; __gmp_free_func = V_free1;
  check1 ("%Zd", 0, 0, 0, 0, 0, 0, -1, 'd');
  check1 ("%Zx", 0, 0, 0, 0, 0, 0, -1, 'x');
  check1 ("%.0Zd", 0, 0, 0, 0, 0, 0, 0, 'd');
  check1 ("%.0Zx", 0, 0, 0, 0, 0, 0, 0, 'x');
  check1 ("%.3Zd", 0, 0, 0, 0, 0, 0, 3, 'd');
  check1 ("%.3Zx", 0, 0, 0, 0, 0, 0, 3, 'x');
  check1 ("%7Zd", 0, 0, 0, 0, 0, 7, -1, 'd');
  check1 ("%7Zx", 0, 0, 0, 0, 0, 7, -1, 'x');
  check1 ("%7.0Zd", 0, 0, 0, 0, 0, 7, 0, 'd');
  check1 ("%7.0Zx", 0, 0, 0, 0, 0, 7, 0, 'x');
  check1 ("%7.3Zd", 0, 0, 0, 0, 0, 7, 3, 'd');
  check1 ("%7.3Zx", 0, 0, 0, 0, 0, 7, 3, 'x');
  check1 ("%-Zd", 1, 0, 0, 0, 0, 0, -1, 'd');
  check1 ("%-Zx", 1, 0, 0, 0, 0, 0, -1, 'x');
  check1 ("%-.0Zd", 1, 0, 0, 0, 0, 0, 0, 'd');
  check1 ("%-.0Zx", 1, 0, 0, 0, 0, 0, 0, 'x');
  check1 ("%-.3Zd", 1, 0, 0, 0, 0, 0, 3, 'd');
  check1 ("%-.3Zx", 1, 0, 0, 0, 0, 0, 3, 'x');
  check1 ("%-7Zd", 1, 0, 0, 0, 0, 7, -1, 'd');
  check1 ("%-7Zx", 1, 0, 0, 0, 0, 7, -1, 'x');
  check1 ("%-7.0Zd", 1, 0, 0, 0, 0, 7, 0, 'd');
  check1 ("%-7.0Zx", 1, 0, 0, 0, 0, 7, 0, 'x');
  check1 ("%-7.3Zd", 1, 0, 0, 0, 0, 7, 3, 'd');
  check1 ("%-7.3Zx", 1, 0, 0, 0, 0, 7, 3, 'x');
  check1 ("%+Zd", 0, 1, 0, 0, 0, 0, -1, 'd');
  check1 ("%+Zx", 0, 1, 0, 0, 0, 0, -1, 'x');
  check1 ("%+.0Zd", 0, 1, 0, 0, 0, 0, 0, 'd');
  check1 ("%+.0Zx", 0, 1, 0, 0, 0, 0, 0, 'x');
  check1 ("%+.3Zd", 0, 1, 0, 0, 0, 0, 3, 'd');
  check1 ("%+.3Zx", 0, 1, 0, 0, 0, 0, 3, 'x');
  check1 ("%+7Zd", 0, 1, 0, 0, 0, 7, -1, 'd');
  check1 ("%+7Zx", 0, 1, 0, 0, 0, 7, -1, 'x');
  check1 ("%+7.0Zd", 0, 1, 0, 0, 0, 7, 0, 'd');
  check1 ("%+7.0Zx", 0, 1, 0, 0, 0, 7, 0, 'x');
  check1 ("%+7.3Zd", 0, 1, 0, 0, 0, 7, 3, 'd');
  check1 ("%+7.3Zx", 0, 1, 0, 0, 0, 7, 3, 'x');
  check1 ("% Zd", 0, 0, 1, 0, 0, 0, -1, 'd');
  check1 ("% Zx", 0, 0, 1, 0, 0, 0, -1, 'x');
  check1 ("% .0Zd", 0, 0, 1, 0, 0, 0, 0, 'd');
  check1 ("% .0Zx", 0, 0, 1, 0, 0, 0, 0, 'x');
  check1 ("% .3Zd", 0, 0, 1, 0, 0, 0, 3, 'd');
  check1 ("% .3Zx", 0, 0, 1, 0, 0, 0, 3, 'x');
  check1 ("% 7Zd", 0, 0, 1, 0, 0, 7, -1, 'd');
  check1 ("% 7Zx", 0, 0, 1, 0, 0, 7, -1, 'x');
  check1 ("% 7.0Zd", 0, 0, 1, 0, 0, 7, 0, 'd');
  check1 ("% 7.0Zx", 0, 0, 1, 0, 0, 7, 0, 'x');
  check1 ("% 7.3Zd", 0, 0, 1, 0, 0, 7, 3, 'd');
  check1 ("% 7.3Zx", 0, 0, 1, 0, 0, 7, 3, 'x');
  check1 ("%#Zd", 0, 0, 0, 1, 0, 0, -1, 'd');
  check1 ("%#Zx", 0, 0, 0, 1, 0, 0, -1, 'x');
  check1 ("%#.0Zd", 0, 0, 0, 1, 0, 0, 0, 'd');
  check1 ("%#.0Zx", 0, 0, 0, 1, 0, 0, 0, 'x');
  check1 ("%#.3Zd", 0, 0, 0, 1, 0, 0, 3, 'd');
  check1 ("%#.3Zx", 0, 0, 0, 1, 0, 0, 3, 'x');
  check1 ("%#7Zd", 0, 0, 0, 1, 0, 7, -1, 'd');
  check1 ("%#7Zx", 0, 0, 0, 1, 0, 7, -1, 'x');
  check1 ("%#7.0Zd", 0, 0, 0, 1, 0, 7, 0, 'd');
  check1 ("%#7.0Zx", 0, 0, 0, 1, 0, 7, 0, 'x');
  check1 ("%#7.3Zd", 0, 0, 0, 1, 0, 7, 3, 'd');
  check1 ("%#7.3Zx", 0, 0, 0, 1, 0, 7, 3, 'x');
  check1 ("%0Zd", 0, 0, 0, 0, 1, 0, -1, 'd');
  check1 ("%0Zx", 0, 0, 0, 0, 1, 0, -1, 'x');
  check1 ("%0.0Zd", 0, 0, 0, 0, 1, 0, 0, 'd');
  check1 ("%0.0Zx", 0, 0, 0, 0, 1, 0, 0, 'x');
  check1 ("%0.3Zd", 0, 0, 0, 0, 1, 0, 3, 'd');
  check1 ("%0.3Zx", 0, 0, 0, 0, 1, 0, 3, 'x');
  check1 ("%07Zd", 0, 0, 0, 0, 1, 7, -1, 'd');
  check1 ("%07Zx", 0, 0, 0, 0, 1, 7, -1, 'x');
  check1 ("%07.0Zd", 0, 0, 0, 0, 1, 7, 0, 'd');
  check1 ("%07.0Zx", 0, 0, 0, 0, 1, 7, 0, 'x');
  check1 ("%07.3Zd", 0, 0, 0, 0, 1, 7, 3, 'd');
  check1 ("%07.3Zx", 0, 0, 0, 0, 1, 7, 3, 'x');
  check1 ("%--Zd", 1, 0, 0, 0, 0, 0, -1, 'd');
  check1 ("%--Zx", 1, 0, 0, 0, 0, 0, -1, 'x');
  check1 ("%--.0Zd", 1, 0, 0, 0, 0, 0, 0, 'd');
  check1 ("%--.0Zx", 1, 0, 0, 0, 0, 0, 0, 'x');
  check1 ("%--.3Zd", 1, 0, 0, 0, 0, 0, 3, 'd');
  check1 ("%--.3Zx", 1, 0, 0, 0, 0, 0, 3, 'x');
  check1 ("%--7Zd", 1, 0, 0, 0, 0, 7, -1, 'd');
  check1 ("%--7Zx", 1, 0, 0, 0, 0, 7, -1, 'x');
  check1 ("%--7.0Zd", 1, 0, 0, 0, 0, 7, 0, 'd');
  check1 ("%--7.0Zx", 1, 0, 0, 0, 0, 7, 0, 'x');
  check1 ("%--7.3Zd", 1, 0, 0, 0, 0, 7, 3, 'd');
  check1 ("%--7.3Zx", 1, 0, 0, 0, 0, 7, 3, 'x');
  check1 ("%-+Zd", 1, 1, 0, 0, 0, 0, -1, 'd');
  check1 ("%-+Zx", 1, 1, 0, 0, 0, 0, -1, 'x');
  check1 ("%-+.0Zd", 1, 1, 0, 0, 0, 0, 0, 'd');
  check1 ("%-+.0Zx", 1, 1, 0, 0, 0, 0, 0, 'x');
  check1 ("%-+.3Zd", 1, 1, 0, 0, 0, 0, 3, 'd');
  check1 ("%-+.3Zx", 1, 1, 0, 0, 0, 0, 3, 'x');
  check1 ("%-+7Zd", 1, 1, 0, 0, 0, 7, -1, 'd');
  check1 ("%-+7Zx", 1, 1, 0, 0, 0, 7, -1, 'x');
  check1 ("%-+7.0Zd", 1, 1, 0, 0, 0, 7, 0, 'd');
  check1 ("%-+7.0Zx", 1, 1, 0, 0, 0, 7, 0, 'x');
  check1 ("%-+7.3Zd", 1, 1, 0, 0, 0, 7, 3, 'd');
  check1 ("%-+7.3Zx", 1, 1, 0, 0, 0, 7, 3, 'x');
  check1 ("%- Zd", 1, 0, 1, 0, 0, 0, -1, 'd');
  check1 ("%- Zx", 1, 0, 1, 0, 0, 0, -1, 'x');
  check1 ("%- .0Zd", 1, 0, 1, 0, 0, 0, 0, 'd');
  check1 ("%- .0Zx", 1, 0, 1, 0, 0, 0, 0, 'x');
  check1 ("%- .3Zd", 1, 0, 1, 0, 0, 0, 3, 'd');
  check1 ("%- .3Zx", 1, 0, 1, 0, 0, 0, 3, 'x');
  check1 ("%- 7Zd", 1, 0, 1, 0, 0, 7, -1, 'd');
  check1 ("%- 7Zx", 1, 0, 1, 0, 0, 7, -1, 'x');
  check1 ("%- 7.0Zd", 1, 0, 1, 0, 0, 7, 0, 'd');
  check1 ("%- 7.0Zx", 1, 0, 1, 0, 0, 7, 0, 'x');
  check1 ("%- 7.3Zd", 1, 0, 1, 0, 0, 7, 3, 'd');
  check1 ("%- 7.3Zx", 1, 0, 1, 0, 0, 7, 3, 'x');
  check1 ("%-#Zd", 1, 0, 0, 1, 0, 0, -1, 'd');
  check1 ("%-#Zx", 1, 0, 0, 1, 0, 0, -1, 'x');
  check1 ("%-#.0Zd", 1, 0, 0, 1, 0, 0, 0, 'd');
  check1 ("%-#.0Zx", 1, 0, 0, 1, 0, 0, 0, 'x');
  check1 ("%-#.3Zd", 1, 0, 0, 1, 0, 0, 3, 'd');
  check1 ("%-#.3Zx", 1, 0, 0, 1, 0, 0, 3, 'x');
  check1 ("%-#7Zd", 1, 0, 0, 1, 0, 7, -1, 'd');
  check1 ("%-#7Zx", 1, 0, 0, 1, 0, 7, -1, 'x');
  check1 ("%-#7.0Zd", 1, 0, 0, 1, 0, 7, 0, 'd');
  check1 ("%-#7.0Zx", 1, 0, 0, 1, 0, 7, 0, 'x');
  check1 ("%-#7.3Zd", 1, 0, 0, 1, 0, 7, 3, 'd');
  check1 ("%-#7.3Zx", 1, 0, 0, 1, 0, 7, 3, 'x');
  check1 ("%-0Zd", 1, 0, 0, 0, 1, 0, -1, 'd');
  check1 ("%-0Zx", 1, 0, 0, 0, 1, 0, -1, 'x');
  check1 ("%-0.0Zd", 1, 0, 0, 0, 1, 0, 0, 'd');
  check1 ("%-0.0Zx", 1, 0, 0, 0, 1, 0, 0, 'x');
  check1 ("%-0.3Zd", 1, 0, 0, 0, 1, 0, 3, 'd');
  check1 ("%-0.3Zx", 1, 0, 0, 0, 1, 0, 3, 'x');
  check1 ("%-07Zd", 1, 0, 0, 0, 1, 7, -1, 'd');
  check1 ("%-07Zx", 1, 0, 0, 0, 1, 7, -1, 'x');
  check1 ("%-07.0Zd", 1, 0, 0, 0, 1, 7, 0, 'd');
  check1 ("%-07.0Zx", 1, 0, 0, 0, 1, 7, 0, 'x');
  check1 ("%-07.3Zd", 1, 0, 0, 0, 1, 7, 3, 'd');
  check1 ("%-07.3Zx", 1, 0, 0, 0, 1, 7, 3, 'x');
  check1 ("%+-Zd", 1, 1, 0, 0, 0, 0, -1, 'd');
  check1 ("%+-Zx", 1, 1, 0, 0, 0, 0, -1, 'x');
  check1 ("%+-.0Zd", 1, 1, 0, 0, 0, 0, 0, 'd');
  check1 ("%+-.0Zx", 1, 1, 0, 0, 0, 0, 0, 'x');
  check1 ("%+-.3Zd", 1, 1, 0, 0, 0, 0, 3, 'd');
  check1 ("%+-.3Zx", 1, 1, 0, 0, 0, 0, 3, 'x');
  check1 ("%+-7Zd", 1, 1, 0, 0, 0, 7, -1, 'd');
  check1 ("%+-7Zx", 1, 1, 0, 0, 0, 7, -1, 'x');
  check1 ("%+-7.0Zd", 1, 1, 0, 0, 0, 7, 0, 'd');
  check1 ("%+-7.0Zx", 1, 1, 0, 0, 0, 7, 0, 'x');
  check1 ("%+-7.3Zd", 1, 1, 0, 0, 0, 7, 3, 'd');
  check1 ("%+-7.3Zx", 1, 1, 0, 0, 0, 7, 3, 'x');
  check1 ("%++Zd", 0, 1, 0, 0, 0, 0, -1, 'd');
  check1 ("%++Zx", 0, 1, 0, 0, 0, 0, -1, 'x');
  check1 ("%++.0Zd", 0, 1, 0, 0, 0, 0, 0, 'd');
  check1 ("%++.0Zx", 0, 1, 0, 0, 0, 0, 0, 'x');
  check1 ("%++.3Zd", 0, 1, 0, 0, 0, 0, 3, 'd');
  check1 ("%++.3Zx", 0, 1, 0, 0, 0, 0, 3, 'x');
  check1 ("%++7Zd", 0, 1, 0, 0, 0, 7, -1, 'd');
  check1 ("%++7Zx", 0, 1, 0, 0, 0, 7, -1, 'x');
  check1 ("%++7.0Zd", 0, 1, 0, 0, 0, 7, 0, 'd');
  check1 ("%++7.0Zx", 0, 1, 0, 0, 0, 7, 0, 'x');
  check1 ("%++7.3Zd", 0, 1, 0, 0, 0, 7, 3, 'd');
  check1 ("%++7.3Zx", 0, 1, 0, 0, 0, 7, 3, 'x');
  check1 ("%+ Zd", 0, 1, 1, 0, 0, 0, -1, 'd');
  check1 ("%+ Zx", 0, 1, 1, 0, 0, 0, -1, 'x');
  check1 ("%+ .0Zd", 0, 1, 1, 0, 0, 0, 0, 'd');
  check1 ("%+ .0Zx", 0, 1, 1, 0, 0, 0, 0, 'x');
  check1 ("%+ .3Zd", 0, 1, 1, 0, 0, 0, 3, 'd');
  check1 ("%+ .3Zx", 0, 1, 1, 0, 0, 0, 3, 'x');
  check1 ("%+ 7Zd", 0, 1, 1, 0, 0, 7, -1, 'd');
  check1 ("%+ 7Zx", 0, 1, 1, 0, 0, 7, -1, 'x');
  check1 ("%+ 7.0Zd", 0, 1, 1, 0, 0, 7, 0, 'd');
  check1 ("%+ 7.0Zx", 0, 1, 1, 0, 0, 7, 0, 'x');
  check1 ("%+ 7.3Zd", 0, 1, 1, 0, 0, 7, 3, 'd');
  check1 ("%+ 7.3Zx", 0, 1, 1, 0, 0, 7, 3, 'x');
  check1 ("%+#Zd", 0, 1, 0, 1, 0, 0, -1, 'd');
  check1 ("%+#Zx", 0, 1, 0, 1, 0, 0, -1, 'x');
  check1 ("%+#.0Zd", 0, 1, 0, 1, 0, 0, 0, 'd');
  check1 ("%+#.0Zx", 0, 1, 0, 1, 0, 0, 0, 'x');
  check1 ("%+#.3Zd", 0, 1, 0, 1, 0, 0, 3, 'd');
  check1 ("%+#.3Zx", 0, 1, 0, 1, 0, 0, 3, 'x');
  check1 ("%+#7Zd", 0, 1, 0, 1, 0, 7, -1, 'd');
  check1 ("%+#7Zx", 0, 1, 0, 1, 0, 7, -1, 'x');
  check1 ("%+#7.0Zd", 0, 1, 0, 1, 0, 7, 0, 'd');
  check1 ("%+#7.0Zx", 0, 1, 0, 1, 0, 7, 0, 'x');
  check1 ("%+#7.3Zd", 0, 1, 0, 1, 0, 7, 3, 'd');
  check1 ("%+#7.3Zx", 0, 1, 0, 1, 0, 7, 3, 'x');
  check1 ("%+0Zd", 0, 1, 0, 0, 1, 0, -1, 'd');
  check1 ("%+0Zx", 0, 1, 0, 0, 1, 0, -1, 'x');
  check1 ("%+0.0Zd", 0, 1, 0, 0, 1, 0, 0, 'd');
  check1 ("%+0.0Zx", 0, 1, 0, 0, 1, 0, 0, 'x');
  check1 ("%+0.3Zd", 0, 1, 0, 0, 1, 0, 3, 'd');
  check1 ("%+0.3Zx", 0, 1, 0, 0, 1, 0, 3, 'x');
  check1 ("%+07Zd", 0, 1, 0, 0, 1, 7, -1, 'd');
  check1 ("%+07Zx", 0, 1, 0, 0, 1, 7, -1, 'x');
  check1 ("%+07.0Zd", 0, 1, 0, 0, 1, 7, 0, 'd');
  check1 ("%+07.0Zx", 0, 1, 0, 0, 1, 7, 0, 'x');
  check1 ("%+07.3Zd", 0, 1, 0, 0, 1, 7, 3, 'd');
  check1 ("%+07.3Zx", 0, 1, 0, 0, 1, 7, 3, 'x');
  check1 ("% -Zd", 1, 0, 1, 0, 0, 0, -1, 'd');
  check1 ("% -Zx", 1, 0, 1, 0, 0, 0, -1, 'x');
  check1 ("% -.0Zd", 1, 0, 1, 0, 0, 0, 0, 'd');
  check1 ("% -.0Zx", 1, 0, 1, 0, 0, 0, 0, 'x');
  check1 ("% -.3Zd", 1, 0, 1, 0, 0, 0, 3, 'd');
  check1 ("% -.3Zx", 1, 0, 1, 0, 0, 0, 3, 'x');
  check1 ("% -7Zd", 1, 0, 1, 0, 0, 7, -1, 'd');
  check1 ("% -7Zx", 1, 0, 1, 0, 0, 7, -1, 'x');
  check1 ("% -7.0Zd", 1, 0, 1, 0, 0, 7, 0, 'd');
  check1 ("% -7.0Zx", 1, 0, 1, 0, 0, 7, 0, 'x');
  check1 ("% -7.3Zd", 1, 0, 1, 0, 0, 7, 3, 'd');
  check1 ("% -7.3Zx", 1, 0, 1, 0, 0, 7, 3, 'x');
  check1 ("% +Zd", 0, 1, 1, 0, 0, 0, -1, 'd');
  check1 ("% +Zx", 0, 1, 1, 0, 0, 0, -1, 'x');
  check1 ("% +.0Zd", 0, 1, 1, 0, 0, 0, 0, 'd');
  check1 ("% +.0Zx", 0, 1, 1, 0, 0, 0, 0, 'x');
  check1 ("% +.3Zd", 0, 1, 1, 0, 0, 0, 3, 'd');
  check1 ("% +.3Zx", 0, 1, 1, 0, 0, 0, 3, 'x');
  check1 ("% +7Zd", 0, 1, 1, 0, 0, 7, -1, 'd');
  check1 ("% +7Zx", 0, 1, 1, 0, 0, 7, -1, 'x');
  check1 ("% +7.0Zd", 0, 1, 1, 0, 0, 7, 0, 'd');
  check1 ("% +7.0Zx", 0, 1, 1, 0, 0, 7, 0, 'x');
  check1 ("% +7.3Zd", 0, 1, 1, 0, 0, 7, 3, 'd');
  check1 ("% +7.3Zx", 0, 1, 1, 0, 0, 7, 3, 'x');
  check1 ("%  Zd", 0, 0, 1, 0, 0, 0, -1, 'd');
  check1 ("%  Zx", 0, 0, 1, 0, 0, 0, -1, 'x');
  check1 ("%  .0Zd", 0, 0, 1, 0, 0, 0, 0, 'd');
  check1 ("%  .0Zx", 0, 0, 1, 0, 0, 0, 0, 'x');
  check1 ("%  .3Zd", 0, 0, 1, 0, 0, 0, 3, 'd');
  check1 ("%  .3Zx", 0, 0, 1, 0, 0, 0, 3, 'x');
  check1 ("%  7Zd", 0, 0, 1, 0, 0, 7, -1, 'd');
  check1 ("%  7Zx", 0, 0, 1, 0, 0, 7, -1, 'x');
  check1 ("%  7.0Zd", 0, 0, 1, 0, 0, 7, 0, 'd');
  check1 ("%  7.0Zx", 0, 0, 1, 0, 0, 7, 0, 'x');
  check1 ("%  7.3Zd", 0, 0, 1, 0, 0, 7, 3, 'd');
  check1 ("%  7.3Zx", 0, 0, 1, 0, 0, 7, 3, 'x');
  check1 ("% #Zd", 0, 0, 1, 1, 0, 0, -1, 'd');
  check1 ("% #Zx", 0, 0, 1, 1, 0, 0, -1, 'x');
  check1 ("% #.0Zd", 0, 0, 1, 1, 0, 0, 0, 'd');
  check1 ("% #.0Zx", 0, 0, 1, 1, 0, 0, 0, 'x');
  check1 ("% #.3Zd", 0, 0, 1, 1, 0, 0, 3, 'd');
  check1 ("% #.3Zx", 0, 0, 1, 1, 0, 0, 3, 'x');
  check1 ("% #7Zd", 0, 0, 1, 1, 0, 7, -1, 'd');
  check1 ("% #7Zx", 0, 0, 1, 1, 0, 7, -1, 'x');
  check1 ("% #7.0Zd", 0, 0, 1, 1, 0, 7, 0, 'd');
  check1 ("% #7.0Zx", 0, 0, 1, 1, 0, 7, 0, 'x');
  check1 ("% #7.3Zd", 0, 0, 1, 1, 0, 7, 3, 'd');
  check1 ("% #7.3Zx", 0, 0, 1, 1, 0, 7, 3, 'x');
  check1 ("% 0Zd", 0, 0, 1, 0, 1, 0, -1, 'd');
  check1 ("% 0Zx", 0, 0, 1, 0, 1, 0, -1, 'x');
  check1 ("% 0.0Zd", 0, 0, 1, 0, 1, 0, 0, 'd');
  check1 ("% 0.0Zx", 0, 0, 1, 0, 1, 0, 0, 'x');
  check1 ("% 0.3Zd", 0, 0, 1, 0, 1, 0, 3, 'd');
  check1 ("% 0.3Zx", 0, 0, 1, 0, 1, 0, 3, 'x');
  check1 ("% 07Zd", 0, 0, 1, 0, 1, 7, -1, 'd');
  check1 ("% 07Zx", 0, 0, 1, 0, 1, 7, -1, 'x');
  check1 ("% 07.0Zd", 0, 0, 1, 0, 1, 7, 0, 'd');
  check1 ("% 07.0Zx", 0, 0, 1, 0, 1, 7, 0, 'x');
  check1 ("% 07.3Zd", 0, 0, 1, 0, 1, 7, 3, 'd');
  check1 ("% 07.3Zx", 0, 0, 1, 0, 1, 7, 3, 'x');
  check1 ("%#-Zd", 1, 0, 0, 1, 0, 0, -1, 'd');
  check1 ("%#-Zx", 1, 0, 0, 1, 0, 0, -1, 'x');
  check1 ("%#-.0Zd", 1, 0, 0, 1, 0, 0, 0, 'd');
  check1 ("%#-.0Zx", 1, 0, 0, 1, 0, 0, 0, 'x');
  check1 ("%#-.3Zd", 1, 0, 0, 1, 0, 0, 3, 'd');
  check1 ("%#-.3Zx", 1, 0, 0, 1, 0, 0, 3, 'x');
  check1 ("%#-7Zd", 1, 0, 0, 1, 0, 7, -1, 'd');
  check1 ("%#-7Zx", 1, 0, 0, 1, 0, 7, -1, 'x');
  check1 ("%#-7.0Zd", 1, 0, 0, 1, 0, 7, 0, 'd');
  check1 ("%#-7.0Zx", 1, 0, 0, 1, 0, 7, 0, 'x');
  check1 ("%#-7.3Zd", 1, 0, 0, 1, 0, 7, 3, 'd');
  check1 ("%#-7.3Zx", 1, 0, 0, 1, 0, 7, 3, 'x');
  check1 ("%#+Zd", 0, 1, 0, 1, 0, 0, -1, 'd');
  check1 ("%#+Zx", 0, 1, 0, 1, 0, 0, -1, 'x');
  check1 ("%#+.0Zd", 0, 1, 0, 1, 0, 0, 0, 'd');
  check1 ("%#+.0Zx", 0, 1, 0, 1, 0, 0, 0, 'x');
  check1 ("%#+.3Zd", 0, 1, 0, 1, 0, 0, 3, 'd');
  check1 ("%#+.3Zx", 0, 1, 0, 1, 0, 0, 3, 'x');
  check1 ("%#+7Zd", 0, 1, 0, 1, 0, 7, -1, 'd');
  check1 ("%#+7Zx", 0, 1, 0, 1, 0, 7, -1, 'x');
  check1 ("%#+7.0Zd", 0, 1, 0, 1, 0, 7, 0, 'd');
  check1 ("%#+7.0Zx", 0, 1, 0, 1, 0, 7, 0, 'x');
  check1 ("%#+7.3Zd", 0, 1, 0, 1, 0, 7, 3, 'd');
  check1 ("%#+7.3Zx", 0, 1, 0, 1, 0, 7, 3, 'x');
  check1 ("%# Zd", 0, 0, 1, 1, 0, 0, -1, 'd');
  check1 ("%# Zx", 0, 0, 1, 1, 0, 0, -1, 'x');
  check1 ("%# .0Zd", 0, 0, 1, 1, 0, 0, 0, 'd');
  check1 ("%# .0Zx", 0, 0, 1, 1, 0, 0, 0, 'x');
  check1 ("%# .3Zd", 0, 0, 1, 1, 0, 0, 3, 'd');
  check1 ("%# .3Zx", 0, 0, 1, 1, 0, 0, 3, 'x');
  check1 ("%# 7Zd", 0, 0, 1, 1, 0, 7, -1, 'd');
  check1 ("%# 7Zx", 0, 0, 1, 1, 0, 7, -1, 'x');
  check1 ("%# 7.0Zd", 0, 0, 1, 1, 0, 7, 0, 'd');
  check1 ("%# 7.0Zx", 0, 0, 1, 1, 0, 7, 0, 'x');
  check1 ("%# 7.3Zd", 0, 0, 1, 1, 0, 7, 3, 'd');
  check1 ("%# 7.3Zx", 0, 0, 1, 1, 0, 7, 3, 'x');
  check1 ("%##Zd", 0, 0, 0, 1, 0, 0, -1, 'd');
  check1 ("%##Zx", 0, 0, 0, 1, 0, 0, -1, 'x');
  check1 ("%##.0Zd", 0, 0, 0, 1, 0, 0, 0, 'd');
  check1 ("%##.0Zx", 0, 0, 0, 1, 0, 0, 0, 'x');
  check1 ("%##.3Zd", 0, 0, 0, 1, 0, 0, 3, 'd');
  check1 ("%##.3Zx", 0, 0, 0, 1, 0, 0, 3, 'x');
  check1 ("%##7Zd", 0, 0, 0, 1, 0, 7, -1, 'd');
  check1 ("%##7Zx", 0, 0, 0, 1, 0, 7, -1, 'x');
  check1 ("%##7.0Zd", 0, 0, 0, 1, 0, 7, 0, 'd');
  check1 ("%##7.0Zx", 0, 0, 0, 1, 0, 7, 0, 'x');
  check1 ("%##7.3Zd", 0, 0, 0, 1, 0, 7, 3, 'd');
  check1 ("%##7.3Zx", 0, 0, 0, 1, 0, 7, 3, 'x');
  check1 ("%#0Zd", 0, 0, 0, 1, 1, 0, -1, 'd');
  check1 ("%#0Zx", 0, 0, 0, 1, 1, 0, -1, 'x');
  check1 ("%#0.0Zd", 0, 0, 0, 1, 1, 0, 0, 'd');
  check1 ("%#0.0Zx", 0, 0, 0, 1, 1, 0, 0, 'x');
  check1 ("%#0.3Zd", 0, 0, 0, 1, 1, 0, 3, 'd');
  check1 ("%#0.3Zx", 0, 0, 0, 1, 1, 0, 3, 'x');
  check1 ("%#07Zd", 0, 0, 0, 1, 1, 7, -1, 'd');
  check1 ("%#07Zx", 0, 0, 0, 1, 1, 7, -1, 'x');
  check1 ("%#07.0Zd", 0, 0, 0, 1, 1, 7, 0, 'd');
  check1 ("%#07.0Zx", 0, 0, 0, 1, 1, 7, 0, 'x');
  check1 ("%#07.3Zd", 0, 0, 0, 1, 1, 7, 3, 'd');
  check1 ("%#07.3Zx", 0, 0, 0, 1, 1, 7, 3, 'x');
  check1 ("%0-Zd", 1, 0, 0, 0, 1, 0, -1, 'd');
  check1 ("%0-Zx", 1, 0, 0, 0, 1, 0, -1, 'x');
  check1 ("%0-.0Zd", 1, 0, 0, 0, 1, 0, 0, 'd');
  check1 ("%0-.0Zx", 1, 0, 0, 0, 1, 0, 0, 'x');
  check1 ("%0-.3Zd", 1, 0, 0, 0, 1, 0, 3, 'd');
  check1 ("%0-.3Zx", 1, 0, 0, 0, 1, 0, 3, 'x');
  check1 ("%0-7Zd", 1, 0, 0, 0, 1, 7, -1, 'd');
  check1 ("%0-7Zx", 1, 0, 0, 0, 1, 7, -1, 'x');
  check1 ("%0-7.0Zd", 1, 0, 0, 0, 1, 7, 0, 'd');
  check1 ("%0-7.0Zx", 1, 0, 0, 0, 1, 7, 0, 'x');
  check1 ("%0-7.3Zd", 1, 0, 0, 0, 1, 7, 3, 'd');
  check1 ("%0-7.3Zx", 1, 0, 0, 0, 1, 7, 3, 'x');
  check1 ("%0+Zd", 0, 1, 0, 0, 1, 0, -1, 'd');
  check1 ("%0+Zx", 0, 1, 0, 0, 1, 0, -1, 'x');
  check1 ("%0+.0Zd", 0, 1, 0, 0, 1, 0, 0, 'd');
  check1 ("%0+.0Zx", 0, 1, 0, 0, 1, 0, 0, 'x');
  check1 ("%0+.3Zd", 0, 1, 0, 0, 1, 0, 3, 'd');
  check1 ("%0+.3Zx", 0, 1, 0, 0, 1, 0, 3, 'x');
  check1 ("%0+7Zd", 0, 1, 0, 0, 1, 7, -1, 'd');
  check1 ("%0+7Zx", 0, 1, 0, 0, 1, 7, -1, 'x');
  check1 ("%0+7.0Zd", 0, 1, 0, 0, 1, 7, 0, 'd');
  check1 ("%0+7.0Zx", 0, 1, 0, 0, 1, 7, 0, 'x');
  check1 ("%0+7.3Zd", 0, 1, 0, 0, 1, 7, 3, 'd');
  check1 ("%0+7.3Zx", 0, 1, 0, 0, 1, 7, 3, 'x');
  check1 ("%0 Zd", 0, 0, 1, 0, 1, 0, -1, 'd');
  check1 ("%0 Zx", 0, 0, 1, 0, 1, 0, -1, 'x');
  check1 ("%0 .0Zd", 0, 0, 1, 0, 1, 0, 0, 'd');
  check1 ("%0 .0Zx", 0, 0, 1, 0, 1, 0, 0, 'x');
  check1 ("%0 .3Zd", 0, 0, 1, 0, 1, 0, 3, 'd');
  check1 ("%0 .3Zx", 0, 0, 1, 0, 1, 0, 3, 'x');
  check1 ("%0 7Zd", 0, 0, 1, 0, 1, 7, -1, 'd');
  check1 ("%0 7Zx", 0, 0, 1, 0, 1, 7, -1, 'x');
  check1 ("%0 7.0Zd", 0, 0, 1, 0, 1, 7, 0, 'd');
  check1 ("%0 7.0Zx", 0, 0, 1, 0, 1, 7, 0, 'x');
  check1 ("%0 7.3Zd", 0, 0, 1, 0, 1, 7, 3, 'd');
  check1 ("%0 7.3Zx", 0, 0, 1, 0, 1, 7, 3, 'x');
  check1 ("%0#Zd", 0, 0, 0, 1, 1, 0, -1, 'd');
  check1 ("%0#Zx", 0, 0, 0, 1, 1, 0, -1, 'x');
  check1 ("%0#.0Zd", 0, 0, 0, 1, 1, 0, 0, 'd');
  check1 ("%0#.0Zx", 0, 0, 0, 1, 1, 0, 0, 'x');
  check1 ("%0#.3Zd", 0, 0, 0, 1, 1, 0, 3, 'd');
  check1 ("%0#.3Zx", 0, 0, 0, 1, 1, 0, 3, 'x');
  check1 ("%0#7Zd", 0, 0, 0, 1, 1, 7, -1, 'd');
  check1 ("%0#7Zx", 0, 0, 0, 1, 1, 7, -1, 'x');
  check1 ("%0#7.0Zd", 0, 0, 0, 1, 1, 7, 0, 'd');
  check1 ("%0#7.0Zx", 0, 0, 0, 1, 1, 7, 0, 'x');
  check1 ("%0#7.3Zd", 0, 0, 0, 1, 1, 7, 3, 'd');
  check1 ("%0#7.3Zx", 0, 0, 0, 1, 1, 7, 3, 'x');
  check1 ("%00Zd", 0, 0, 0, 0, 1, 0, -1, 'd');
  check1 ("%00Zx", 0, 0, 0, 0, 1, 0, -1, 'x');
  check1 ("%00.0Zd", 0, 0, 0, 0, 1, 0, 0, 'd');
  check1 ("%00.0Zx", 0, 0, 0, 0, 1, 0, 0, 'x');
  check1 ("%00.3Zd", 0, 0, 0, 0, 1, 0, 3, 'd');
  check1 ("%00.3Zx", 0, 0, 0, 0, 1, 0, 3, 'x');
  check1 ("%007Zd", 0, 0, 0, 0, 1, 7, -1, 'd');
  check1 ("%007Zx", 0, 0, 0, 0, 1, 7, -1, 'x');
  check1 ("%007.0Zd", 0, 0, 0, 0, 1, 7, 0, 'd');
  check1 ("%007.0Zx", 0, 0, 0, 0, 1, 7, 0, 'x');
  check1 ("%007.3Zd", 0, 0, 0, 0, 1, 7, 3, 'd');
  check1 ("%007.3Zx", 0, 0, 0, 0, 1, 7, 3, 'x');
  check1 ("%#05Zi", 0, 0, 0, 1, 1, 5, -1, 'i');
  check1 ("%#05Zo", 0, 0, 0, 1, 1, 5, -1, 'o');
  check1 ("%#05ZX", 0, 0, 0, 1, 1, 5, -1, 'X');
}
'''
UNITS.append(dict(
    name='doprnt_parse', props=['C18', 'C04'], source='printf/doprnt.c', functions={'__gmp_doprnt': dict(loops={0: 'unwind', 1: 'unwind', 2: 'unwind', 3: 'unwind', 4: 'unwind'})},
    bounded='375 concrete format strings: every sequence of 0..2 flags from {-,+,space,#,0} x width {none,7} x precision {none,.0,.3} x conversion {d,x} (+ i,o,X once); loops unwound 12 with unwinding assertions',
    assumptions=['mpz_get_str, __gmp_doprnt_integer: stubs (the layout routine is verified in unit doprnt_integer); strlen/strcpy/strchr/isdigit: CBMC library models'],
    harness=PARSE_H, unwind=12, timeout=900, cbmc_flags=['--memory-leak-check'],
    selftest=[('__gmp_doprnt', r'param.showbase = DOPRNT_SHOWBASE_NONZERO|param.showbase = 3', 'param.showbase = 1')],
))

# CBMC could not reach the parser (kept above as tier 'off' for the record); the bounded native enumeration stands in
UNITS[-1]['tier'] = 'off'
UNITS.append(dict(
    name='doprnt_flags_enum', kind='native', props=['C18'], source='printf/doprnt.c', more_sources=['printf/doprnti.c'], driver='replay/printf_enum.c',
    bounded='BOUNDED (not proof): complete enumeration of % flags{0..3 of -+ #0} width{none,1,4,9} precision{none,.0,.1,.3,.5} Z conv{d,i,o,x,X} over 9 values, gmp_sprintf vs the C library',
    desc='[C18] gmp_sprintf of %Z conversions is byte-identical to the C library for the equal long, over the whole enumerated grammar',
    assumptions=['the C library sprintf of this sandbox (glibc) is the oracle for the C rule in this bounded stand-in'],
    selftest=[]))

# ------------------------------------------------------------------ bounded-buffer accounting of gmp_snprintf (printf/snprntffuns.c): memory / reps / final
SNP_H = r'''
/* libc block operations as contracts (ISO C): n bytes readable / writable, destination bytes become arbitrary resp. c; no bound on n */
static void *V_memcpy (void *d, const void *s, size_t n)
{
  __CPROVER_assert (n == 0 || (__CPROVER_w_ok (d, n) && __CPROVER_r_ok (s, n)), "[C18][C04] memcpy: n bytes writable at the destination and readable at the source");
  if (n != 0) ((char *) d)[g_pos_probe < n ? g_pos_probe : 0] = ((const char *) s)[g_pos_probe < n ? g_pos_probe : 0];
  return d;
}
static void *V_memset (void *d, int c, size_t n)
{
  __CPROVER_assert (n == 0 || __CPROVER_w_ok (d, n), "[C18][C04] memset: n bytes writable");
  if (n != 0) ((char *) d)[g_pos_probe < n ? g_pos_probe : 0] = (char) c;
  return d;
}
void h_snprintf_funs (void)
{
  /* an arbitrary state of a gmp_snprintf call in progress: caller buffer of size0 bytes, `used` of them consumed */
  size_t size0 = nondet_ulong (); __CPROVER_assume (size0 <= (1UL << 40));
  char *buf0 = malloc (size0 ? size0 : 1); __CPROVER_assume (buf0 != (void *) 0);
  size_t used = nondet_ulong (); __CPROVER_assume (used <= size0 && (size0 == 0 || used <= size0 - 1));
  struct gmp_snprintf_t d; d.buf = buf0 + used; d.size = size0 - used;
  g_pos_probe = nondet_ulong ();
  int which = nondet_int (); __CPROVER_assume (0 <= which && which <= 2);
  size_t len = nondet_ulong (); __CPROVER_assume (len <= 0x7fffffff);
  char *src = malloc (len ? len : 1); __CPROVER_assume (src != (void *) 0);
  int ret;
  if (which == 0) ret = gmp_snprintf_memory (&d, src, len);
  else if (which == 1) ret = gmp_snprintf_reps (&d, nondet_int (), (int) len);
  else ret = gmp_snprintf_final (&d);
  if (which <= 1)
    __CPROVER_assert (ret == (int) len, "[C18] memory/reps return the FULL length, also when the output is truncated");
  /* the state stays inside the caller's buffer and always leaves room for the terminating NUL */
  __CPROVER_assert (d.buf >= buf0 && (size_t) (d.buf - buf0) + d.size == size0, "[C18][C04] buffer accounting: consumed + remaining == size");
  __CPROVER_assert (size0 == 0 || d.size >= 1, "[C18] one byte is always kept for the terminating NUL: never more than size bytes are written");
  if (which == 2 && size0 >= 1) __CPROVER_assert (*d.buf == 0, "[C18] final writes the NUL inside the buffer");
}
'''
UNITS.append(dict(
    name='snprintf_funs', props=['C18', 'C04'], source='printf/snprntffuns.c',
    contract_text='size_t g_pos_probe;\nstatic void *V_memcpy (void *, const void *, size_t); static void *V_memset (void *, int, size_t);\n#define memcpy V_memcpy\n#define memset V_memset\n',
    functions={'gmp_snprintf_memory': {}, 'gmp_snprintf_format': dict(loops={0: 'unwind'})},
    assumptions=['memcpy/memset: ISO C contracts as stubs (every write is bounds-checked for the full n bytes); gmp_snprintf_format (vsnprintf probing) is NOT covered'],
    harness='#undef memcpy\n#undef memset\n' + SNP_H, timeout=600,
    selftest=[('gmp_snprintf_memory', r'd->size-1', 'd->size'), ('gmp_snprintf_reps', r'd->size -= n;', ';')]))
