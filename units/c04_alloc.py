"""C04 core: allocation primitives against the allocator model (DESIGN 3.6 / 6 C04)."""
UNITS = []

def mpz_obj(name, alloc='a' , size=None):
    """C text declaring a heap-backed __mpz_struct `name` with symbolic allocation and size"""
    return ('''  __mpz_struct %(n)s; { long a = nondet_long (); __CPROVER_assume (1 <= a && a <= V_ZMAX);
    %(n)s._mp_alloc = a; %(n)s._mp_d = malloc (a * 8); __CPROVER_assume (%(n)s._mp_d != (void *) 0); %(n)s._mp_size = nondet_long (); }
''' % {'n': name})

UNITS.append(dict(
    name='mpz_realloc_int', props=['C04', 'C15'], source='mpz/realloc.c', contracts=['mpz.h'],
    enforce=['__gmpz_realloc'],
    harness='#include "/verif/contracts/alloc_stubs.h"\nvoid h_mpz_realloc_int (void) {\n  V_INSTALL_ALLOCATOR ();\n' + mpz_obj('M') +
            '  gk = nondet_long (); gj = nondet_long (); gh = nondet_long (); mp_size_t na = nondet_long ();\n  __gmpz_realloc (&M, na);\n}',
    selftest=[('__gmpz_realloc', r'\(m\)->_mp_alloc\)\) \* sizeof', '(m)->_mp_alloc) + 1) * sizeof'),
              ('__gmpz_realloc', r'> new_alloc\)', '> new_alloc + 1)')],
))
