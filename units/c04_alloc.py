"""C04 core: allocation primitives against the allocator model (DESIGN 3.6 / 6 C04)."""
UNITS = []

def mpz_obj(name, alloc='a' , size=None):
    """C text declaring a heap-backed __mpz_struct `name` with symbolic allocation and size"""
    return ('''  __mpz_struct %(n)s; { long a = nondet_long (); __CPROVER_assume (1 <= a && a <= V_ZMAX);
    %(n)s._mp_alloc = a; %(n)s._mp_d = malloc (a * 8); __CPROVER_assume (%(n)s._mp_d != (void *) 0); %(n)s._mp_size = nondet_long (); }
''' % {'n': name})

UNITS.append(dict(
    name='mpz_realloc_int', props=['C04', 'C15'], source='mpz/realloc.c', contracts=['mpz.h'],
    enforce=['__gmpz_realloc'],
    harness='#include "/verif/contracts/alloc_stubs.h"\nvoid h_mpz_realloc_int (void) {\n  V_INSTALL_ALLOCATOR ();\n' + mpz_obj('M') +
            '  gk = nondet_long (); gj = nondet_long (); gh = nondet_long (); mp_size_t na = nondet_long ();\n  __gmpz_realloc (&M, na);\n}',
    selftest=[('__gmpz_realloc', r'\(m\)->_mp_alloc\)\) \* sizeof', '(m)->_mp_alloc) + 1) * sizeof'),
              ('__gmpz_realloc', r'> new_alloc\)', '> new_alloc + 1)')],
))

# ------------------------------------------------------------------ init / clear / realloc2 families against the allocator model
STUBS = '#include "/verif/contracts/alloc_stubs.h"\n'
def lifecycle(name, src, fn, contract, harness, props=('C04', 'C15'), muts=(), contracts=('mpz.h',)):
    return dict(name=name, props=list(props), source=src, contracts=list(contracts), contract_text=contract, enforce=[fn],
                harness=STUBS + harness, cbmc_flags=['--memory-leak-check'], selftest=[(fn,) + m for m in muts])
UNITS.append(lifecycle('mpz_init', 'mpz/init.c', '__gmpz_init',
    'void __gmpz_init (mpz_ptr x) __CPROVER_requires (__CPROVER_w_ok (x, sizeof (*x))) __CPROVER_assigns (*x) __CPROVER_ensures (V_WF (x) && V_SIZ (x) == 0 && V_ALLOC (x) == 1 && __CPROVER_is_fresh (V_PTR (x), 8));\n',
    'void h_mpz_init (void) { V_INSTALL_ALLOCATOR (); __mpz_struct X; __gmpz_init (&X); free (X._mp_d); }',
    muts=[(r'x->_mp_size = 0;', 'x->_mp_size = 1;')]))
UNITS.append(lifecycle('mpz_init2', 'mpz/init2.c', '__gmpz_init2',
    '''void __gmpz_init2 (mpz_ptr x, mp_bitcnt_t bits)
__CPROVER_requires (__CPROVER_w_ok (x, sizeof (*x)) && bits <= 64 * (mp_bitcnt_t) V_ZMAX)
__CPROVER_assigns (*x)
__CPROVER_ensures (V_WF (x) && V_SIZ (x) == 0 && (mp_bitcnt_t) V_ALLOC (x) * 64 >= bits && V_ALLOC (x) == (bits == 0 ? 1 : (long) ((bits + 63) / 64)));
''',
    'void h_mpz_init2 (void) { V_INSTALL_ALLOCATOR (); __mpz_struct X; mp_bitcnt_t b = nondet_ulong (); __gmpz_init2 (&X, b); free (X._mp_d); }',
    muts=[(r'limbs = \(\(limbs\) > \(1\) \? \(limbs\) : \(1\)\);', ';')]))
UNITS.append(lifecycle('mpz_clear', 'mpz/clear.c', '__gmpz_clear',
    'void __gmpz_clear (mpz_ptr m) __CPROVER_requires (V_WF (m)) __CPROVER_assigns () __CPROVER_frees (V_PTR (m));\n',
    'void h_mpz_clear (void) {\n  V_INSTALL_ALLOCATOR ();\n' + mpz_obj('X') + '  __gmpz_clear (&X);\n}',     # leak check: the block must really be released, with its exact size (stub)
    muts=[(r'm->_mp_alloc', '(m->_mp_alloc + 1)')]))
UNITS.append(lifecycle('mpz_realloc2', 'mpz/realloc2.c', '__gmpz_realloc2',
    '''void __gmpz_realloc2 (mpz_ptr m, mp_bitcnt_t bits)
__CPROVER_requires (V_WF (m) && bits <= 64 * (mp_bitcnt_t) V_ZMAX && V_GHOSTS_OK)
__CPROVER_assigns (*m)
__CPROVER_frees (V_PTR (m))
__CPROVER_ensures (V_ALLOC (m) == (bits == 0 ? 1 : (long) ((bits + 63) / 64)) && V_BLOCK (V_PTR (m), (long) V_ALLOC (m)))
/* the value survives exactly when it still fits, else it becomes 0 (never an object with |size| > allocation) */
__CPROVER_ensures (V_ABS ((long) __CPROVER_old (V_SIZ (m))) <= (long) V_ALLOC (m) ? V_SIZ (m) == __CPROVER_old (V_SIZ (m)) : V_SIZ (m) == 0)
__CPROVER_ensures ((gk < V_ABSIZ (m)) ==> V_PTR (m)[gk] == V_OLDSEL (gk < V_ALLOC (m), V_PTR (m) + gk));
''',
    'void h_mpz_realloc2 (void) {\n  V_INSTALL_ALLOCATOR ();\n' + mpz_obj('X') + '  gk = nondet_long (); gj = nondet_long (); gh = nondet_long (); mp_bitcnt_t b = nondet_ulong ();\n  __gmpz_realloc2 (&X, b);\n  free (X._mp_d);\n}',
    muts=[(r'> new_alloc\)', '> new_alloc + 1)')]))
QOBJ = '''  __mpq_struct Q; { long a = nondet_long (), b = nondet_long (); __CPROVER_assume (1 <= a && a <= V_ZMAX && 1 <= b && b <= V_ZMAX);
    Q._mp_num._mp_alloc = a; Q._mp_num._mp_d = malloc (a * 8); Q._mp_num._mp_size = nondet_long (); Q._mp_den._mp_alloc = b; Q._mp_den._mp_d = malloc (b * 8); Q._mp_den._mp_size = nondet_long ();
    __CPROVER_assume (Q._mp_num._mp_d != (void *) 0 && Q._mp_den._mp_d != (void *) 0); }
'''
UNITS.append(lifecycle('mpq_init', 'mpq/init.c', '__gmpq_init',
    'void __gmpq_init (mpq_ptr x) __CPROVER_requires (__CPROVER_w_ok (x, sizeof (*x))) __CPROVER_assigns (*x) __CPROVER_ensures (V_WFQ (x) && V_SIZ (V_NUM (x)) == 0 && V_SIZ (V_DEN (x)) == 1 && V_PTR (V_DEN (x))[0] == 1);\n',
    'void h_mpq_init (void) { V_INSTALL_ALLOCATOR (); __mpq_struct Q; __gmpq_init (&Q); free (Q._mp_num._mp_d); free (Q._mp_den._mp_d); }',
    props=('C04', 'C12', 'C15'), contracts=('mpz.h', 'c11.h', 'mpq.h'), muts=[(r'x->_mp_den._mp_d\[0\] = 1;', 'x->_mp_den._mp_d[0] = 0;')]))
UNITS.append(lifecycle('mpq_clear', 'mpq/clear.c', '__gmpq_clear',
    'void __gmpq_clear (mpq_ptr m) __CPROVER_requires (V_WFQ (m)) __CPROVER_assigns () __CPROVER_frees (V_PTR (V_NUM (m)), V_PTR (V_DEN (m)));\n',
    'void h_mpq_clear (void) {\n  V_INSTALL_ALLOCATOR ();\n' + QOBJ + '  __gmpq_clear (&Q);\n}',
    props=('C04', 'C12', 'C15'), contracts=('mpz.h', 'c11.h', 'mpq.h'), muts=[(r'm->_mp_den._mp_alloc', 'm->_mp_num._mp_alloc')]))
FOBJ = '''  __mpf_struct F; { long pr = nondet_long (); __CPROVER_assume (1 <= pr && pr < V_ZMAX); F._mp_prec = pr; F._mp_d = malloc ((pr + 1) * 8); __CPROVER_assume (F._mp_d != (void *) 0); F._mp_size = nondet_long (); F._mp_exp = nondet_long (); }
'''
UNITS.append(lifecycle('mpf_clear', 'mpf/clear.c', '__gmpf_clear',
    'void __gmpf_clear (mpf_ptr m) __CPROVER_requires (V_WFF (m)) __CPROVER_assigns () __CPROVER_frees (V_PTR (m));\n',
    'void h_mpf_clear (void) {\n  V_INSTALL_ALLOCATOR ();\n' + FOBJ + '  __gmpf_clear (&F);\n}',
    props=('C04', 'C13', 'C15'), contracts=('mpz.h', 'c11.h', 'mpf.h'), muts=[(r'm->_mp_prec \+ 1', 'm->_mp_prec')]))
UNITS.append(lifecycle('mpf_init2', 'mpf/init2.c', '__gmpf_init2',
    '''void __gmpf_init2 (mpf_ptr r, mp_bitcnt_t prec_in_bits)
__CPROVER_requires (__CPROVER_w_ok (r, sizeof (*r)) && prec_in_bits <= 64 * (mp_bitcnt_t) (V_ZMAX - 4))
__CPROVER_assigns (*r)
__CPROVER_ensures (V_WFF (r) && V_SIZ (r) == 0 && V_EXP (r) == 0)
/* mpf_get_prec(r) = 64*prec - 64 bits is at least what was asked for (and at least 53) */
__CPROVER_ensures ((mp_bitcnt_t) V_PREC (r) * 64 - 64 >= prec_in_bits && (mp_bitcnt_t) V_PREC (r) * 64 - 64 >= 53);
''',
    'void h_mpf_init2 (void) { V_INSTALL_ALLOCATOR (); __mpf_struct F; mp_bitcnt_t b = nondet_ulong (); __gmpf_init2 (&F, b); free (F._mp_d); }',
    props=('C04', 'C13', 'C15'), contracts=('mpz.h', 'c11.h', 'mpf.h'), muts=[(r'\(prec \+ 1\) \* 8', '(prec) * 8')]))

# ------------------------------------------------------------------ mpz_init_set / _ui / _si: a fresh block of exactly max(|size|,1) limbs, value copied limb for limb
from c03_mpn import copy_loop
_is = lifecycle('mpz_init_set', 'mpz/iset.c', '__gmpz_init_set',
    '''void __gmpz_init_set (mpz_ptr w, mpz_srcptr u)
__CPROVER_requires (__CPROVER_w_ok (w, sizeof (*w)) && V_WF (u) && !__CPROVER_same_object (w, u) && V_GHOSTS_OK)
__CPROVER_assigns (*w)
__CPROVER_ensures (V_WF (w) && V_SIZ (w) == V_SIZ (u) && V_ALLOC (w) == (V_ABSIZ (u) > 1 ? V_ABSIZ (u) : 1) && __CPROVER_is_fresh (V_PTR (w), (__CPROVER_size_t) V_ALLOC (w) * 8))
__CPROVER_ensures (gk < V_ABSIZ (u) ==> V_PTR (w)[gk] == V_PTR (u)[gk]);
''',
    'void h_mpz_init_set (void) {\n  V_INSTALL_ALLOCATOR ();\n' + mpz_obj('U') + '  __mpz_struct W; gk = nondet_long (); gj = nondet_long (); gh = nondet_long ();\n  __gmpz_init_set (&W, &U);\n  free (W._mp_d); free (U._mp_d);\n}',
    props=('C04', 'C03', 'C15'), muts=[(r'\(\(size\) > \(1\) \? \(size\) : \(1\)\)', '(size)'), (r'w->_mp_size = usize;', 'w->_mp_size = size;')], contracts=('mpn.h', 'mpz.h'))
_is['functions'] = {'__gmpz_init_set': dict(loops={0: copy_loop(['gk'])})}
UNITS.append(_is)
UNITS.append(lifecycle('mpz_init_set_ui', 'mpz/iset_ui.c', '__gmpz_init_set_ui',
    '''void __gmpz_init_set_ui (mpz_ptr dest, mpir_ui val)
__CPROVER_requires (__CPROVER_w_ok (dest, sizeof (*dest)))
__CPROVER_assigns (*dest)
__CPROVER_ensures (V_WF (dest) && V_ALLOC (dest) == 1 && __CPROVER_is_fresh (V_PTR (dest), 8) && V_SIZ (dest) == (val != 0) && (val == 0 || V_PTR (dest)[0] == val));
''',
    'void h_mpz_init_set_ui (void) { V_INSTALL_ALLOCATOR (); __mpz_struct X; mpir_ui v = nondet_ulong (); __gmpz_init_set_ui (&X, v); free (X._mp_d); }',
    props=('C04', 'C11', 'C15'), muts=[(r'size = val != 0;', 'size = 1;')]))
_iss = lifecycle('mpz_init_set_si', 'mpz/iset_si.c', '__gmpz_init_set_si',
    '''void __gmpz_init_set_si (mpz_ptr dest, mpir_si val)
__CPROVER_requires (__CPROVER_w_ok (dest, sizeof (*dest)))
__CPROVER_assigns (*dest)
__CPROVER_ensures (V_WF (dest) && V_ALLOC (dest) == 1 && __CPROVER_is_fresh (V_PTR (dest), 8) && V_SIZ (dest) == (val > 0 ? 1 : (val < 0 ? -1 : 0)))
__CPROVER_ensures (val == 0 || V_PTR (dest)[0] == (val < 0 ? -(mp_limb_t) val : (mp_limb_t) val));
''',
    'void h_mpz_init_set_si (void) { V_INSTALL_ALLOCATOR (); __mpz_struct X; mpir_si v = nondet_long (); __gmpz_init_set_si (&X, v); free (X._mp_d); }',
    props=('C04', 'C11', 'C15'), muts=[(r'val >= 0 \? size : -size', 'val > 0 ? size : size')])
_iss['drop_checks'] = ['--signed-overflow-check']; _iss['cbmc_flags'] = _iss['cbmc_flags'] + ['--no-signed-overflow-check']
_iss['assumptions'] = ['mpz_init_set_si: -LONG_MIN wraps (gcc semantics); signed-overflow check off for this unit']
UNITS.append(_iss)
