"""C03 mpz layer (+ the C04/C05 obligations it carries): L-proofs against the mpn contracts."""
import re
from c04_alloc import mpz_obj
UNITS = []

def norm_loop(dst='wp', nl='wsize', K='gk'):
    """cut of the expanded MPN_NORMALIZE loop: after it, limbs in [nl, old nl) at ghost K are zero and (nl == 0 or dst[nl-1] != 0)"""
    return dict(snap='long V_nl0 = %s;' % nl, scalars=[nl],
                inv='(0 <= %(n)s && %(n)s <= V_nl0 && ((%(n)s <= (%(k)s) && (%(k)s) < V_nl0) ==> %(d)s[%(k)s] == 0))' % {'n': nl, 'k': K, 'd': dst},
                dec=nl)

def split_alias(u, block, options):
    """one unit per alias partition: `block` (the nondeterministic alias choice in the harness) is replaced by each fixed choice.
    A single run over all partitions is the same proof but 5-20x slower (measured: mpq_set_num 340 s -> 3 x 20 s)."""
    out = []
    for tag, code in options:
        v = dict(u)
        v['name'] = u['name'] + ('_' + tag if tag else '')
        assert block in u['harness'], u['name']
        v['harness'] = u['harness'].replace(block, code).replace('h_' + u['name'] + ' (void)', 'h_' + v['name'] + ' (void)')
        if tag:
            v['selftest'] = []
        out.append(v)
    return out

ALIAS3 = '''  mpz_ptr w = &W; mpz_srcptr u = &U, v = &V;
  if (nondet_bool ()) u = w;
  if (nondet_bool ()) v = w;
  if (nondet_bool ()) v = u;                 /* every identification of the three arguments (C05) */
'''

def mpz_aors(op):
    f = '__gmpz_' + op
    neg = '' if op == 'add' else '-'
    harness = '''void h_mpz_%(op)s (void) {
%(W)s%(U)s%(V)s%(alias)s
  gk = nondet_long (); gj = nondet_long (); gh = nondet_long ();
  __CPROVER_assume (0 <= gk && gk <= V_NMAX && 0 <= gj && gj <= V_NMAX && 0 <= gh && gh <= V_NMAX);
  __CPROVER_assume (V_WF (w) && V_WF (u) && V_WF (v));          /* = the contract's requires; lets the snapshots below read safely */
  long su = V_SIZ (u), sv = %(neg)s(long) V_SIZ (v), un = V_ABS (su), vn = V_ABS (sv);
  mp_limb_t Uk = gk < un ? V_PTR (u)[gk] : 0, Vk = gk < vn ? V_PTR (v)[gk] : 0;
  mp_limb_t Uj = gj < un ? V_PTR (u)[gj] : 0, Vj = gj < vn ? V_PTR (v)[gj] : 0;
  mp_limb_t Uh = gh < un ? V_PTR (u)[gh] : 0, Vh = gh < vn ? V_PTR (v)[gh] : 0;
  %(f)s (w, u, v);
  long sw = V_SIZ (w), wn = V_ABS (sw), mx = un >= vn ? un : vn;
  _Bool ubig = un >= vn;
  mp_limb_t Wk = V_PTR (w)[gk < V_ALLOC (w) ? gk : 0];
  if ((su ^ sv) >= 0)
    { /* same sign (or a zero with a non-negative): |w| = |u| + |v|, sign of the operands */
      mp_limb_t Xk = ubig ? Uk : Vk, Yk = ubig ? Vk : Uk;
      __CPROVER_assert (mx + 1 <= V_ALLOC (w), "[C03][C04] sum: room for max(un,vn)+1 limbs");
      __CPROVER_assert (gk < mx ==> (g_ci <= 1 && g_co <= 1 && V_ADDREL (Wk, Xk, Yk, g_ci, g_co)), "[C03][C05] sum: limb gk of |w| satisfies the carry chain of |u|+|v|");
      __CPROVER_assert ((gk == 0 && gk < mx) ==> g_ci == 0, "[C03] sum: no carry into limb 0");
      __CPROVER_assert (gk == mx - 1 ==> V_PTR (w)[mx] == g_co, "[C03] sum: limb max(un,vn) is the carry out of the top limb");
      __CPROVER_assert (V_PTR (w)[mx] <= 1 && wn == mx + (long) V_PTR (w)[mx], "[C03] sum: size = max(un,vn) + carry");
      __CPROVER_assert (wn == 0 || (sw < 0) == ((ubig ? su : sv) < 0), "[C03] sum: sign of the operands");
    }
  else
    { /* opposite signs: |w| = |big| - |small|, sign of big; big by size, then by the highest differing limb */
      /* amb: (a) equal magnitudes (g_hd == -1): both subtraction orders are the same function, accept either;
              (b) equal sizes, a differing limb exists, yet size 0 -- impossible by the chain lemma, but per-position logic cannot exclude it */
      _Bool amb = (un == vn && (g_hd == -1 || sw == 0));
      _Bool bigu = un != vn ? ubig : (sw != 0 ? ((sw < 0) == (su < 0)) : 1);
      mp_limb_t Xk = bigu ? Uk : Vk, Yk = bigu ? Vk : Uk;
      __CPROVER_assert (gk < mx ==> (g_ci <= 1 && g_co <= 1), "[C03] difference: borrows are 0 or 1");
      __CPROVER_assert ((gk < mx && !amb) ==> V_SUBREL (Wk, Xk, Yk, g_ci, g_co), "[C03][C05] difference: limb gk of |w| (before normalisation) satisfies the borrow chain of |big|-|small|");
      __CPROVER_assert ((gk < mx && amb) ==> (V_SUBREL (Wk, Uk, Vk, g_ci, g_co) || V_SUBREL (Wk, Vk, Uk, g_ci, g_co)), "[C03][C05] difference: borrow chain (either order) in the case the chain lemma excludes");
      __CPROVER_assert ((gk == 0 && gk < mx) ==> g_ci == 0, "[C03] difference: no borrow into limb 0");
      __CPROVER_assert (wn <= mx && ((wn <= gk && gk < mx) ==> Wk == 0), "[C03][C04] difference: limbs above the new size are zero");
      __CPROVER_assert (wn == 0 || (sw < 0) == ((bigu ? su : sv) < 0), "[C03] difference: sign of the larger magnitude");
      if (un == vn)
        {
          __CPROVER_assert (-1 <= g_hd && g_hd < un, "[C03] difference: ghost highest-differing index in range");
          __CPROVER_assert ((g_hd < gj && gj < un) ==> Uj == Vj, "[C03] difference: operands agree above the highest differing limb (all limbs when there is none)");
          __CPROVER_assert ((g_hd >= 0 && g_hd == gh) ==> Uh != Vh, "[C03] difference: the ghost index holds differing limbs");
          __CPROVER_assert ((g_hd >= 0 && g_hd == gh && sw != 0) ==> bigu == (Uh > Vh), "[C03] difference: the minuend is the operand with the larger limb at the highest differing position");
        }
    }
}''' % dict(op=op, f=f, neg=neg, W=mpz_obj('W'), U=mpz_obj('U'), V=mpz_obj('V'), alias=ALIAS3)
    return dict(
        name='mpz_' + op, props=['C03', 'C04', 'C05', 'C15'], source='mpz/%s.c' % op, contracts=['mpn.h', 'mpz.h'],
        enforce=[f], replace=['__gmpn_add', '__gmpn_sub', '__gmpn_sub_n', '__gmpn_cmp', '__gmpz_realloc'],
        functions={f: dict(loops={0: norm_loop(), 1: norm_loop(), 2: norm_loop()})},
        harness=harness, timeout=600,
        selftest=[(f, r'if \(w->_mp_alloc < wsize\)', 'if (w->_mp_alloc < wsize - 1)'),
                  (f, r'__gmpn_cmp \(up, vp, abs_usize\) < 0', '__gmpn_cmp (up, vp, abs_usize) > 0'),
                  (f, r'wsize = abs_usize \+ cy_limb', 'wsize = abs_usize')],
    )
A3 = [('', '  mpz_ptr w = &W; mpz_srcptr u = &U, v = &V;\n'), ('wu', '  mpz_ptr w = &W; mpz_srcptr u = w, v = &V;\n'),
      ('wv', '  mpz_ptr w = &W; mpz_srcptr u = &U, v = w;\n'), ('uv', '  mpz_ptr w = &W; mpz_srcptr u = &U, v = u;\n'),
      ('wuv', '  mpz_ptr w = &W; mpz_srcptr u = w, v = w;\n')]
UNITS.extend(split_alias(mpz_aors('add'), ALIAS3, A3))
UNITS.extend(split_alias(mpz_aors('sub'), ALIAS3, A3))

# ------------------------------------------------------------------ mpz_neg / mpz_abs / mpz_set
from c03_mpn import copy_loop
ALIAS2 = '''  mpz_ptr w = &W; mpz_srcptr u = &U;
  if (nondet_bool ()) u = w;                 /* w == u permitted (C05) */
'''
def mpz_copyish(op, sizexpr, muts):
    f = '__gmpz_' + op
    return dict(
        name='mpz_' + op, props=['C03', 'C04', 'C05', 'C15'], source='mpz/%s.c' % op, contracts=['mpn.h', 'mpz.h'],
        enforce=[f], replace=['__gmpz_realloc'],
        functions={f: dict(loops={0: copy_loop('gk', 'incr')})},
        harness='''void h_mpz_%(op)s (void) {
%(W)s%(U)s%(alias)s
  gk = nondet_long (); gj = nondet_long (); gh = nondet_long ();
  __CPROVER_assume (0 <= gk && gk <= V_NMAX && V_WF (w) && V_WF (u));
  long su = V_SIZ (u), un = V_ABS (su);
  mp_limb_t Uk = gk < un ? V_PTR (u)[gk] : 0;
  %(f)s (w, u);
  __CPROVER_assert ((long) V_SIZ (w) == (%(sz)s), "[C03] size and sign of the result");
  __CPROVER_assert (gk < un ==> V_PTR (w)[gk] == Uk, "[C03][C05] limb gk of the result is limb gk of the operand");
  __CPROVER_assert (u != w ==> ((long) V_SIZ (u) == su && (gk < un ==> V_PTR (u)[gk] == Uk)), "[C05] source operand unchanged");
}''' % dict(op=op, f=f, W=mpz_obj('W'), U=mpz_obj('U'), alias=ALIAS2, sz=sizexpr),
        selftest=[(f,) + m for m in muts])
A2 = [('', '  mpz_ptr w = &W; mpz_srcptr u = &U;\n'), ('wu', '  mpz_ptr w = &W; mpz_srcptr u = w;\n')]
UNITS.extend(split_alias(mpz_copyish('neg', '-su', [(r'w->_mp_size = -usize', 'w->_mp_size = usize'), (r'w->_mp_alloc < size', 'w->_mp_alloc < size - 1')]), ALIAS2, A2))
UNITS.extend(split_alias(mpz_copyish('abs', 'un', [(r'w->_mp_size = size', 'w->_mp_size = u->_mp_size')]), ALIAS2, A2))
UNITS.extend(split_alias(mpz_copyish('set', 'su', [(r'w->_mp_alloc < size', 'w->_mp_alloc <= size - 2')]), ALIAS2, A2))

UNITS.append(dict(
    name='mpz_swap', props=['C03', 'C04', 'C05', 'C15'], source='mpz/swap.c', contracts=['mpz.h'], enforce=['__gmpz_swap'],
    harness='void h_mpz_swap (void) {\n%s%s  mpz_ptr u = &U, v = &V; if (nondet_bool ()) v = u;\n  __gmpz_swap (u, v);\n}' % (mpz_obj('U'), mpz_obj('V')),
    selftest=[('__gmpz_swap', r'u->_mp_size = vsize', 'u->_mp_size = usize')]))

# ------------------------------------------------------------------ mpz_add_ui / mpz_sub_ui / mpz_ui_sub
MPZ_UI_CONTRACT = '''void %s (mpz_ptr w, mpz_srcptr u, mpir_ui v)
__CPROVER_requires (V_WF (w) && V_WF (u) && V_ABSIZ (u) < V_ZMAX && V_GHOSTS_OK)
__CPROVER_assigns (*w, __CPROVER_object_whole (V_PTR (w)), g_ci, g_co, g2_ci, g2_co)
__CPROVER_frees (V_PTR (w))
__CPROVER_ensures (V_WF_AT (w, gk));
'''
def mpz_aors_ui(op):
    f = '__gmpz_%s_ui' % op
    s = 1 if op == 'add' else -1
    h = '''void h_mpz_%(op)s_ui (void) {
%(W)s%(U)s%(alias)s
  mpir_ui v = nondet_ulong ();
  gk = nondet_long (); gh = 0;              /* third ghost position: limb 0 (compared with v by the code) */
  __CPROVER_assume (0 <= gk && gk < V_ZMAX && V_WF (w) && V_WF (u));
  gj = gk + 1;                              /* two adjacent positions: "size can decrease by at most one limb" */
  long su = V_SIZ (u), un = V_ABS (su);
  mp_limb_t Uk = gk < un ? V_PTR (u)[gk] : 0, U0 = un ? V_PTR (u)[0] : 0;
  %(f)s (w, u, v);
  long sw = V_SIZ (w), wn = V_ABS (sw);
  mp_limb_t Wk = V_PTR (w)[gk < V_ALLOC (w) ? gk : 0], vk = (gk == 0 ? v : 0);
  _Bool vneg = %(vneg)d;                    /* sign of the term +-v that is added */
  if (un == 0)
    {
      __CPROVER_assert (wn == (v != 0) && (wn == 0 || (V_PTR (w)[0] == v && (sw < 0) == vneg)), "[C03] 0 +- v = +-v");
    }
  else if ((su < 0) == vneg)
    { /* magnitudes add */
      __CPROVER_assert (gk < un ==> (g_ci <= 1 && g_co <= 1 && V_ADDREL (Wk, Uk, vk, g_ci, g_co)), "[C03][C05] |w| = |u| + v: carry chain at limb gk");
      __CPROVER_assert ((gk == 0 && gk < un) ==> g_ci == 0, "[C03] no carry into limb 0");
      __CPROVER_assert (gk == un - 1 ==> V_PTR (w)[un] == g_co, "[C03] limb un is the carry out of the top limb");
      __CPROVER_assert (V_PTR (w)[un] <= 1 && wn == un + (long) V_PTR (w)[un] && (sw < 0) == (su < 0), "[C03] size = un + carry, sign of u");
    }
  else if (un == 1 && U0 < v)
    {
      __CPROVER_assert (wn == 1 && V_PTR (w)[0] == v - U0 && (sw < 0) == vneg, "[C03] |u| < v: result is +-(v - |u|) with the sign of the added term");
    }
  else
    { /* |u| >= v: |w| = |u| - v, sign of u */
      __CPROVER_assert (gk < un ==> (g_ci <= 1 && g_co <= 1 && V_SUBREL (Wk, Uk, vk, g_ci, g_co)), "[C03][C05] |w| = |u| - v: borrow chain at limb gk");
      __CPROVER_assert ((gk == 0 && gk < un) ==> g_ci == 0, "[C03] no borrow into limb 0");
      __CPROVER_assert ((wn == un || wn == un - 1) && ((wn <= gk && gk < un) ==> Wk == 0), "[C03][C04] size drops by at most one limb, the dropped limb is zero");
      __CPROVER_assert (wn == 0 || (sw < 0) == (su < 0), "[C03] sign of u");
    }
  if (u != w) __CPROVER_assert ((long) V_SIZ (u) == su && (gk < un ==> V_PTR (u)[gk] == Uk), "[C05] source operand unchanged");
}''' % dict(op=op, f=f, W=mpz_obj('W'), U=mpz_obj('U'), alias=ALIAS2, vneg=1 if s < 0 else 0)
    u = dict(name='mpz_%s_ui' % op, props=['C03', 'C04', 'C05', 'C15'], source='mpz/%s_ui.c' % op, contracts=['mpn.h', 'mpz.h', 'c11.h', 'mpq.h'],
             contract_text=MPZ_UI_CONTRACT % f, enforce=[f], replace=['__gmpz_realloc', '__gmpn_add_1', '__gmpn_sub_1'],
             harness=h, timeout=600,
             selftest=[(f, r'abs_usize == 1 && up\[0\] < vval', 'abs_usize == 1 && up[0] <= vval'),
                       (f, r'wp\[abs_usize - 1\] == 0', 'wp[abs_usize - 1] == 1'),
                       (f, r'wsize = abs_usize \+ 1;', 'wsize = abs_usize;')])
    return split_alias(u, ALIAS2, A2)
UNITS.extend(mpz_aors_ui('add'))
UNITS.extend(mpz_aors_ui('sub'))

UI_SUB_H = '''void h_mpz_ui_sub (void) {
%(W)s%(V)s  mpz_ptr w = &W; mpz_srcptr v = &V;
  if (nondet_bool ()) v = w;
  mpir_ui uval = nondet_ulong ();
  gk = nondet_long (); gh = 0;
  __CPROVER_assume (0 <= gk && gk < V_ZMAX && V_WF (w) && V_WF (v));
  gj = gk + 1;
  long sv = V_SIZ (v), vn = V_ABS (sv);
  mp_limb_t Vk = gk < vn ? V_PTR (v)[gk] : 0, V0 = vn ? V_PTR (v)[0] : 0;
  __gmpz_ui_sub (w, uval, v);
  long sw = V_SIZ (w), wn = V_ABS (sw);
  mp_limb_t Wk = V_PTR (w)[gk < V_ALLOC (w) ? gk : 0], uk = (gk == 0 ? uval : 0);
  if (sv == 0)
    __CPROVER_assert (wn == (uval != 0) && (wn == 0 || (V_PTR (w)[0] == uval && sw > 0)), "[C03] u - 0 = u");
  else if (sv < 0)
    { /* u + |v| */
      __CPROVER_assert (gk < vn ==> (g_ci <= 1 && g_co <= 1 && V_ADDREL (Wk, Vk, uk, g_ci, g_co)), "[C03][C05] w = u + |v|: carry chain at limb gk");
      __CPROVER_assert ((gk == 0 && gk < vn) ==> g_ci == 0, "[C03] no carry into limb 0");
      __CPROVER_assert (gk == vn - 1 ==> V_PTR (w)[vn] == g_co, "[C03] limb vn is the carry out");
      __CPROVER_assert (V_PTR (w)[vn] <= 1 && wn == vn + (long) V_PTR (w)[vn] && sw > 0, "[C03] size = vn + carry, positive");
    }
  else if (vn == 1 && uval >= V0)
    __CPROVER_assert (V_PTR (w)[0] == uval - V0 && sw == (uval != V0), "[C03] u >= v: non-negative difference");
  else if (vn == 1)
    __CPROVER_assert (V_PTR (w)[0] == V0 - uval && sw == -1, "[C03] one-limb v > u: w = -(v - u)");
  else
    { /* v > u: w = -(v - u) */
      __CPROVER_assert (gk < vn ==> (g_ci <= 1 && g_co <= 1 && V_SUBREL (Wk, Vk, uk, g_ci, g_co)), "[C03][C05] |w| = v - u: borrow chain at limb gk");
      __CPROVER_assert ((gk == 0 && gk < vn) ==> g_ci == 0, "[C03] no borrow into limb 0");
      __CPROVER_assert ((wn == vn || wn == vn - 1) && ((wn <= gk && gk < vn) ==> Wk == 0) && sw < 0, "[C03][C04] size drops by at most one limb; negative");
    }
  if (v != w) __CPROVER_assert ((long) V_SIZ (v) == sv && (gk < vn ==> V_PTR (v)[gk] == Vk), "[C05] source operand unchanged");
}'''
_uis = dict(name='mpz_ui_sub', props=['C03', 'C04', 'C05', 'C15'], source='mpz/ui_sub.c', contracts=['mpn.h', 'mpz.h', 'c11.h', 'mpq.h'],
            contract_text='''void __gmpz_ui_sub (mpz_ptr w, mpir_ui uval, mpz_srcptr v)
__CPROVER_requires (V_WF (w) && V_WF (v) && V_ABSIZ (v) < V_ZMAX && V_GHOSTS_OK)
__CPROVER_assigns (*w, __CPROVER_object_whole (V_PTR (w)), g_ci, g_co, g2_ci, g2_co)
__CPROVER_frees (V_PTR (w))
__CPROVER_ensures (V_WF_AT (w, gk));
''', enforce=['__gmpz_ui_sub'], replace=['__gmpz_realloc', '__gmpn_add_1', '__gmpn_sub_1'],
            harness=UI_SUB_H % dict(W=mpz_obj('W'), V=mpz_obj('V')), timeout=600,
            selftest=[('__gmpz_ui_sub', r'if \(uval >= vp\[0\]\)', 'if (uval > vp[0])'), ('__gmpz_ui_sub', r'vn \+ 1\)', 'vn)')])
UNITS.extend(split_alias(_uis, '  mpz_ptr w = &W; mpz_srcptr v = &V;\n  if (nondet_bool ()) v = w;\n',
                         [('', '  mpz_ptr w = &W; mpz_srcptr v = &V;\n'), ('wv', '  mpz_ptr w = &W; mpz_srcptr v = w;\n')]))

# ------------------------------------------------------------------ mpz_mul_2exp
def store_loop(K):
    return dict(snap='mp_size_t V_sn = __n; mp_ptr V_sd = __dst; long V_sK = (%s);' % K, scalars=['__n'], havoc_targets=['__dst'],
                havoc='{ __CPROVER_assume (1 <= __n && __n <= V_sn); __dst = V_sd + (V_sn - __n); }',
                slices=[('V_sd', 'V_sn * 8')],
                inv='(1 <= __n && __n <= V_sn && __dst == V_sd + (V_sn - __n) && ((0 <= V_sK && V_sK < V_sn - __n) ==> V_sd[V_sK] == 0))',
                dec='__n')
_m2 = (dict(
    name='mpz_mul_2exp', props=['C03', 'C04', 'C05', 'C15'], source='mpz/mul_2exp.c', contracts=['mpn.h', 'mpz.h'],
    enforce=['__gmpz_mul_2exp'], replace=['__gmpz_realloc', '__gmpn_lshift'],
    functions={'__gmpz_mul_2exp': dict(
        inserts=[(r'wlimb = __gmpn_lshift \([^;]*\);',
                  r'{ long V_sv = gk; gk = (gk >= limb_cnt && gk < limb_cnt + abs_usize) ? gk - limb_cnt : 0; \g<0> gk = V_sv; }')],
        loops={0: copy_loop('gk - limb_cnt', 'decr'), 1: store_loop('gk')})},
    harness='''void h_mpz_mul_2exp (void) {
%(W)s%(U)s%(alias)s
  mp_bitcnt_t cnt = nondet_ulong ();
  gk = nondet_long ();
  __CPROVER_assume (0 <= gk && gk <= V_ZMAX && V_WF (w) && V_WF (u));
  long su = V_SIZ (u), un = V_ABS (su), lc = cnt / 64; unsigned c = cnt %% 64;
  __CPROVER_assume (un + lc + 1 <= V_ZMAX);
  long j = gk - lc;                      /* source position feeding result limb gk */
  gj = j >= 0 ? j : 0; gh = j >= 1 ? j - 1 : 0;     /* realloc preserves the limbs at gk, gj, gh */
  mp_limb_t Uj = (0 <= j && j < un) ? V_PTR (u)[j] : 0, Ul = (1 <= j && j <= un) ? V_PTR (u)[j - 1] : 0;
  mp_limb_t Utop = un > 0 ? V_PTR (u)[un - 1] : 0;
  __gmpz_mul_2exp (w, u, cnt);
  long sw = V_SIZ (w), wn = V_ABS (sw);
  mp_limb_t Wk = V_PTR (w)[gk < V_ALLOC (w) ? gk : 0];
  if (su == 0)
    __CPROVER_assert (sw == 0, "[C03] 0 * 2^cnt = 0");
  else
    {
      __CPROVER_assert (wn == un + lc || wn == un + lc + 1, "[C03] size is un + cnt/64 (+1 if bits were shifted into a new limb)");
      __CPROVER_assert ((sw < 0) == (su < 0), "[C03] sign unchanged");
      __CPROVER_assert (gk < lc ==> Wk == 0, "[C03] low cnt/64 limbs are zero");
      __CPROVER_assert ((lc <= gk && gk < un + lc) ==> Wk == (c ? ((Uj << c) | (Ul >> (64 - c))) : Uj), "[C03][C05] limb gk is the shifted source");
      __CPROVER_assert ((gk == un + lc && gk < wn) ==> (c != 0 && Wk == (Ul >> (64 - c))), "[C03] the new top limb holds the bits shifted out");
      __CPROVER_assert ((wn == un + lc && gk == un + lc - 1 && c != 0) ==> (Uj >> (64 - c)) == 0, "[C03] no new limb only if nothing was shifted out");
    }
}''' % dict(W=mpz_obj('W'), U=mpz_obj('U'), alias=ALIAS2),
    selftest=[('__gmpz_mul_2exp', r'wsize = abs_usize \+ limb_cnt \+ 1', 'wsize = abs_usize + limb_cnt'),
              ('__gmpz_mul_2exp', r'if \(wlimb != 0\)', 'if (wlimb > 1)')],
))

# the single run over all cases did not finish in 11 minutes; split by alias partition and by bit-shift / whole-limb shift
for tag, cond in (('d_s', 'u != w && c != 0'), ('d_c', 'u != w && c == 0'), ('a_s', 'u == w && c != 0'), ('a_c', 'u == w && c == 0')):
    v = dict(_m2)
    v['name'] = 'mpz_mul_2exp_' + tag
    v['harness'] = _m2['harness'].replace('h_mpz_mul_2exp', 'h_mpz_mul_2exp_' + tag).replace(
        '  __CPROVER_assume (un + lc + 1 <= V_ZMAX);', '  __CPROVER_assume (un + lc + 1 <= V_ZMAX);\n  __CPROVER_assume (%s);' % cond)
    v['timeout'] = 900
    v['tier'] = 'off'      # undecided: no answer in 15 minutes per case (symbolic limb offset inside one object); see DESIGN 8
    if tag != 'd_s':
        v['selftest'] = []
    UNITS.append(v)

for u in UNITS:
    if u['name'] in ('mpz_add', 'mpz_add_wu', 'mpz_add_wuv', 'mpz_set', 'mpz_set_wu', 'mpz_neg', 'mpz_swap'):
        u['quick_props'] = ['C04', 'C05', 'C15']
