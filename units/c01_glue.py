"""C01 planned slice: mpz_mul glue (sign, size, zero short-cut, reallocation, temporary copies under aliasing, exact-size free, operand order and
non-overlap preconditions of the multi-limb multipliers) over ASSUMED mpn_mul / mpn_sqr / mul_basecase / sqr_basecase."""
from c04_alloc import mpz_obj
from c03_mpn import copy_loop
from c03_mpz import split_alias, ALIAS3, A3
UNITS = []
H = '''#include "/verif/contracts/alloc_stubs.h"
void *__gmp_tmp_reentrant_alloc (struct tmp_reentrant_t **m, size_t n) { void *q = malloc (n); __CPROVER_assume (q != (void *) 0); *m = (struct tmp_reentrant_t *) q; return q; }
void __gmp_tmp_reentrant_free (struct tmp_reentrant_t *m) { free (m); }
void h_mpz_mul (void) {
  V_INSTALL_ALLOCATOR ();
%(W)s%(U)s%(V)s%(alias)s
  gk = nondet_long (); gj = nondet_long (); gh = 0;          /* third ghost position: limb 0 (the one-limb multiplier) */
  __CPROVER_assume (V_GHOSTS_OK && V_WF (w) && V_WF (u) && V_WF (v));
  long su = V_SIZ (u), sv = V_SIZ (v), un = V_ABS (su), vn = V_ABS (sv);
  mp_limb_t Uk = gk < un ? V_PTR (u)[gk] : 0, Uj = gj < un ? V_PTR (u)[gj] : 0, Vk = gk < vn ? V_PTR (v)[gk] : 0, Vj = gj < vn ? V_PTR (v)[gj] : 0;
  mp_limb_t V0 = vn ? V_PTR (v)[0] : 0;
  g_mul_calls = 0;
  __gmpz_mul (w, u, v);
  long sw = V_SIZ (w), wn = V_ABS (sw);
  if (un == 0 || vn == 0)
    __CPROVER_assert (sw == 0 && g_mul_calls == 0, "[C01] a zero operand gives 0 without multiplying");
  else
    {
      __CPROVER_assert (wn == un + vn || wn == un + vn - 1, "[C01] the product has un+vn or un+vn-1 limbs");
      __CPROVER_assert ((sw < 0) == ((su < 0) != (sv < 0)), "[C01] sign of the product = xor of the signs");
      __CPROVER_assert (wn <= V_ALLOC (w), "[C01][C04] room for the product");
      if (vn == 1)
        { /* one-limb multiplier: mpn_mul_1's proved contract gives the product chain at gk */
          __CPROVER_assert (g_mul_calls == 0, "[C01] single-limb multiplier uses mpn_mul_1");
          __CPROVER_assert (gk < un ==> V_MULREL (V_PTR (w)[gk], Uk, V0, g_ci, g_co), "[C01][C05] limb gk of |w| satisfies the product chain of |u| * v0 (relative to the machine multiply)");
          __CPROVER_assert (gk == un - 1 ==> V_PTR (w)[un] == g_co || wn == un, "[C01] carry limb stored");
        }
      else
        {
          __CPROVER_assert (g_mul_calls == 1, "[C01] exactly one multi-limb multiplication");
          /* the multiplier saw the PRE-state limbs of u and v (in either order; larger operand first), also when w aliases them and is reallocated */
          _Bool straight = (g_axn == un && g_ayn == vn && g_ax == Uk && g_ay == Vj), swapped = (g_axn == vn && g_ayn == un && g_ax == Vk && g_ay == Uj);
          __CPROVER_assert (straight || swapped, "[C01][C05] the operands handed to the multiplier are the original limbs of u and v (faithful temporary copies under aliasing)");
          __CPROVER_assert (g_sq ==> (un == vn && Uk == Vk && Uj == Vj), "[C01] the squaring routine is used only when both operands are the same limbs");
        }
    }
  if (u != w) __CPROVER_assert ((long) V_SIZ (u) == su && (gk < un ==> V_PTR (u)[gk] == Uk), "[C05] u (not the result) unchanged");
  if (v != w) __CPROVER_assert ((long) V_SIZ (v) == sv && (gk < vn ==> V_PTR (v)[gk] == Vk), "[C05] v (not the result) unchanged");
  free (W._mp_d); free (U._mp_d); free (V._mp_d);          /* harness-owned blocks; anything else still allocated is a leak of mpz_mul */
}'''
u = dict(name='mpz_mul', props=['C01', 'C04', 'C05', 'C15'], source='mpz/mul.c', contracts=['mpn.h', 'mpz.h', 'mul_assumed.h'],
         enforce=['__gmpz_mul'], extra_sources=['mpz/realloc.c'],   # the real _mpz_realloc (a replaced call only 'may' free the old block: useless under the leak check)
         replace=['__gmpn_mul_1', '__gmpn_mul', '__gmpn_sqr', '__gmpn_mul_basecase', '__gmpn_sqr_basecase'],
         functions={'__gmpz_mul': dict(loops={0: copy_loop(['gk', 'gj']), 1: copy_loop(['gk', 'gj'])})},
         assumptions=['mpn_mul, mpn_sqr, mpn_mul_basecase, mpn_sqr_basecase(asm): ASSUMED shape contracts (contracts/mul_assumed.h): size/non-overlap preconditions, un+vn limbs written, top limb returned, un+vn or un+vn-1 significant limbs; the PRODUCT VALUE is not specified'],
         harness=H % dict(W=mpz_obj('W'), U=mpz_obj('U'), V=mpz_obj('V'), alias=ALIAS3), timeout=900, cbmc_flags=['--memory-leak-check'],
         selftest=[('__gmpz_mul', r'free_me_size = w->_mp_alloc;', 'free_me_size = wsize;'),
                   ('__gmpz_mul', r'if \(wp == vp\)\s*vp = up;', ';'),
                   ('__gmpz_mul', r'else if \(wp == vp\)', 'else if (0)')])
UNITS.extend(split_alias(u, ALIAS3, A3))

# the all-distinct partition did not finish in 25 minutes as one run; it is split by the path mpz_mul takes (decided by sizes/allocation)
_base = [x for x in UNITS if x['name'] == 'mpz_mul'][0]
UNITS.remove(_base)
for _tag, _cond in (('p1', 'vn <= 1 || un == 0'),                                    # zero operand or one-limb multiplier (v); un == 1 < vn goes through the swap of path p3/p4
                    ('p2', 'vn >= 2 && un >= 1 && un + vn <= 17'),                    # schoolbook path (MUL_KARATSUBA_THRESHOLD = 17 in this build)
                    ('p3', 'vn >= 2 && un >= 1 && un + vn > 17 && V_ALLOC (w) < un + vn'),   # destination replaced by a new block
                    ('p4', 'vn >= 2 && un >= 1 && un + vn > 17 && V_ALLOC (w) >= un + vn')):
    _v = dict(_base)
    _v['name'] = 'mpz_mul_' + _tag
    _v['harness'] = _base['harness'].replace('h_mpz_mul (void)', 'h_mpz_mul_%s (void)' % _tag).replace(
        '  g_mul_calls = 0;\n', '  __CPROVER_assume (%s);\n  g_mul_calls = 0;\n' % _cond)
    if _tag != 'p3':
        _v['selftest'] = []
    UNITS.append(_v)

for _u in UNITS:
    if _u['name'].startswith('mpz_mul_p'):
        _u['tier'] = 'off'      # all-distinct partition: 6.7 GB CNF, no verdict in 25 min (kissat) / out of memory (CaDiCaL 20 GB); DESIGN 11.3
    elif _u['name'] in ('mpz_mul_wu', 'mpz_mul_wv', 'mpz_mul_uv'):
        _u['tier'] = 'thorough'; _u['timeout'] = 1800
    elif _u['name'] == 'mpz_mul_wuv':
        _u['timeout'] = 900; _u['quick_props'] = ['C05']
_ST = [('__gmpz_mul', r'free_me_size = w->_mp_alloc;', 'free_me_size = wsize;'), ('__gmpz_mul', r'if \(wp == vp\)\s*vp = up;', ';'), ('__gmpz_mul', r'else if \(wp == vp\)', 'else if (0)')]
for _u in UNITS:
    if _u['name'] == 'mpz_mul_wuv':
        _u['selftest'] = _ST[:2]
    if _u['name'] == 'mpz_mul_wv':
        _u['selftest'] = _ST[2:]
