"""C01 planned slice: mpz_mul glue (sign, size, zero short-cut, reallocation, temporary copies under aliasing, exact-size free, operand order and
non-overlap preconditions of the multi-limb multipliers) over ASSUMED mpn_mul / mpn_sqr / mul_basecase / sqr_basecase."""
from c04_alloc import mpz_obj
from c03_mpn import copy_loop
from c03_mpz import split_alias, ALIAS3, A3
UNITS = []
H = '''#include "/verif/contracts/alloc_stubs.h"
void *__gmp_tmp_reentrant_alloc (struct tmp_reentrant_t **m, size_t n) { void *q = malloc (n); __CPROVER_assume (q != (void *) 0); *m = (struct tmp_reentrant_t *) q; return q; }
void __gmp_tmp_reentrant_free (struct tmp_reentrant_t *m) { free (m); }
void h_mpz_mul (void) {
  V_INSTALL_ALLOCATOR ();
%(W)s%(U)s%(V)s%(alias)s
  gk = nondet_long (); gj = nondet_long (); gh = 0;          /* third ghost position: limb 0 (the one-limb multiplier) */
  __CPROVER_assume (V_GHOSTS_OK && V_WF (w) && V_WF (u) && V_WF (v));
  long su = V_SIZ (u), sv = V_SIZ (v), un = V_ABS (su), vn = V_ABS (sv);
  mp_limb_t Uk = gk < un ? V_PTR (u)[gk] : 0, Uj = gj < un ? V_PTR (u)[gj] : 0, Vk = gk < vn ? V_PTR (v)[gk] : 0, Vj = gj < vn ? V_PTR (v)[gj] : 0;
  mp_limb_t V0 = vn ? V_PTR (v)[0] : 0;
  g_mul_calls = 0;
  __gmpz_mul (w, u, v);
  long sw = V_SIZ (w), wn = V_ABS (sw);
  if (un == 0 || vn == 0)
    __CPROVER_assert (sw == 0 && g_mul_calls == 0, "[C01] a zero operand gives 0 without multiplying");
  else
    {
      __CPROVER_assert (wn == un + vn || wn == un + vn - 1, "[C01] the product has un+vn or un+vn-1 limbs");
      __CPROVER_assert ((sw < 0) == ((su < 0) != (sv < 0)), "[C01] sign of the product = xor of the signs");
      __CPROVER_assert (wn <= V_ALLOC (w), "[C01][C04] room for the product");
      if (vn == 1)
        { /* one-limb multiplier: mpn_mul_1's proved contract gives the product chain at gk */
          __CPROVER_assert (g_mul_calls == 0, "[C01] single-limb multiplier uses mpn_mul_1");
          __CPROVER_assert (gk < un ==> V_MULREL (V_PTR (w)[gk], Uk, V0, g_ci, g_co), "[C01][C05] limb gk of |w| satisfies the product chain of |u| * v0 (relative to the machine multiply)");
          __CPROVER_assert (gk == un - 1 ==> V_PTR (w)[un] == g_co || wn == un, "[C01] carry limb stored");
        }
      else
        {
          __CPROVER_assert (g_mul_calls == 1, "[C01] exactly one multi-limb multiplication");
          /* the multiplier saw the PRE-state limbs of u and v (in either order; larger operand first), also when w aliases them and is reallocated */
          _Bool straight = (g_axn == un && g_ayn == vn && g_ax == Uk && g_ay == Vj), swapped = (g_axn == vn && g_ayn == un && g_ax == Vk && g_ay == Uj);
          __CPROVER_assert (straight || swapped, "[C01][C05] the operands handed to the multiplier are the original limbs of u and v (faithful temporary copies under aliasing)");
          __CPROVER_assert (g_sq ==> (un == vn && Uk == Vk && Uj == Vj), "[C01] the squaring routine is used only when both operands are the same limbs");
        }
    }
  if (u != w) __CPROVER_assert ((long) V_SIZ (u) == su && (gk < un ==> V_PTR (u)[gk] == Uk), "[C05] u (not the result) unchanged");
  if (v != w) __CPROVER_assert ((long) V_SIZ (v) == sv && (gk < vn ==> V_PTR (v)[gk] == Vk), "[C05] v (not the result) unchanged");
  free (W._mp_d); free (U._mp_d); free (V._mp_d);          /* harness-owned blocks; anything else still allocated is a leak of mpz_mul */
}'''
u = dict(name='mpz_mul', props=['C01', 'C04', 'C05', 'C15'], source='mpz/mul.c', contracts=['mpn.h', 'mpz.h', 'mul_assumed.h'],
         enforce=['__gmpz_mul'], extra_sources=['mpz/realloc.c'],   # the real _mpz_realloc (a replaced call only 'may' free the old block: useless under the leak check)
         replace=['__gmpn_mul_1', '__gmpn_mul', '__gmpn_sqr', '__gmpn_mul_basecase', '__gmpn_sqr_basecase'],
         functions={'__gmpz_mul': dict(loops={0: copy_loop(['gk', 'gj']), 1: copy_loop(['gk', 'gj'])})},
         assumptions=['mpn_mul, mpn_sqr, mpn_mul_basecase, mpn_sqr_basecase(asm): ASSUMED shape contracts (contracts/mul_assumed.h): size/non-overlap preconditions, un+vn limbs written, top limb returned, un+vn or un+vn-1 significant limbs; the PRODUCT VALUE is not specified'],
         harness=H % dict(W=mpz_obj('W'), U=mpz_obj('U'), V=mpz_obj('V'), alias=ALIAS3), timeout=900, cbmc_flags=['--memory-leak-check'],
         selftest=[('__gmpz_mul', r'free_me_size = w->_mp_alloc;', 'free_me_size = wsize;'),
                   ('__gmpz_mul', r'if \(wp == vp\)\s*vp = up;', ';'),
                   ('__gmpz_mul', r'else if \(wp == vp\)', 'else if (0)')])
UNITS.extend(split_alias(u, ALIAS3, A3))

# the all-distinct partition did not finish in 25 minutes as one run; it is split by the path mpz_mul takes (decided by sizes/allocation)
_base = [x for x in UNITS if x['name'] == 'mpz_mul'][0]
UNITS.remove(_base)
for _tag, _cond in (('p1', 'vn <= 1 || un == 0'),                                    # zero operand or one-limb multiplier (v); un == 1 < vn goes through the swap of path p3/p4
                    ('p2', 'vn >= 2 && un >= 1 && un + vn <= 17'),                    # schoolbook path (MUL_KARATSUBA_THRESHOLD = 17 in this build)
                    ('p3', 'vn >= 2 && un >= 1 && un + vn > 17 && V_ALLOC (w) < un + vn'),   # destination replaced by a new block
                    ('p4', 'vn >= 2 && un >= 1 && un + vn > 17 && V_ALLOC (w) >= un + vn')):
    _v = dict(_base)
    _v['name'] = 'mpz_mul_' + _tag
    _v['harness'] = _base['harness'].replace('h_mpz_mul (void)', 'h_mpz_mul_%s (void)' % _tag).replace(
        '  g_mul_calls = 0;\n', '  __CPROVER_assume (%s);\n  g_mul_calls = 0;\n' % _cond)
    if _tag != 'p3':
        _v['selftest'] = []
    UNITS.append(_v)

for _u in UNITS:
    if _u['name'].startswith('mpz_mul_p'):
        _u['tier'] = 'off'      # all-distinct partition: 6.7 GB CNF, no verdict in 25 min (kissat) / out of memory (CaDiCaL 20 GB); DESIGN 11.3
    elif _u['name'] in ('mpz_mul_wu', 'mpz_mul_wv', 'mpz_mul_uv'):
        _u['tier'] = 'thorough'; _u['timeout'] = 1800
    elif _u['name'] == 'mpz_mul_wuv':
        _u['timeout'] = 900; _u['quick_props'] = ['C05']
_ST = [('__gmpz_mul', r'free_me_size = w->_mp_alloc;', 'free_me_size = wsize;'), ('__gmpz_mul', r'if \(wp == vp\)\s*vp = up;', ';'), ('__gmpz_mul', r'else if \(wp == vp\)', 'else if (0)')]
for _u in UNITS:
    if _u['name'] == 'mpz_mul_wuv':
        _u['selftest'] = _ST[:2]
    if _u['name'] == 'mpz_mul_wv':
        _u['selftest'] = _ST[2:]

# ------------------------------------------------------------------ mpz_mul_ui / mpz_mul_si: limb-exact over the PROVED contract of mpn_mul_1
def _mul_i(op):
    f = '__gmpz_mul_%s' % op
    ctype = 'mpir_ui' if op == 'ui' else 'mpir_si'
    contract = '''void %s (mpz_ptr prod, mpz_srcptr mult, %s small_mult)
__CPROVER_requires (V_WF (prod) && V_WF (mult) && V_ABSIZ (mult) < V_ZMAX && V_GHOSTS_OK)
__CPROVER_assigns (*prod, __CPROVER_object_whole (V_PTR (prod)), g_ci, g_co)
__CPROVER_frees (V_PTR (prod))
__CPROVER_ensures (V_WF_AT (prod, gk));
''' % (f, ctype)
    h = '''void h_mpz_mul_%(op)s (void) {
%(W)s%(U)s  mpz_ptr w = &W; mpz_srcptr u = &U;
ALIASBLOCK
  %(ctype)s v = %(nd)s;
  gk = nondet_long (); gj = nondet_long (); gh = nondet_long ();
  __CPROVER_assume (V_GHOSTS_OK && V_WF (w) && V_WF (u) && V_ABSIZ (u) < V_ZMAX);
  long su = V_SIZ (u), un = V_ABS (su); mp_limb_t Uk = gk < un ? V_PTR (u)[gk] : 0;
  mp_limb_t av = %(absv)s; _Bool vneg = %(vneg)s;
  %(f)s (w, u, v);
  long sw = V_SIZ (w), wn = V_ABS (sw);
  if (un == 0 || v == 0)
    __CPROVER_assert (sw == 0, "[C01] a zero operand gives 0");
  else
    {
      __CPROVER_assert ((wn == un || wn == un + 1) && wn <= V_ALLOC (w), "[C01][C04] the product has un or un+1 limbs and fits the block");
      __CPROVER_assert ((sw < 0) == ((su < 0) != vneg), "[C01] sign of the product = xor of the signs");
      __CPROVER_assert (gk < un ==> V_MULREL (V_PTR (w)[gk], Uk, av, g_ci, g_co), "[C01][C05] limb gk of |w| satisfies the product chain of |u| * |v| (relative to the machine multiply)");
      __CPROVER_assert ((gk == 0 && gk < un) ==> g_ci == 0, "[C01] no carry into limb 0");
      __CPROVER_assert (gk == un - 1 ==> (V_PTR (w)[un] == g_co && wn == un + (g_co != 0)), "[C01] limb un is the carry out of the top limb; size = un + (carry != 0)");
    }
  if (u != w) __CPROVER_assert ((long) V_SIZ (u) == su && (gk < un ==> V_PTR (u)[gk] == Uk), "[C05] u (not the result) unchanged");
}'''
    d = dict(op=op, f=f, ctype=ctype, W=mpz_obj('W'), U=mpz_obj('U'),
             nd='nondet_ulong ()' if op == 'ui' else 'nondet_long ()',
             absv='v' if op == 'ui' else '(v < 0 ? -(mp_limb_t) v : (mp_limb_t) v)', vneg='0' if op == 'ui' else '(v < 0)')
    base = dict(name='mpz_mul_%s' % op, props=['C01', 'C04', 'C05', 'C15'], source='mpz/mul_%s.c' % op, contracts=['mpn.h', 'mpz.h'], contract_text=contract,
                enforce=[f], replace=['__gmpz_realloc', '__gmpn_mul_1'], functions={f: {}}, harness=h % d, timeout=900,
                drop_checks=['--signed-overflow-check'] if op == 'si' else [], cbmc_flags=['--no-signed-overflow-check'] if op == 'si' else [],
                assumptions=(['ABS(small_mult) for small_mult == LONG_MIN relies on two\'s-complement wrap-around of the negation (gcc semantics); signed-overflow check off for this unit'] if op == 'si' else []),
                selftest=[(f, r'size \+= cy != 0;', 'size += cy > 1;'), (f, r'__builtin_expect \(\(\(size \+ 1\) > ', '__builtin_expect (((size) > ')])
    out = []
    for t, c in (('', ''), ('wu', '  u = w;')):
        v = dict(base); v['name'] = base['name'] + ('_' + t if t else '')
        v['harness'] = base['harness'].replace('ALIASBLOCK', c).replace('h_mpz_mul_%s (void)' % op, 'h_%s (void)' % v['name'])
        if t: v['selftest'] = []
        out.append(v)
    return out
UNITS.extend(_mul_i('ui'))
UNITS.extend(_mul_i('si'))

# ------------------------------------------------------------------ mpz_addmul / mpz_submul (_ui) and mpz_mul: bounded native stand-in (labelled bounded, never counted as proof)
UNITS.append(dict(
    name='mpz_aorsmul_enum', kind='native', props=['C01', 'C05'], source='mpz/aorsmul_i.c', more_sources=['mpz/aorsmul.c', 'mpz/mul.c'], driver='replay/smallops_enum.c', args=['aorsmul'],
    bounded='BOUNDED (not proof): complete enumeration of mpz_addmul_ui / mpz_submul_ui (w, x over operands of 0..3 limbs over the limb alphabet {0, 1, 5, 2^63, 2^64-5, 2^64-1}, both signs: 431 values; '
            'y over the alphabet), mpz_addmul / mpz_submul (same w, x; y over 20 values of 0..2 limbs; alias modes distinct / w == x / w == y / x == y) and mpz_mul (every ordered pair; alias modes distinct / r == x / r == y / '
            'x == y / all equal; destination of one limb or of six): 10.3 million calls',
    desc='[C01][C05] the two\'s-complement limb string of the result equals w +- x*y (resp. x*y) computed by schoolbook arithmetic modulo 2^512 written in the driver; the result is normalised; input-only operands are unchanged - over the whole enumerated space',
    assumptions=['bounded stand-in: mpz_aorsmul_1 (the body of mpz_addmul_ui / mpz_submul_ui) has no proof unit (its submul branch negates in place through mpn_not + MPN_INCR_U and a second multiply pass); '
                 'the all-distinct partition of mpz_mul is undecided as a proof (DESIGN 11.3) and is covered here only over this operand space'],
    timeout=300, selftest=[]))
