"""C06 string layer: mpz_set_str for base 16 over the mpn_set_str contract PROVED in unit mpn_set_str_b16 (same text, replaced at the call).

The input string is symbolic and of unbounded length: `g_len` characters followed by NUL, shaped by three harness-chosen positions
      [0, g_a) white space | optional '-' | [d0, g_b) '0' or white space | [g_b, g_len) digits and white space
The "for every character" facts of that shape are instantiated by woven assumes at the one character each loop iteration reads (listed in
the assumptions).  What is proved, from the manual's text and not from the code:
  * -1 is returned exactly when the first character after the sign is no digit, or some non-blank character of the digit part is no digit
    (witness position g_src), and then x is left unchanged;
  * an all-zero digit part gives 0; otherwise the sign is that of the '-', and the non-blank character at g_src appears as the 4-bit field of
    |x| that mpn_set_str's contract assigns to its rank among the non-blank characters;
  * x is well formed: the block has room for what mpn_set_str writes (the floating-point size estimate!) and - because leading zeros
    are skipped - the top limb is non-zero;  the scratch block is released on every path."""
from c04_alloc import mpz_obj
from c06_radix import SS_CONTRACT
UNITS = []

PRE = r'''extern const void *__CPROVER_alloca_object;
size_t g_len; const char *g_s0; long g_a, g_b, g_src, g_dst, g_n, g_mode, g_bad;
static size_t V_strlen (const char *s)
{
  __CPROVER_assert (__CPROVER_same_object (s, g_s0) && s >= g_s0 && (size_t) (s - g_s0) <= g_len, "[C06][C04] strlen argument lies inside the string");
  return g_len - (size_t) (s - g_s0);
}
#define strlen V_strlen
/* <ctype.h> in the C locale: only the white-space bit (isspace) is consulted by mpz_set_str */
static const unsigned short V_ctype[384] = { [128 + 9] = 0x2000, [128 + 10] = 0x2000, [128 + 11] = 0x2000, [128 + 12] = 0x2000, [128 + 13] = 0x2000, [128 + 32] = 0x2000 };
/* (a static POINTER variable is not initialised under goto-instrument --dfcc - measured; the table is reached through a compound literal instead) */
#define __ctype_b_loc() (&(const unsigned short *){V_ctype + 128})
#define V_SP(c)  ((c) == 32 || (9 <= (c) && (c) <= 13))
#define V_UC(i)  ((int) (unsigned char) g_s0[i])
/* digit value in bases <= 36 (the manual: upper and lower case letters both stand for 10..35) */
#define V_DV(c)  (('0' <= (c) && (c) <= '9') ? (c) - '0' : ('a' <= (c) && (c) <= 'z') ? (c) - 'a' + 10 : ('A' <= (c) && (c) <= 'Z') ? (c) - 'A' + 10 : 255)
#define V_D0     (g_a + (V_UC (g_a) == '-' ? 1 : 0))
/* the shape of the input at character index i (the instantiation of the harness's for-all facts) */
#define V_SHAPE(i) (((i) < (long) g_len ? V_UC (i) != 0 : V_UC (i) == 0) \
                 && ((i) < g_a ? V_SP (V_UC (i)) : 1) && ((i) == g_a ? !V_SP (V_UC (i)) : 1) \
                 && ((V_D0 <= (i) && (i) < g_b) ? (V_UC (i) == '0' || V_SP (V_UC (i))) : 1) && ((i) == g_b ? !(V_UC (i) == '0' || V_SP (V_UC (i))) : 1))
void *__gmp_tmp_reentrant_alloc (struct tmp_reentrant_t **m, size_t n) { void *q = malloc (n); __CPROVER_assume (q != (void *) 0); *m = (struct tmp_reentrant_t *) q; return q; }
void __gmp_tmp_reentrant_free (struct tmp_reentrant_t *m) { free (m); }
int __gmpz_set_str (mpz_ptr x, const char *str, int base)
__CPROVER_requires (V_WF (x) && base == 16 && str == g_s0 && 0 <= gk && gk <= V_NMAX && 0 <= gh && gh <= V_NMAX)
__CPROVER_assigns (*x, __CPROVER_object_whole (V_PTR (x)), gj, g_dst, g_n, g_bad, __CPROVER_alloca_object)
__CPROVER_frees (V_PTR (x))
__CPROVER_ensures (__CPROVER_return_value == 0 || __CPROVER_return_value == -1)
/* an invalid string leaves x as it was */
__CPROVER_ensures (__CPROVER_return_value == -1 ==> (V_SIZ (x) == __CPROVER_old (V_SIZ (x)) && V_PTR (x) == __CPROVER_old (V_PTR (x)) && V_ALLOC (x) == __CPROVER_old (V_ALLOC (x))))
__CPROVER_ensures (V_WFA (x) && V_ABSIZ (x) <= V_ALLOC (x));
'''

def _unit():
    IDX = '(str - g_s0)'
    inv0 = '(__CPROVER_same_object (str, g_s0) && 0 <= II && II <= g_a)'.replace('II', IDX)
    # loop 1: c is the character at index str - 1; everything in [d0, that index) is '0' or blank
    inv1 = ('(__CPROVER_same_object (str, g_s0) && V_D0 + 1 <= II && II <= g_b + 1 && c == V_UC (II - 1) && V_DV (V_UC (V_D0)) < 16 && base == 16 && negative == (V_UC (g_a) == \'-\'))').replace('II', IDX)
    # loop 2: c is the character at index g_b + i
    inv2 = ('(__CPROVER_same_object (str, g_s0) && base == 16 && negative == (V_UC (g_a) == \'-\') && g_b < (long) g_len && str_size == g_len - (size_t) g_b && i <= str_size && II == g_b + 1 + (long) i && c == V_UC (g_b + (long) i) '
            '&& __CPROVER_same_object (s, begs) && 0 <= s - begs && (size_t) (s - begs) <= i && __CPROVER_w_ok (begs, str_size + 1) && !__CPROVER_same_object (begs, g_s0) && !__CPROVER_same_object (begs, x) && !__CPROVER_same_object (begs, V_PTR (x)) '
            '&& (i >= 1 ==> (s - begs >= 1 && begs[0] != 0)) && -1 <= g_dst && g_dst <= s - begs '
            '&& ((g_b <= g_src && g_src < g_b + (long) i && !V_SP (V_UC (g_src))) ==> (V_DV (V_UC (g_src)) < 16 && 0 <= g_dst && g_dst < s - begs && (unsigned char) begs[g_dst] == V_DV (V_UC (g_src)) && (g_src == g_b ==> g_dst == 0))))').replace('II', IDX)
    return dict(
        name='mpz_set_str_b16', props=['C06', 'C04', 'C15'], source='mpz/set_str.c', extra_sources=['mpn/mp_bases.c', 'mp_dv_tab.c', 'mpz/realloc.c'], contracts=['mpn.h', 'mpz.h'],
        contract_text='#define V_BASE 16\n#define V_KC 4\n' + SS_CONTRACT + PRE,
        enforce=['__gmpz_set_str'], replace=['__gmpn_set_str'], cbmc_flags=['--memory-leak-check'],
        functions={'__gmpz_set_str': dict(
            nloops=3,
            inserts=[(r'xsize = __gmpn_set_str \(', r'g_n = (long) str_size; gj = (g_mode || g_dst < 0 || g_dst >= (long) str_size) ? (long) str_size - 1 : (long) str_size - 1 - g_dst; \g<0>'),
                     (r'return -1;\s*\}\s*\*s\+\+ = dig;', r'g_bad = g_b + (long) i; \g<0>')],
            loops={0: dict(scalars=['c'], havoc_targets=['str'], havoc='{ long V_i = nondet_long (); __CPROVER_assume (0 <= V_i && V_i <= g_a); str = g_s0 + V_i; }', havoc_inv={'V_i': '(str - g_s0)'},
                           inv=inv0, dec='((long) g_len + 1 - (str - g_s0))', begin='__CPROVER_assume (V_SHAPE (str - g_s0));'),
                   1: dict(scalars=['c'], havoc_targets=['str'], havoc='{ long V_i = nondet_long (); __CPROVER_assume (V_D0 + 1 <= V_i && V_i <= g_b + 1); str = g_s0 + V_i; }', havoc_inv={'V_i': '(str - g_s0)'},
                           inv=inv1, dec='((long) g_len + 1 - (str - g_s0))', head='__CPROVER_assume (V_SHAPE (str - g_s0 - 1));', begin='__CPROVER_assume (V_SHAPE (str - g_s0));'),
                   2: dict(scalars=['c', 'i', 'g_dst'], havoc_targets=['str', 's'], local_to_body=['dig', 'g_bad'],
                           havoc='{ long V_i = nondet_long (); long V_w = nondet_long (); __CPROVER_assume (0 <= V_i && (size_t) V_i <= str_size && 0 <= V_w && V_w <= V_i); i = (size_t) V_i; str = g_s0 + (g_b + 1 + V_i); s = begs + V_w; }',
                           havoc_inv={'V_i': '(str - g_s0 - g_b - 1)', 'V_w': '(s - begs)'}, slices=[('begs', 'str_size + 1')],
                           inv=inv2, dec='((long) str_size - (long) i)', head='__CPROVER_assume (V_SHAPE (str - g_s0 - 1));',
                           begin='__CPROVER_assume (V_SHAPE (str - g_s0)); if (g_b + (long) i == g_src) g_dst = s - begs;')})},
        assumptions=['base 16 only; mpn_set_str is used by the contract proved in unit mpn_set_str_b16; the real _mpz_realloc (mpz/realloc.c) runs against the allocator model',
                     'C locale: isspace is true exactly for the six ISO C white-space characters (stub of __ctype_b_loc); strlen: ghost-length stub (ISO C contract)',
                     'the input string is g_len non-NUL characters followed by NUL, with the shape [blanks]["-"][zeros or blanks][digit part]; these for-all facts are instantiated by a woven assume at the character each loop iteration is about to read (V_SHAPE)',
                     'the rank of a digit among the non-blank characters is the ghost g_dst recorded when the loop passes position g_src; that ranks are consecutive is not stated',
                     'TMP_ALLOC: alloca below 65536 bytes, otherwise the reentrant heap allocator (stub: malloc/free, leak-checked)'],
        harness='''#include "/verif/contracts/alloc_stubs.h"
void h_mpz_set_str_b16 (void) {
  V_INSTALL_ALLOCATOR ();
''' + mpz_obj('X') + '''  g_len = nondet_ulong (); __CPROVER_assume (g_len <= (1UL << 32));
  char *S = malloc (g_len + 1); __CPROVER_assume (S != (void *) 0); g_s0 = S;
  g_a = nondet_long (); g_b = nondet_long (); g_src = nondet_long (); g_mode = nondet_bool (); g_dst = -1; g_n = -1; g_bad = -1;
  __CPROVER_assume (0 <= g_a && g_a <= (long) g_len && V_SHAPE (g_a) && V_D0 <= (long) g_len && V_D0 <= g_b && g_b <= (long) g_len && V_SHAPE (g_b) && V_SHAPE (V_D0));
  __CPROVER_assume (0 <= g_src && g_src < (long) g_len && V_SHAPE (g_src) && V_SHAPE ((long) g_len));
  gk = 0; gh = 0; gj = 0;
  __CPROVER_assume (V_WF (&X));
  long d0 = V_D0; _Bool neg = (V_UC (g_a) == '-');
  int r = __gmpz_set_str (&X, S, 16);
  long sx = V_SIZ (&X), xn = V_ABS (sx);
  _Bool src_digit_part = (g_b <= g_src && !V_SP (V_UC (g_src)));
  if (V_DV (V_UC (d0)) >= 16)
    __CPROVER_assert (r == -1, "[C06] no digit after the optional sign: -1");
  else if (g_b == (long) g_len)
    __CPROVER_assert (r == 0 && sx == 0, "[C06] only zeros (and blanks) after the sign: value 0");
  else
    {
      __CPROVER_assert ((src_digit_part && V_DV (V_UC (g_src)) >= 16) ==> r == -1, "[C06] a non-blank character that is no digit in this base: -1");
      __CPROVER_assert (r == -1 ==> (g_b <= g_bad && g_bad < (long) g_len && !V_SP (V_UC (g_bad)) && V_DV (V_UC (g_bad)) >= 16), "[C06] -1 only with a witness: a non-blank non-digit character at g_bad");
      if (r == 0)
        {
          if (g_mode) __CPROVER_assert (xn >= 1 && (sx < 0) == neg, "[C06] non-zero digit part: non-zero value with the sign of the '-'");
          __CPROVER_assert (g_n >= 1 && (xn == g_n * 4 / 64 || xn == g_n * 4 / 64 + 1), "[C06] size is that of g_n hexadecimal digits");
          if (g_mode) __CPROVER_assert (V_PTR (&X)[xn - 1] != 0, "[C06][C04] leading zeros were skipped: the top limb is non-zero");
          else if (src_digit_part)
            __CPROVER_assert (0 <= g_dst && g_dst < g_n && V_SFIELD ((unsigned long) (g_n - 1 - g_dst) * 4, V_PTR (&X), xn, (mp_limb_t) 0) == (mp_limb_t) V_DV (V_UC (g_src)),
                              "[C06] the digit at g_src is the 4-bit field of |x| given by its rank among the non-blank characters");
        }
    }
  free (X._mp_d); free (S);
}''', timeout=1500,
        selftest=[('__gmpz_set_str', r"while \(c == '0' \|\| ", "while ("), ('__gmpz_set_str', r'/ \(64 - 0\) \+ 2\)', '/ (64 - 0))'),
                  ('__gmpz_set_str', r'negative \? -xsize : xsize', 'xsize'), ('__gmpz_set_str', r'if \(dig >= base\)', 'if (dig > base)')])

UNITS.append(_unit())

# ------------------------------------------------------------------ general bases: bounded native stand-in (labelled bounded, never counted as proof)
UNITS.append(dict(
    name='mpz_str_enum', kind='native', props=['C06'], source='mpn/generic/set_str.c', more_sources=['mpn/generic/get_str.c', 'mpz/set_str.c', 'mpz/get_str.c', 'mpz/sizeinbase.c'], driver='replay/str_enum.c', args=[],
    bounded='BOUNDED (not proof): bases {3, 6, 7, 10, 12, 36, 60, 62} x lengths {1, 2, 19, 20, 21, 40, 700, 1500, 1973, 2100, 4500} digits (around the basecase / divide-and-conquer / precomputed-power thresholds) x '
            'digit patterns with a run of zero digits [a, b) and a run of (base-1) digits, a and b on a grid of about 18 positions, with and without sign and interior blanks: 19352 strings',
    desc='[C06] mpz_set_str (s) equals the Horner evaluation of the digits computed with mpz_mul_ui / mpz_add_ui; mpz_get_str of that value is the string without leading zeros; digits <= mpz_sizeinbase <= digits + 1 - over the whole enumerated space',
    assumptions=['bounded stand-in: conversion in a base that is no power of two (mpn_bc/dc_set_str, mpn_sb/dc_get_str, powers table) needs mathematical integers and has no proof unit; the oracle uses mpz_mul_ui, mpz_add_ui, mpz_cmp of the same library'],
    timeout=300, selftest=[]))
