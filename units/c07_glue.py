"""C07 (glue only): mpz_invert and the multi-limb path of mpz_lcm over ASSUMED gcd / gcdext / exact division / product (value tokens)."""
UNITS = []
OBJ = lambda n: '  __mpz_struct %s; mp_limb_t L_%s[1]; %s._mp_d = L_%s; %s._mp_alloc = 1; %s._mp_size = 0;\n' % (n, n, n, n, n, n)
ASM = ['mpz_gcdext, mpz_gcd, mpz_divexact, mpz_mul: ASSUMED contracts on value tokens (gcd >= 0 symmetric, cofactor s with |s| < |n|, exact quotient, product); nothing under mpn/generic/*gcd* is verified',
       'values as a 64-bit window (|token| < 2^61)']
UNITS.append(dict(
    name='mpz_invert', props=['C07', 'C05'], source='mpz/invert.c', contracts=['tokens.h'], functions={'__gmpz_invert': {}}, unwind=18, assumptions=ASM, timeout=600,
    harness='void h_mpz_invert (void) {\n' + OBJ('R') + OBJ('X') + OBJ('N') + '''  mpz_ptr r = &R; mpz_srcptr x = &X, n = &N;
  if (nondet_bool ()) x = r;
  if (nondet_bool ()) n = r;
  if (nondet_bool ()) n = x;
  V_tok vx = nondet_long (), vn = nondet_long (); __CPROVER_assume (V_INRANGE (vx) && V_INRANGE (vn) && vn != 0);
  if (n == x) vn = vx;
  __CPROVER_assume (vn != 0);
  V_setval (&R, 0); V_setval (&X, 0); V_setval (&N, 1); V_setval ((mpz_ptr) x, vx); V_setval ((mpz_ptr) n, vn);
  int ok = __gmpz_invert (r, x, n);
  V_tok an = V_AB (vn), g = V_GCD (vx, vn), s = __CPROVER_uninterpreted_cofs (vx, vn);
  /* manual: for |n| > 1 the inverse exists iff gcd(x,n) == 1; x == 0 has none; the behaviour for |n| == 1 is "no inverse" here */
  __CPROVER_assert ((ok != 0) == (vx != 0 && an != 1 && g == 1), "[C07] existence flag: inverse exists exactly when x != 0, |n| > 1 and gcd(x,n) == 1");
  if (ok)
    {
      __CPROVER_assert (V_val (r) == (s < 0 ? s + an : s), "[C07] result is the cofactor reduced into [0,|n|) (s, or s + |n| when s < 0)");
      __CPROVER_assert (0 <= V_val (r) && V_val (r) < an, "[C07] inverse lies in [0,|n|)");
    }
  else
    {
      if (r != x) __CPROVER_assert (V_val (&X) == vx || x != &X, "[C05] x unchanged");
    }
  if (x == &X) __CPROVER_assert (V_val (&X) == vx, "[C05] x (not the result) unchanged");
  if (n == &N) __CPROVER_assert (V_val (&N) == vn, "[C05] n (not the result) unchanged");
}''',
    selftest=[('__gmpz_invert', r'if \(\(\(n\)->_mp_size\) < 0\)', 'if (((n)->_mp_size) > 0)'), ('__gmpz_invert', r'\(\(gcd\)->_mp_size\) != 1', '((gcd)->_mp_size) == 0')]))
UNITS.append(dict(
    name='mpz_lcm_multi', props=['C07', 'C05'], source='mpz/lcm.c', contracts=['tokens.h'], functions={'__gmpz_lcm': {}}, unwind=18, assumptions=ASM + ['single-limb operand paths of mpz_lcm (mpn_gcd_1 / mpn_mul_1 on limbs) are NOT covered by this glue proof: operand sizes are constrained to >= 2 limbs'],
    bounded='', timeout=600,
    harness='void h_mpz_lcm_multi (void) {\n' + OBJ('R') + OBJ('U') + OBJ('V') + '''  mpz_ptr r = &R; mpz_srcptr u = &U, v = &V;
  if (nondet_bool ()) u = r;
  if (nondet_bool ()) v = r;
  if (nondet_bool ()) v = u;
  V_tok vu = nondet_long (), vv = nondet_long (); __CPROVER_assume (V_INRANGE (vu) && V_INRANGE (vv));
  if (v == u) vv = vu;
  V_setval (&R, 0); V_setval (&U, 0); V_setval (&V, 0); V_setval ((mpz_ptr) u, vu); V_setval ((mpz_ptr) v, vv);
  __CPROVER_assume (V_ABS ((long) u->_mp_size) != 1 && V_ABS ((long) v->_mp_size) != 1);       /* multi-limb (or zero) operands: the token-level path */
  __gmpz_lcm (r, u, v);
  if (vu == 0 || vv == 0)
    __CPROVER_assert (V_val (r) == 0, "[C07] lcm with a zero operand is 0");
  else
    {
      V_tok e = V_MUL (V_DIVX (vu, V_GCD (vu, vv)), vv);
      __CPROVER_assert (V_val (r) == V_AB (e), "[C07] lcm = |(u / gcd(u,v)) * v|, non-negative");
    }
  if (u == &U) __CPROVER_assert (V_val (&U) == vu, "[C05] u (not the result) unchanged");
  if (v == &V) __CPROVER_assert (V_val (&V) == vv, "[C05] v (not the result) unchanged");
}''',
    selftest=[('__gmpz_lcm', r'__gmpz_divexact \(g, u, g\)', '__gmpz_divexact (g, v, g)')]))
