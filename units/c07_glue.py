"""C07 (glue only): mpz_invert and the multi-limb path of mpz_lcm over ASSUMED gcd / gcdext / exact division / product (value tokens)."""
UNITS = []
OBJ = lambda n: '  __mpz_struct %s; mp_limb_t L_%s[1]; %s._mp_d = L_%s; %s._mp_alloc = 1; %s._mp_size = 0;\n' % (n, n, n, n, n, n)
ASM = ['mpz_gcdext, mpz_gcd, mpz_divexact, mpz_mul: ASSUMED contracts on value tokens (gcd >= 0 symmetric, cofactor s with |s| < |n|, exact quotient, product); nothing under mpn/generic/*gcd* is verified',
       'values as a 64-bit window (|token| < 2^61)']
UNITS.append(dict(
    name='mpz_invert', props=['C07', 'C05'], source='mpz/invert.c', contracts=['tokens.h'], functions={'__gmpz_invert': {}}, unwind=18, assumptions=ASM, timeout=600,
    harness='void h_mpz_invert (void) {\n' + OBJ('R') + OBJ('X') + OBJ('N') + '''  mpz_ptr r = &R; mpz_srcptr x = &X, n = &N;
  if (nondet_bool ()) x = r;
  if (nondet_bool ()) n = r;
  if (nondet_bool ()) n = x;
  V_tok vx = nondet_long (), vn = nondet_long (); __CPROVER_assume (V_INRANGE (vx) && V_INRANGE (vn) && vn != 0);
  if (n == x) vn = vx;
  __CPROVER_assume (vn != 0);
  V_setval (&R, 0); V_setval (&X, 0); V_setval (&N, 1); V_setval ((mpz_ptr) x, vx); V_setval ((mpz_ptr) n, vn);
  int ok = __gmpz_invert (r, x, n);
  V_tok an = V_AB (vn), g = V_GCD (vx, vn), s = __CPROVER_uninterpreted_cofs (vx, vn);
  /* manual: for |n| > 1 the inverse exists iff gcd(x,n) == 1; x == 0 has none; the behaviour for |n| == 1 is "no inverse" here */
  __CPROVER_assert ((ok != 0) == (vx != 0 && an != 1 && g == 1), "[C07] existence flag: inverse exists exactly when x != 0, |n| > 1 and gcd(x,n) == 1");
  if (ok)
    {
      __CPROVER_assert (V_val (r) == (s < 0 ? s + an : s), "[C07] result is the cofactor reduced into [0,|n|) (s, or s + |n| when s < 0)");
      __CPROVER_assert (0 <= V_val (r) && V_val (r) < an, "[C07] inverse lies in [0,|n|)");
    }
  else
    {
      if (r != x) __CPROVER_assert (V_val (&X) == vx || x != &X, "[C05] x unchanged");
    }
  if (x == &X) __CPROVER_assert (V_val (&X) == vx, "[C05] x (not the result) unchanged");
  if (n == &N) __CPROVER_assert (V_val (&N) == vn, "[C05] n (not the result) unchanged");
}''',
    selftest=[('__gmpz_invert', r'if \(\(\(n\)->_mp_size\) < 0\)', 'if (((n)->_mp_size) > 0)'), ('__gmpz_invert', r'\(\(gcd\)->_mp_size\) != 1', '((gcd)->_mp_size) == 0')]))
UNITS.append(dict(
    name='mpz_lcm_multi', props=['C07', 'C05'], source='mpz/lcm.c', contracts=['tokens.h'], functions={'__gmpz_lcm': {}}, unwind=18, assumptions=ASM + ['single-limb operand paths of mpz_lcm (mpn_gcd_1 / mpn_mul_1 on limbs) are NOT covered by this glue proof: operand sizes are constrained to >= 2 limbs'],
    bounded='', timeout=600,
    harness='void h_mpz_lcm_multi (void) {\n' + OBJ('R') + OBJ('U') + OBJ('V') + '''  mpz_ptr r = &R; mpz_srcptr u = &U, v = &V;
  if (nondet_bool ()) u = r;
  if (nondet_bool ()) v = r;
  if (nondet_bool ()) v = u;
  V_tok vu = nondet_long (), vv = nondet_long (); __CPROVER_assume (V_INRANGE (vu) && V_INRANGE (vv));
  if (v == u) vv = vu;
  V_setval (&R, 0); V_setval (&U, 0); V_setval (&V, 0); V_setval ((mpz_ptr) u, vu); V_setval ((mpz_ptr) v, vv);
  __CPROVER_assume (V_ABS ((long) u->_mp_size) != 1 && V_ABS ((long) v->_mp_size) != 1);       /* multi-limb (or zero) operands: the token-level path */
  __gmpz_lcm (r, u, v);
  if (vu == 0 || vv == 0)
    __CPROVER_assert (V_val (r) == 0, "[C07] lcm with a zero operand is 0");
  else
    {
      V_tok e = V_MUL (V_DIVX (vu, V_GCD (vu, vv)), vv);
      __CPROVER_assert (V_val (r) == V_AB (e), "[C07] lcm = |(u / gcd(u,v)) * v|, non-negative");
    }
  if (u == &U) __CPROVER_assert (V_val (&U) == vu, "[C05] u (not the result) unchanged");
  if (v == &V) __CPROVER_assert (V_val (&V) == vv, "[C05] v (not the result) unchanged");
}''',
    selftest=[('__gmpz_lcm', r'__gmpz_divexact \(g, u, g\)', '__gmpz_divexact (g, v, g)')]))

# ------------------------------------------------------------------ mpz_gcd_ui: limb-level glue over the ASSUMED contract of mpn_gcd_1
from c04_alloc import mpz_obj
from c03_mpn import copy_loop
GU_CONTRACT = '''int g_g1_calls; mp_limb_t g_g1_u, g_g1_v, g_g1_res; long g_g1_n;
/* ASSUMED (not proved by any unit): mpn_gcd_1 needs size >= 1, {up,size} != 0 (here: top limb non-zero), vlimb != 0; returns a limb in [1, vlimb] */
mp_limb_t __gmpn_gcd_1 (mp_srcptr up, mp_size_t size, mp_limb_t vlimb)
__CPROVER_requires (1 <= size && size <= V_ZMAX && V_R_OK (up, size) && up[size - 1] != 0 && vlimb != 0 && 0 <= gk)
__CPROVER_assigns (g_g1_calls, g_g1_u, g_g1_v, g_g1_res, g_g1_n)
__CPROVER_ensures (g_g1_calls == __CPROVER_old (g_g1_calls) + 1 && g_g1_n == size && g_g1_v == vlimb && g_g1_u == V_OLDSEL (gk < size, up + gk))
__CPROVER_ensures (__CPROVER_return_value == g_g1_res && 1 <= g_g1_res && g_g1_res <= vlimb);
mpir_ui __gmpz_gcd_ui (mpz_ptr w, mpz_srcptr u, mpir_ui v)
__CPROVER_requires ((w == (mpz_ptr) 0 || V_WF (w)) && V_WF (u) && V_GHOSTS_OK)
__CPROVER_assigns (w != (mpz_ptr) 0: *w, __CPROVER_object_whole (V_PTR (w)); g_g1_calls, g_g1_u, g_g1_v, g_g1_res, g_g1_n)
__CPROVER_frees (w != (mpz_ptr) 0: V_PTR (w))
__CPROVER_ensures (w == (mpz_ptr) 0 || V_WF_AT (w, gk));
'''
GU_H = '''void h_mpz_gcd_ui (void) {
%(W)s%(U)s  mpz_ptr w = &W; mpz_srcptr u = &U;
ALIASBLOCK
  mpir_ui v = nondet_ulong ();
  gk = nondet_long (); gj = nondet_long (); gh = nondet_long ();
  __CPROVER_assume (V_GHOSTS_OK && (w == (mpz_ptr) 0 || V_WF (w)) && V_WF (u));
  long us = V_SIZ (u), un = V_ABS (us);
  mp_limb_t Uk = gk < un ? V_PTR (u)[gk] : 0, U0 = un ? V_PTR (u)[0] : 0;
  g_g1_calls = 0;
  mpir_ui res = __gmpz_gcd_ui (w, u, v);
  if (un == 0)
    {
      __CPROVER_assert (res == v && g_g1_calls == 0, "[C07] gcd(0,v) = v");
      if (w) __CPROVER_assert (V_SIZ (w) == (v != 0) && (v == 0 || V_PTR (w)[0] == v), "[C07] gcd(0,v) = v stored, non-negative");
    }
  else if (v == 0)
    {
      __CPROVER_assert (g_g1_calls == 0 && res == (un == 1 ? U0 : 0), "[C07] gcd(u,0) = |u|: returned when it fits one limb, else 0");
      if (w) __CPROVER_assert (V_SIZ (w) == un && (gk < un ==> V_PTR (w)[gk] == Uk), "[C07][C05] gcd(u,0) = |u| stored limb for limb, non-negative");
    }
  else
    {
      __CPROVER_assert (g_g1_calls == 1 && g_g1_n == un && g_g1_v == v && g_g1_u == Uk && res == g_g1_res, "[C07] one single-limb gcd of the limbs of |u| with v; its result is returned");
      if (w) __CPROVER_assert (V_SIZ (w) == 1 && V_PTR (w)[0] == res, "[C07] the gcd is stored as a positive one-limb value");
    }
  if (u != w) __CPROVER_assert ((long) V_SIZ (u) == us && (gk < un ==> V_PTR (u)[gk] == Uk), "[C05] u (not the result) unchanged");
}'''
_gu = dict(name='mpz_gcd_ui', props=['C07', 'C04', 'C05', 'C15'], source='mpz/gcd_ui.c', contracts=['mpn.h', 'mpz.h'], contract_text=GU_CONTRACT,
           enforce=['__gmpz_gcd_ui'], replace=['__gmpz_realloc', '__gmpn_gcd_1'],
           functions={'__gmpz_gcd_ui': dict(loops={0: copy_loop(['gk'])})},
           assumptions=['mpn_gcd_1: ASSUMED contract (size >= 1, non-zero operand, vlimb != 0; result in [1, vlimb]); the gcd VALUE is not specified'],
           harness=GU_H % dict(W=mpz_obj('W'), U=mpz_obj('U')), timeout=900,
           selftest=[('__gmpz_gcd_ui', r'\(\(w\)->_mp_size\) = un;', '((w)->_mp_size) = ((u)->_mp_size);'), ('__gmpz_gcd_ui', r'un == 1 && res <= ', 'un >= 1 && res <= ')])
for _t, _c in (('d', ''), ('wu', '  u = w;'), ('null', '  w = (mpz_ptr) 0;')):
    _v = dict(_gu); _v['name'] = 'mpz_gcd_ui_' + _t
    _v['harness'] = _gu['harness'].replace('ALIASBLOCK', _c).replace('h_mpz_gcd_ui (void)', 'h_mpz_gcd_ui_%s (void)' % _t)
    if _t != 'd': _v['selftest'] = []
    UNITS.append(_v)
