"""C12 core: mpq copy/sign functions, L-proofs (limb-exact, denominator positive, parts copied exactly => canonical preserved)."""
from c03_mpn import copy_loop
UNITS = []
P = ['C12', 'C04', 'C05', 'C15']
def mpq_obj(n):
    return '''  __mpq_struct %(n)s; { long a = nondet_long (), b = nondet_long (); __CPROVER_assume (1 <= a && a <= V_ZMAX && 1 <= b && b <= V_ZMAX);
    %(n)s._mp_num._mp_alloc = a; %(n)s._mp_num._mp_d = malloc (a * 8); %(n)s._mp_num._mp_size = nondet_long ();
    %(n)s._mp_den._mp_alloc = b; %(n)s._mp_den._mp_d = malloc (b * 8); %(n)s._mp_den._mp_size = nondet_long ();
    __CPROVER_assume (%(n)s._mp_num._mp_d != (void *) 0 && %(n)s._mp_den._mp_d != (void *) 0); }
''' % {'n': n}
from c04_alloc import mpz_obj
DIV0 = '''_Bool g_div0_expected;
void __gmp_divide_by_zero (void) { __CPROVER_assert (g_div0_expected, "[C12][C02] DIVIDE_BY_ZERO raised only for a zero divisor"); __CPROVER_assume (0); }
'''
SNAP = '''  gk = nondet_long (); gj = nondet_long (); gh = nondet_long ();
  __CPROVER_assume (V_GHOSTS_OK && V_WFQ (d) && V_WFQ (s));
  long sn = V_SIZ (V_NUM (s)), sd = V_SIZ (V_DEN (s)), nn = V_ABS (sn);
  mp_limb_t Nk = gk < nn ? V_PTR (V_NUM (s))[gk] : 0, Dk = gk < sd ? V_PTR (V_DEN (s))[gk] : 0;
'''
def q2(op, post, muts, nloops=4):
    f = '__gmpq_' + op
    return dict(name='mpq_' + op, props=P, source='mpq/%s.c' % op, contracts=['mpn.h', 'mpz.h', 'c11.h', 'mpq.h'],
                enforce=[f], replace=['__gmpz_realloc'],
                functions={f: dict(loops={0: copy_loop('gk'), 1: copy_loop('gk')})},
                harness=DIV0 + 'void h_mpq_%s (void) {\n%s%s  mpq_ptr d = &D; mpq_srcptr s = &S; if (nondet_bool ()) s = d;\n%s  g_div0_expected = (sn == 0) && %d;\n  %s (d, s);\n%s}' %
                        (op, mpq_obj('D'), mpq_obj('S'), SNAP, 1 if op == 'inv' else 0, f, post),
                selftest=[(f,) + m for m in muts])
POST_SAME = '''  __CPROVER_assert ((long) V_SIZ (V_NUM (d)) == (%s) && (long) V_SIZ (V_DEN (d)) == sd, "[C12] sizes/signs of numerator and denominator");
  __CPROVER_assert (gk < nn ==> V_PTR (V_NUM (d))[gk] == Nk, "[C12][C05] numerator limbs copied exactly");
  __CPROVER_assert (gk < sd ==> V_PTR (V_DEN (d))[gk] == Dk, "[C12][C05] denominator limbs copied exactly");
  __CPROVER_assert (s != d ==> ((long) V_SIZ (V_NUM (s)) == sn && (long) V_SIZ (V_DEN (s)) == sd && (gk < nn ==> V_PTR (V_NUM (s))[gk] == Nk) && (gk < sd ==> V_PTR (V_DEN (s))[gk] == Dk)), "[C05] source unchanged");
'''
UNITS.append(q2('neg', POST_SAME % '-sn', [(r'dst->_mp_num._mp_size = -num_size', 'dst->_mp_num._mp_size = num_size')]))
UNITS.append(q2('abs', POST_SAME % 'nn', [(r'dst->_mp_den._mp_size = den_size', 'dst->_mp_den._mp_size = num_abs_size')]))
UNITS.append(q2('set', POST_SAME % 'sn', [(r'dest->_mp_den._mp_alloc < den_size', 'dest->_mp_den._mp_alloc < den_size - 1')]))
UNITS.append(q2('inv', '''  __CPROVER_assert (sn != 0, "[C12][C02] returned normally, so the operand was not zero");
  __CPROVER_assert ((long) V_SIZ (V_DEN (d)) == nn && (long) V_SIZ (V_NUM (d)) == (sn < 0 ? -sd : sd), "[C12] 1/(n/d) = d/n with the sign moved to the numerator, new denominator |n| > 0");
  __CPROVER_assert (gk < sd ==> V_PTR (V_NUM (d))[gk] == Dk, "[C12][C05] new numerator = old denominator, limb-exact");
  __CPROVER_assert (gk < nn ==> V_PTR (V_DEN (d))[gk] == Nk, "[C12][C05] new denominator = old |numerator|, limb-exact");
  __CPROVER_assert (s != d ==> ((long) V_SIZ (V_NUM (s)) == sn && (long) V_SIZ (V_DEN (s)) == sd && (gk < nn ==> V_PTR (V_NUM (s))[gk] == Nk) && (gk < sd ==> V_PTR (V_DEN (s))[gk] == Dk)), "[C05] source unchanged");
''', [(r'den_size = -den_size;', ';'), (r'if \(num_size == 0\)', 'if (den_size == 0)'),
      (r'dest->_mp_den._mp_alloc = alloc;', 'dest->_mp_den._mp_alloc = dest->_mp_num._mp_alloc;')]))
from c03_mpz import split_alias
_Q2 = list(UNITS); del UNITS[:]
for _u in _Q2:
    UNITS.extend(split_alias(_u, '  mpq_ptr d = &D; mpq_srcptr s = &S; if (nondet_bool ()) s = d;\n',
                             [('', '  mpq_ptr d = &D; mpq_srcptr s = &S;\n'), ('ds', '  mpq_ptr d = &D; mpq_srcptr s = d;\n')]))
for u in UNITS:
    u['timeout'] = 900

def part(op, field, getter=False):
    f = '__gmpq_' + op
    if getter:
        call = '%s (&Z, q);' % f
        dst, src = '(&Z)', 'V_%s (q)' % ('NUM' if 'num' in op else 'DEN')
        objs = mpz_obj('Z') + mpq_obj('Q') + '  mpq_srcptr q = &Q;\n'
        pre = 'V_WF (&Z) && V_WFQ (q)'
    else:
        call = '%s (q, z);' % f
        dst, src = 'V_%s (q)' % ('NUM' if 'num' in op else 'DEN'), 'z'
        objs = mpq_obj('Q') + mpz_obj('Z') + '  mpq_ptr q = &Q; mpz_srcptr z = &Z; if (nondet_bool ()) z = V_NUM (q); else if (nondet_bool ()) z = V_DEN (q);\n'
        pre = 'V_WFQ (q) && V_WF (z)'
    return dict(name='mpq_' + op, props=P, source='mpq/%s.c' % op, contracts=['mpn.h', 'mpz.h', 'c11.h', 'mpq.h'],
                enforce=[f], replace=['__gmpz_realloc'], functions={f: dict(loops={0: copy_loop('gk')})}, timeout=600,
                harness='void h_mpq_%s (void) {\n%s  gk = nondet_long (); gj = nondet_long (); gh = nondet_long ();\n  __CPROVER_assume (V_GHOSTS_OK && %s);\n'
                        '  long ss = V_SIZ (%s), sn = V_ABS (ss); mp_limb_t Sk = gk < sn ? V_PTR (%s)[gk] : 0;\n  %s\n'
                        '  __CPROVER_assert ((long) V_SIZ (%s) == ss, "[C12] size and sign copied");\n'
                        '  __CPROVER_assert (gk < sn ==> V_PTR (%s)[gk] == Sk, "[C12][C05] limbs copied exactly");\n}' % (op, objs, pre, src, src, call, dst, dst),
                selftest=[(f, r'_mp_alloc < (abs_)?size', lambda m: m.group(0) + ' - 1')])
# the three alias partitions of (q, z) as separate runs: one run over all three took 340 s and was unstable under load
for _op, _f in (('set_num', '_mp_num'), ('set_den', '_mp_den')):
    for _tag, _al in (('', ''), ('_an', 'z = V_NUM (q);'), ('_ad', 'z = V_DEN (q);')):
        _u = part(_op, _f)
        _u['name'] += _tag
        _u['harness'] = _u['harness'].replace('h_mpq_' + _op, 'h_mpq_' + _op + _tag).replace(
            'if (nondet_bool ()) z = V_NUM (q); else if (nondet_bool ()) z = V_DEN (q);', _al)
        if _tag:
            _u['selftest'] = []
        UNITS.append(_u)
UNITS.append(part('get_num', '_mp_num', True))
UNITS.append(part('get_den', '_mp_den', True))
UNITS.append(dict(name='mpq_set_z', props=P, source='mpq/set_z.c', contracts=['mpn.h', 'mpz.h', 'c11.h', 'mpq.h'],
                  enforce=['__gmpq_set_z'], replace=['__gmpz_realloc'], functions={'__gmpq_set_z': dict(loops={0: copy_loop('gk')})}, timeout=600,
                  harness='void h_mpq_set_z (void) {\n' + mpq_obj('Q') + mpz_obj('Z') + '''  mpq_ptr q = &Q; mpz_srcptr z = &Z; if (nondet_bool ()) z = V_NUM (q);
  gk = nondet_long (); gj = nondet_long (); gh = nondet_long ();
  __CPROVER_assume (V_GHOSTS_OK && V_WFQ (q) && V_WF (z));
  long ss = V_SIZ (z), sn = V_ABS (ss); mp_limb_t Sk = gk < sn ? V_PTR (z)[gk] : 0;
  __gmpq_set_z (q, z);
  __CPROVER_assert ((long) V_SIZ (V_NUM (q)) == ss && (gk < sn ==> V_PTR (V_NUM (q))[gk] == Sk), "[C12][C05] numerator = z exactly (denominator 1: contract)");
}''', selftest=[('__gmpq_set_z', r'dest->_mp_den._mp_size = 1', 'dest->_mp_den._mp_size = 0')]))
for op, T in (('set_ui', 'mpir_ui'), ('set_si', 'mpir_si')):
    UNITS.append(dict(name='mpq_' + op, props=P, source='mpq/%s.c' % op, contracts=['mpz.h', 'c11.h', 'mpq.h'], enforce=['__gmpq_' + op],
                      drop_checks=['--signed-overflow-check'] if op == 'set_si' else [], cbmc_flags=['--no-signed-overflow-check'] if op == 'set_si' else [],
                      assumptions=['mpq_set_si: negation of the most negative long wraps (gcc semantics)'] if op == 'set_si' else [],
                      harness='void h_mpq_%s (void) {\n%s  %s n; mpir_ui d;\n  __gmpq_%s (&Q, n, d);\n}' % (op, mpq_obj('Q'), T, op),
                      selftest=[('__gmpq_' + op, r'den = 1;\s*dest->_mp_num._mp_size = 0;', 'dest->_mp_num._mp_size = 0;')]))
UNITS.append(dict(name='mpq_swap', props=P, source='mpq/swap.c', contracts=['mpz.h', 'c11.h', 'mpq.h'], enforce=['__gmpq_swap'],
                  harness='void h_mpq_swap (void) {\n%s%s  mpq_ptr u = &U, v = &V; if (nondet_bool ()) v = u;\n  __gmpq_swap (u, v);\n}' % (mpq_obj('U'), mpq_obj('V')),
                  selftest=[('__gmpq_swap', r'v->_mp_den._mp_size = usize', 'v->_mp_den._mp_size = vsize')]))

for u in UNITS:
    if u['name'] in ('mpq_inv_ds', 'mpq_inv', 'mpq_set', 'mpq_neg_ds', 'mpq_set_num_an', 'mpq_swap'):
        u['quick_props'] = ['C04', 'C05']
# the in-place mutant only shows in the dest == src partition
for u in UNITS:
    if u['name'] == 'mpq_inv':
        _m = [m for m in u['selftest'] if 'alloc = alloc' in m[1]]
        u['selftest'] = [m for m in u['selftest'] if 'alloc = alloc' not in m[1]]
for u in UNITS:
    if u['name'] == 'mpq_inv_ds':
        u['selftest'] = _m

# ------------------------------------------------------------------ mpq_equal: 1 exactly when both parts agree limb for limb (canonical operands)
UNITS.append(dict(name='mpq_equal', props=['C12', 'C11', 'C04', 'C15'], source='mpq/equal.c', contracts=['mpn.h', 'mpz.h', 'c11.h', 'mpq.h'],
    contract_text='''int g_eq_where;       /* which comparison answered 0: 1 numerator size, 2 numerator limb g_hd, 3 denominator size, 4 denominator limb g_hd */
int __gmpq_equal (mpq_srcptr op1, mpq_srcptr op2)
__CPROVER_requires (V_WFQ (op1) && V_WFQ (op2) && V_GHOSTS_OK)
__CPROVER_assigns (g_hd, g_eq_where)
__CPROVER_ensures (__CPROVER_return_value == 0 || __CPROVER_return_value == 1)
__CPROVER_ensures (__CPROVER_return_value == 1 ==> (V_SIZ (V_NUM (op1)) == V_SIZ (V_NUM (op2)) && V_SIZ (V_DEN (op1)) == V_SIZ (V_DEN (op2))
   && (gk < V_ABSIZ (V_NUM (op1)) ==> V_PTR (V_NUM (op1))[gk] == V_PTR (V_NUM (op2))[gk]) && (gj < V_ABSIZ (V_DEN (op1)) ==> V_PTR (V_DEN (op1))[gj] == V_PTR (V_DEN (op2))[gj])))
__CPROVER_ensures (__CPROVER_return_value == 0 ==> (
      (g_eq_where == 1 && V_SIZ (V_NUM (op1)) != V_SIZ (V_NUM (op2)))
   || (g_eq_where == 2 && 0 <= g_hd && g_hd < V_ABSIZ (V_NUM (op1)) && g_hd < V_ABSIZ (V_NUM (op2)) && V_PTR (V_NUM (op1))[g_hd] != V_PTR (V_NUM (op2))[g_hd])
   || (g_eq_where == 3 && V_SIZ (V_DEN (op1)) != V_SIZ (V_DEN (op2)))
   || (g_eq_where == 4 && 0 <= g_hd && g_hd < V_ABSIZ (V_DEN (op1)) && g_hd < V_ABSIZ (V_DEN (op2)) && V_PTR (V_DEN (op1))[g_hd] != V_PTR (V_DEN (op2))[g_hd])));
''', enforce=['__gmpq_equal'],
    functions={'__gmpq_equal': dict(
        inserts=[(r'if \(num1_size != num2_size\)\s*return 0;', r'if (num1_size != num2_size) { g_eq_where = 1; return 0; }'.replace('if (num1_size != num2_size)', r'\g<0>'[:0] + 'if (num1_size != num2_size)')) ] if False else
                [(r'(?<=if \(num1_size != num2_size\))\s*return 0;', r' { g_eq_where = 1; \g<0> }'),
                 (r'(?<=if \(num1_ptr\[i\] != num2_ptr\[i\]\))\s*return 0;', r' { g_eq_where = 2; g_hd = i; \g<0> }'),
                 (r'(?<=if \(den1_size != den2_size\))\s*return 0;', r' { g_eq_where = 3; \g<0> }'),
                 (r'(?<=if \(den1_ptr\[i\] != den2_ptr\[i\]\))\s*return 0;', r' { g_eq_where = 4; g_hd = i; \g<0> }')],
        loops={0: dict(scalars=['i', 'g_hd', 'g_eq_where'], inv='(0 <= i && i <= num1_size && num1_size == V_ABSIZ (V_NUM (op1)) && num1_size == V_ABSIZ (V_NUM (op2)) && num1_ptr == V_PTR (V_NUM (op1)) && num2_ptr == V_PTR (V_NUM (op2)) && ((0 <= gk && gk < i) ==> num1_ptr[gk] == num2_ptr[gk]))', dec='(num1_size - i)'),
               1: dict(scalars=['i', 'g_hd', 'g_eq_where'], inv='(0 <= i && i <= den1_size && den1_size == V_SIZ (V_DEN (op1)) && den1_ptr == V_PTR (V_DEN (op1)) && den2_ptr == V_PTR (V_DEN (op2)) && ((0 <= gj && gj < i) ==> den1_ptr[gj] == den2_ptr[gj]))', dec='(den1_size - i)')})},
    harness='void h_mpq_equal (void) {\n%s%s  mpq_srcptr a = &A, b = &B; if (nondet_bool ()) b = a;\n  gk = nondet_long (); gj = nondet_long (); gh = nondet_long ();\n  __gmpq_equal (a, b);\n}' % (mpq_obj('A'), mpq_obj('B')),
    timeout=600,
    selftest=[('__gmpq_equal', r'for \(i = 0; i < den1_size; i\+\+\)', 'for (i = 1; i < den1_size; i++)'), ('__gmpq_equal', r'num1_size = \(\(num1_size\) >= 0 \? \(num1_size\) : -\(num1_size\)\);', 'num1_size = ((num1_size) >= 0 ? (num1_size) : 0);')]))

# ------------------------------------------------------------------ mpq_mul_2exp / mpq_div_2exp: bounded native stand-in (labelled bounded, never counted as proof)
UNITS.append(dict(
    name='mpq_2exp_enum', kind='native', props=['C12', 'C05'], source='mpq/md_2exp.c', driver='replay/smallops_enum.c', args=['mpq2exp'],
    bounded='BOUNDED (not proof): complete enumeration of mpq_mul_2exp / mpq_div_2exp over every canonical num/den pair with num, den from operands of 0..3 limbs over the limb alphabet {0, 1, 5, 2^63, 2^64-5, 2^64-1} '
            '(den > 0, gcd 1) x 19 counts around the limb boundaries 0..260 x (dst == src, dst != src): 5.0 million calls',
    desc='[C12][C05] num(dst) * den(src) == num(src) * den(dst) * 2^n (resp. with 2^n on the other side) computed with mpz_mul / mpz_mul_2exp, dst canonical (den > 0, gcd 1, both well formed), src unchanged unless it is the destination - over the whole enumerated space',
    assumptions=['bounded stand-in: mord_2exp (mpq/md_2exp.c) has no proof unit; the check itself uses mpz_gcd, mpz_mul, mpz_mul_2exp, mpz_cmp of the same library'],
    timeout=300, selftest=[]))

# ------------------------------------------------------------------ mpq_mul_2exp / mpq_div_2exp (mord_2exp) PROVED limb-exact on the divided part, in place and not
# dst = src * 2^n:  R = den(src) is divided by 2^s, s = min (n, number of trailing zero bits of R), L = num(src) is multiplied by 2^(n-s)  (mpq_div_2exp: roles swapped).
# Stated from the definition with the ghost g_lz = index of the lowest non-zero limb of R:  z = min (n/64, g_lz) whole limbs are dropped, then shift = min (ctz (R[z]), n - 64z) bits
# (R[z] == 0 only when z < g_lz, then n - 64z < 64 bits are all there is to remove).  Limb gk of the result is ((R >> 64z) >> shift)[gk]; its size is |R| - z or one less (dropped top limb
# zero); mpz_mul_2exp / mpz_set is called on (L-part of dst, L-part of src) with exactly n - 64z - shift.  defect bc7e1ad (copy direction in place) is what this unit refutes on the old text.
M2_STUB = r'''/* mpz_mul_2exp / mpz_set below mord_2exp: ASSUMED models (stubs, not proofs): operands must be well formed; the destination is re-allocated when the result needs more limbs; the result is well formed with the
   sign of u and |u| + cnt/64 (+1) limbs (resp. a copy's size); its limbs are arbitrary (top limb non-zero) - the VALUE of mpz_mul_2exp is not decided here (DESIGN 11.3) */
void __gmpz_mul_2exp (mpz_ptr w, mpz_srcptr u, mp_bitcnt_t cnt)
{
  __CPROVER_assert (V_WF (w) && V_WF (u) && V_ABSIZ (u) + (long) (cnt / 64) + 1 <= V_ZMAX, "[C12][C04] mpz_mul_2exp is called on well-formed operands with a representable result size");
  long su = V_SIZ (u), un = V_ABS (su), need = un + (long) (cnt / 64) + 1;
  if (su == 0) { w->_mp_size = 0; return; }
  if (need > V_ALLOC (w)) { free (V_PTR (w)); w->_mp_d = malloc (need * 8); __CPROVER_assume (w->_mp_d != (void *) 0); w->_mp_alloc = need; }
  long ns = nondet_bool () ? need : need - 1;
  mp_limb_t t = nondet_ulong (); __CPROVER_assume (t != 0); w->_mp_d[ns - 1] = t;
  w->_mp_size = su < 0 ? -ns : ns;
}
void __gmpz_set (mpz_ptr w, mpz_srcptr u)
{
  __CPROVER_assert (V_WF (w) && V_WF (u), "[C12][C04] mpz_set is called on well-formed operands");
  long su = V_SIZ (u), un = V_ABS (su);
  if (un > V_ALLOC (w)) { free (V_PTR (w)); w->_mp_d = malloc (un * 8); __CPROVER_assume (w->_mp_d != (void *) 0); w->_mp_alloc = un; }
  if (un) { mp_limb_t t = nondet_ulong (); __CPROVER_assume (t != 0); w->_mp_d[un - 1] = t; }
  w->_mp_size = su;
}
'''
M2_PRE = '''long g_lz, g_lcalled; unsigned long g_lcnt; const void *g_lsrc, *g_ldst;
#define V_QSEP(d,s) (!__CPROVER_same_object (V_PTR (V_NUM (d)), V_PTR (V_NUM (s))) && !__CPROVER_same_object (V_PTR (V_NUM (d)), V_PTR (V_DEN (s))) \\
                  && !__CPROVER_same_object (V_PTR (V_DEN (d)), V_PTR (V_NUM (s))) && !__CPROVER_same_object (V_PTR (V_DEN (d)), V_PTR (V_DEN (s))) && !__CPROVER_same_object (d, s))
void %(f)s (mpq_ptr dst, mpq_srcptr src, mp_bitcnt_t n)
__CPROVER_requires (V_WFQ (dst) && V_WFQ (src) && V_GHOSTS_OK && (dst == src || V_QSEP (dst, src)) && n <= (1UL << 35) && V_ABSIZ (%(L)s (src)) + (long) (n / 64) + 1 <= V_ZMAX)
__CPROVER_requires (V_SIZ (%(R)s (src)) != 0 && 0 <= g_lz && g_lz < V_ABSIZ (%(R)s (src)) && V_PTR (%(R)s (src))[g_lz] != 0 && gk < V_ABSIZ (%(R)s (src)))
__CPROVER_assigns (*dst, __CPROVER_object_whole (V_PTR (V_NUM (dst))), __CPROVER_object_whole (V_PTR (V_DEN (dst))), gk, g_lcalled, g_lcnt, g_lsrc, g_ldst)
__CPROVER_frees (V_PTR (V_NUM (dst)), V_PTR (V_DEN (dst)))
__CPROVER_ensures (V_WFQ_AT (dst, gk));
'''
M2_H = '''void h_%(name)s (void) {
%(D)s%(S)s%(alias)s
  unsigned long n = nondet_ulong (); __CPROVER_assume (n <= (1UL << 35));
  gk = nondet_long (); gj = nondet_long (); gh = nondet_long (); g_lz = nondet_long (); g_lcalled = 0;
  __CPROVER_assume (V_GHOSTS_OK && V_WFQ (d) && V_WFQ (s));
  mpz_srcptr R = %(R)s (s), L = %(L)s (s);
  long rs = V_SIZ (R), rn = V_ABS (rs), ls = V_SIZ (L);
  __CPROVER_assume (rs != 0 && 0 <= g_lz && g_lz < rn && V_PTR (R)[g_lz] != 0 && V_ABS (ls) + (long) (n / 64) + 1 <= V_ZMAX);
  long z = (long) (n / 64) < g_lz ? (long) (n / 64) : g_lz;
  unsigned long n1 = n - 64 * (unsigned long) z;
  mp_limb_t P = V_PTR (R)[z];
  __CPROVER_assume (z < g_lz ==> P == 0);                  /* instance of: every limb below g_lz is zero */
  unsigned long tz = P ? (unsigned long) __builtin_ctzl (P) : 64;
  unsigned long shift = ((P & 1) || n1 == 0) ? 0 : (P == 0 ? n1 : (tz < n1 ? tz : n1));
  long len0 = rn - z;
  __CPROVER_assume (0 <= gk && gk < len0);
  mp_limb_t Rk = V_PTR (R)[gk + z], Rk1 = gk + z + 1 < rn ? V_PTR (R)[gk + z + 1] : 0;
  mp_limb_t E = shift ? ((Rk >> shift) | (Rk1 << (64 - shift))) : Rk;
  long gk0 = gk;
  %(f)s (d, s, n);
  mpz_srcptr RD = %(R)s (d), LD = %(L)s (d);
  long ds = V_SIZ (RD), len = V_ABS (ds);
  __CPROVER_assert (gk == gk0 && (ds < 0) == (rs < 0) && (len == len0 || len == len0 - 1) && len >= 1, "[C12] divided part: sign kept, size |R| - z or one less");
  __CPROVER_assert (gk < len ? V_PTR (RD)[gk] == E : E == 0, "[C12][C05] divided part: limb gk is limb gk of R >> min (n, trailing zero bits of R); a dropped top limb is zero");
  __CPROVER_assert (n1 - shift != 0 ? (g_lcalled == 1 && g_lcnt == n1 - shift && g_lsrc == (const void *) L && g_ldst == (const void *) LD)
                                    : (LD != L ? (g_lcalled == 2 && g_lsrc == (const void *) L && g_ldst == (const void *) LD) : g_lcalled == 0),
                    "[C12][C05] multiplied part: mpz_mul_2exp (resp. mpz_set, resp. nothing in place) on the other part of src with exactly the remaining count n - s");
  if (s != d) __CPROVER_assert ((long) V_SIZ (R) == rs && (long) V_SIZ (L) == ls && V_PTR (R)[gk + z] == Rk, "[C05] source unchanged");
}'''
def _m2(op, alias):
    f = '__gmpq_' + op
    R, L = ('V_DEN', 'V_NUM') if op == 'mul_2exp' else ('V_NUM', 'V_DEN')
    name = 'mpq_' + op + ('_ds' if alias else '')
    I = '(p - rsrc_ptr)'
    strip = dict(scalars=['n', 'plow'], havoc_targets=['p'], snap='unsigned long V_n0 = n;',
                 havoc='{ long V_i = nondet_long (); __CPROVER_assume (0 <= V_i && V_i <= g_lz); p = rsrc_ptr + V_i; }', havoc_inv={'V_i': I},
                 inv='(__CPROVER_same_object (p, rsrc_ptr) && 0 <= II && II <= g_lz && g_lz < len && (unsigned long) II <= V_n0 / 64 && n == V_n0 - 64 * (unsigned long) II && plow == rsrc_ptr[II] && rsrc_ptr[g_lz] != 0 && V_R_OK (rsrc_ptr, len))'.replace('II', I),
                 dec='(g_lz - %s + 1)' % I, head='__CPROVER_assume (%s < g_lz ==> plow == 0);' % I)
    cp = copy_loop(['gk', 'V_cn'], 'incr')
    u = dict(name=name, props=P, source='mpq/md_2exp.c', contracts=['mpn.h', 'mpz.h', 'c11.h', 'mpq.h'], contract_text=M2_PRE % dict(f=f, R=R, L=L) + M2_STUB,
             enforce=[f], replace=['__gmpz_realloc', '__gmpn_rshift'],
             functions={'mord_2exp': dict(nloops=2, loops={0: strip, 1: cp},
                                          inserts=[(r'__gmpz_mul_2exp \(ldst, lsrc, n\);', r'{ g_lcalled = 1; g_lcnt = n; g_lsrc = lsrc; g_ldst = ldst; \g<0> }'),
                                                   (r'__gmpz_set \(ldst, lsrc\);', r'{ g_lcalled = 2; g_lsrc = lsrc; g_ldst = ldst; \g<0> }')])},
             assumptions=['g_lz (index of the lowest non-zero limb of the divided part) is defined by a for-all (every limb below it is zero) that is instantiated by a woven assume at the limb the stripping loop has just read, and once in the harness',
                          'mpz_mul_2exp and mpz_set below mord_2exp are ASSUMED models (stubs in the unit text: re-allocation when needed, well-formed result of the right sign and size, arbitrary limbs); the value of mpz_mul_2exp is not decided (DESIGN 11.3); mpn_rshift, _mpz_realloc by their proved contracts',
                          'count n <= 2^35; partition: ' + ('dst == src (in place)' if alias else 'dst and src distinct objects with distinct blocks')],
             harness=M2_H % dict(name=name, D=mpq_obj('D'), S=mpq_obj('S'), alias='  mpq_ptr d = &D; mpq_srcptr s = %s;' % ('d' if alias else '&S'), R=R, L=L, f=f), timeout=1500,
             selftest=[('mord_2exp', r'n -= shift;', ';'), ('mord_2exp', r'len -= \(rdst_ptr\[len-1\] == 0\);', ';'), ('mord_2exp', r'len -= \(p - rsrc_ptr\);', 'len -= (p - rsrc_ptr) - 1;')] if op == 'mul_2exp' and alias else [])
    return u
# one run over all paths got no verdict in 25 min (DESIGN 11.3): split by path - whole limbs stripped or not (z > 0 / z == 0) x copy or bit shift - as separate runs
for _op in ('mul_2exp', 'div_2exp'):
    for _al in (0, 1):
        for _zt, _zc in (('z0', 'z == 0'), ('zp', 'z > 0')):
            for _pt, _pc in (('copy', 'shift == 0'), ('shift', 'shift != 0')):
                _u = _m2(_op, _al)
                _old = _u['name']; _u['name'] = _old + '_' + _zt + '_' + _pt
                _u['harness'] = _u['harness'].replace('h_' + _old + ' (void)', 'h_' + _u['name'] + ' (void)').replace('  long len0 = rn - z;', '  long len0 = rn - z;\n  __CPROVER_assume (%s && %s);' % (_zc, _pc))
                _u['assumptions'] = _u['assumptions'] + ['path partition: %s, %s (the four path partitions are separate units)' % (_zc, _pc)]
                # must-fail mutants only where the mutated statement is reachable: all three on the bit-shift path, the whole-limb one on the copy path too
                if not (_op == 'mul_2exp' and _al and _zt == 'zp'): _u['selftest'] = []
                elif _pt == 'copy': _u['selftest'] = _u['selftest'][2:]
                # all sixteen proved on the unchanged tree (95-430 s, 1.3-2.7 GB each); the in-place ones (where defect bc7e1ad sat) run in the quick tier, the distinct-operand ones in the thorough tier
                _u['tier'] = 'quick' if _al else 'thorough'
                UNITS.append(_u)
