"""C13 (exact functions): mpf format invariant as a proved post-condition and the limb-exact copy/sign functions."""
from c03_mpn import copy_loop
from c03_mpz import split_alias
UNITS = []
CT = ['mpn.h', 'mpz.h', 'c11.h', 'mpf.h']
def mpf_obj(n):
    return ('''  __mpf_struct %(n)s; { long pr = nondet_long (); __CPROVER_assume (1 <= pr && pr < V_ZMAX);
    %(n)s._mp_prec = pr; %(n)s._mp_d = malloc ((pr + 1) * 8); __CPROVER_assume (%(n)s._mp_d != (void *) 0); %(n)s._mp_size = nondet_long (); %(n)s._mp_exp = nondet_long (); }
''' % {'n': n})
ALIASF = '  mpf_ptr r = &R; mpf_srcptr u = &U;\n  if (nondet_bool ()) u = r;\n'
AF = [('', '  mpf_ptr r = &R; mpf_srcptr u = &U;\n'), ('ru', '  mpf_ptr r = &R; mpf_srcptr u = r;\n')]
def copyish(op, sgn, muts):
    f = '__gmpf_' + op
    u = dict(name='mpf_' + op, props=['C13', 'C04', 'C05', 'C15'], source='mpf/%s.c' % op, contracts=CT, enforce=[f],
             functions={f: dict(loops={0: copy_loop('gk', 'incr')})},
             harness='void h_mpf_%s (void) {\n%s%s%s' % (op, mpf_obj('R'), mpf_obj('U'), ALIASF) + '''  gk = nondet_long (); gj = nondet_long (); gh = nondet_long ();
  __CPROVER_assume (V_GHOSTS_OK && V_WFF (r) && V_WFF (u));
  long su = V_SIZ (u), un = V_ABS (su), pr = V_PREC (r) + 1, rn = un < pr ? un : pr; long eu = V_EXP (u);
  mp_limb_t Uk = gk < rn ? V_PTR (u)[gk + (un - rn)] : 0;
  %s (r, u);
  __CPROVER_assert ((long) V_SIZ (r) == (%s), "[C13] size = min(|size(u)|, prec(r)+1) limbs with the sign of the operation");
  __CPROVER_assert (V_EXP (r) == eu, "[C13] exponent unchanged");
  __CPROVER_assert (gk < rn ==> V_PTR (r)[gk] == Uk, "[C13][C05] limb gk of r is limb gk of the TOP rn limbs of u (exact if u fits r's precision)");
  __CPROVER_assert (u != r ==> ((long) V_SIZ (u) == su && V_EXP (u) == eu && (gk < rn ==> V_PTR (u)[gk + (un - rn)] == Uk)), "[C05] source unchanged");
}''' % (f, sgn), timeout=600, selftest=[(f,) + m for m in muts])
    return split_alias(u, ALIASF, AF)
UNITS.extend(copyish('neg', 'su > 0 ? -rn : rn', [(r'up \+= asize - prec;', 'up += 0;'), (r'size = -u->_mp_size;', 'size = u->_mp_size;')]))
UNITS.extend(copyish('abs', 'rn', [(r'up \+= size - prec;', ';')]))
UNITS.extend(copyish('set', 'su >= 0 ? rn : -rn', [(r'if \(asize > prec\)', 'if (asize > prec + 1)')]))
UNITS.append(dict(name='mpf_integer_p', props=['C13', 'C04', 'C15'], source='mpf/int_p.c', contracts=CT, enforce=['__gmpf_integer_p'],
    functions={'__gmpf_integer_p': dict(
        inserts=[(r'return 0;\s*return 1;', None)] if False else [],
        loops={0: dict(scalars=['i', 'g_hd'], inv='(0 <= i && i <= (frac < 0 ? 0 : frac) && frac == ((size) >= 0 ? (size) : -(size)) - exp && exp > 0 && ptr == f->_mp_d && ((0 <= gj && gj < i) ==> ptr[gj] == 0))',
                       dec='(frac < 0 ? 0 : frac) - i', begin='g_hd = i;')})},
    harness='void h_mpf_integer_p (void) {\n' + mpf_obj('F') + '  gj = nondet_long ();\n  __gmpf_integer_p (&F);\n}',
    selftest=[('__gmpf_integer_p', r'if \(exp <= 0\)', 'if (exp < 0)'), ('__gmpf_integer_p', r'i < frac', 'i < frac - 1')]))
UNITS.append(dict(name='mpf_get_ui', props=['C13', 'C11', 'C04', 'C15'], source='mpf/get_ui.c', contracts=CT, enforce=['__gmpf_get_ui'],
    harness='void h_mpf_get_ui (void) {\n' + mpf_obj('F') + '  __gmpf_get_ui (&F);\n}',
    selftest=[('__gmpf_get_ui', r'if \(size >= exp\)', 'if (size > exp)')]))

def strip_loop(ptr, siz, base, n0, fin):
    return dict(scalars=[siz], havoc_targets=[ptr], havoc='{ long V_d = nondet_long (); __CPROVER_assume (0 <= V_d && V_d < %s); %s = %s + V_d; %s = %s - V_d; }' % (n0, ptr, base, siz, n0), havoc_inv={'V_d': '(%s - %s)' % (ptr, base)},
                inv='(%(p)s >= %(b)s && __CPROVER_same_object (%(p)s, %(b)s) && %(s)s == %(n)s - (%(p)s - %(b)s) && 1 <= %(s)s && %(s)s <= %(n)s && %(b)s[%(n)s - 1] != 0 && (gh < (%(p)s - %(b)s) ==> %(b)s[gh] == 0))'
                    % dict(p=ptr, s=siz, b=base, n=n0), dec=siz, after=fin)
_cmpu = (dict(name='mpf_cmp', props=['C11', 'C13', 'C04', 'C15'], source='mpf/cmp.c', contracts=['mpn.h', 'mpz.h', 'c11.h', 'mpf.h'], enforce=['__gmpf_cmp'], replace=['__gmpn_cmp'],
    functions={'__gmpf_cmp': dict(
        inserts=[(r'up = u->_mp_d;', r'\g<0> long V_un = usize;'), (r'vp = v->_mp_d;', r'\g<0> long V_vn = vsize;')],
        loops={0: strip_loop('up', 'usize', 'u->_mp_d', 'V_un', 'g_zu = up - u->_mp_d;'),
               1: strip_loop('vp', 'vsize', 'v->_mp_d', 'V_vn', 'g_zv = vp - v->_mp_d;')})},
    harness='void h_mpf_cmp (void) {\n' + mpf_obj('U') + mpf_obj('V') + '  mpf_srcptr u = &U, v = &V; if (nondet_bool ()) v = u;\n  gj = nondet_long (); gh = nondet_long ();\n  __gmpf_cmp (u, v);\n}',
    timeout=900,
    selftest=[('__gmpf_cmp', r'return -usign;\s*\}\s*else\s*\{', 'return usign; } else {'), ('__gmpf_cmp', r'if \(uexp > vexp\)', 'if (uexp >= vexp)'),
              ('__gmpf_cmp', r'__gmpn_cmp \(up \+ usize - vsize, vp, vsize\)', '__gmpn_cmp (up, vp, vsize)')]))

UNITS.extend(split_alias(_cmpu, '  mpf_srcptr u = &U, v = &V; if (nondet_bool ()) v = u;\n',
                         [('', '  mpf_srcptr u = &U, v = &V;\n'), ('uv', '  mpf_srcptr u = &U, v = u;\n')]))

CT2 = ['mpn.h', 'mpz.h', 'c11.h', 'mpf.h']
def f1(fn, src, decl='', args='', muts=(), extra=None):
    u = dict(name=fn.replace('__gmpf_', 'mpf_'), props=['C13', 'C11', 'C04', 'C15'], source='mpf/%s.c' % src, contracts=CT2, enforce=[fn],
             harness='void h_%s (void) {\n%s  %s\n  gj = nondet_long ();\n  %s (&F%s);\n}' % (fn.replace('__gmpf_', 'mpf_'), mpf_obj('F'), decl, fn, args),
             selftest=[(fn,) + m for m in muts])
    if extra:
        u.update(extra)
    return u
UNITS.append(f1('__gmpf_set_ui', 'set_ui', 'mpir_ui v;', ', v', [(r'size = val != 0', 'size = 1')]))
UNITS.append(f1('__gmpf_set_si', 'set_si', 'mpir_si v;', ', v', [(r'dest->_mp_exp = size;', 'dest->_mp_exp = 1;')],
                dict(drop_checks=['--signed-overflow-check'], cbmc_flags=['--no-signed-overflow-check'], assumptions=['mpf_set_si: -LONG_MIN wraps (gcc semantics)'])))
for t in ('ulong', 'uint', 'ushort', 'slong', 'sint', 'sshort'):
    UNITS.append(f1('__gmpf_fits_%s_p' % t, 'fits_%s' % t, muts=[(r'if \(exp < 1\)', 'if (exp < 2)')]))
UNITS.append(f1('__gmpf_get_si', 'get_si', muts=[(r'if \(exp <= 0\)', 'if (exp < 0)')]))
UNITS.append(f1('__gmpf_cmp_ui', 'cmp_ui', 'mpir_ui v;', ', v', [(r'if \(uexp > 1\)', 'if (uexp > 2)'), (r'if \(usize > 0\)', 'if (usize >= 0)')],
                dict(functions={'__gmpf_cmp_ui': dict(
                    inserts=[(r'usize--;\s*if \(ulimb > vval\)', None)] if False else [(r'up = u->_mp_d;', r'\g<0> long V_n = usize;')],
                    loops={0: dict(scalars=['usize'], havoc_targets=['up'],
                                   havoc='{ long V_d = nondet_long (); __CPROVER_assume (0 <= V_d && V_d < V_n); up = u->_mp_d + V_d; usize = V_n - 1 - V_d; }', havoc_inv={'V_d': '(up - u->_mp_d)'},
                                   inv='(up >= u->_mp_d && __CPROVER_same_object (up, u->_mp_d) && usize == V_n - 1 - (up - u->_mp_d) && 0 <= usize && usize <= V_n - 1 && u->_mp_d[V_n - 1] != 0 && V_n == u->_mp_size && (gj < (up - u->_mp_d) ==> u->_mp_d[gj] == 0))',
                                   dec='usize + 1', after='g_hd = up - u->_mp_d;')})})))

for u in UNITS:
    if u['name'] == 'mpf_cmp_uv':
        u['tier'] = 'thorough'          # mpf_cmp(x,x): 340 s; the distinct-operand run (in the quick tier) already takes 7 minutes

# ------------------------------------------------------------------ mpf_set_prec: precision change keeps the most significant limbs, block resized exactly
UNITS.append(dict(name='mpf_set_prec', props=['C13', 'C04', 'C15'], source='mpf/set_prc.c', contracts=CT,
    contract_text='''#define V_NEWPREC(b) ((long) ((((b) > 53 ? (b) : 53) + 2 * 64 - 1) / 64))
void __gmpf_set_prec (mpf_ptr x, mp_bitcnt_t bits)
__CPROVER_requires (V_WFF (x) && bits <= 64 * (mp_bitcnt_t) (V_ZMAX - 4) && V_GHOSTS_OK)
__CPROVER_assigns (*x, __CPROVER_object_whole (V_PTR (x)))
__CPROVER_frees (V_PTR (x))
__CPROVER_ensures (V_PREC (x) == V_NEWPREC (bits) && V_WFF_AT (x, gk) && V_EXP (x) == __CPROVER_old (V_EXP (x)));
''', enforce=['__gmpf_set_prec'],
    functions={'__gmpf_set_prec': dict(loops={0: copy_loop('gk', 'incr')})},
    harness='#include "/verif/contracts/alloc_stubs.h"\nvoid h_mpf_set_prec (void) {\n  V_INSTALL_ALLOCATOR ();\n' + mpf_obj('F') + '''  mp_bitcnt_t bits = nondet_ulong ();
  gk = nondet_long (); gj = nondet_long (); gh = nondet_long ();
  __CPROVER_assume (V_GHOSTS_OK && V_WFF (&F) && bits <= 64 * (mp_bitcnt_t) (V_ZMAX - 4));
  long s = F._mp_size, n = V_ABS (s), np = V_NEWPREC (bits) + 1, rn = n < np ? n : np;
  mp_limb_t Fk = gk < rn ? F._mp_d[gk + (n - rn)] : 0;
  __gmpf_set_prec (&F, bits);
  __CPROVER_assert ((long) F._mp_size == (s >= 0 ? rn : -rn), "[C13] size = min(|size|, new prec + 1), sign kept");
  __CPROVER_assert (gk < rn ==> F._mp_d[gk] == Fk, "[C13] the most significant limbs are retained exactly (value unchanged when it fits the new precision)");
  free (F._mp_d);
}''', cbmc_flags=['--memory-leak-check'], timeout=900,
    selftest=[('__gmpf_set_prec', r'old_prec\+1', 'old_prec'), ('__gmpf_set_prec', r'xp \+ size - new_prec_plus1', 'xp')]))

# ------------------------------------------------------------------ mpf_trunc: the integer part, truncated toward zero - top min(un, exp, prec+1) limbs
_tr = dict(name='mpf_trunc', props=['C13', 'C04', 'C05', 'C15'], source='mpf/trunc.c', contracts=CT,
    contract_text='V_MPF2 (__gmpf_trunc);\n', enforce=['__gmpf_trunc'],
    functions={'__gmpf_trunc': dict(loops={0: copy_loop('gk', 'incr')})},
    harness='void h_mpf_trunc (void) {\n%s%s%s' % (mpf_obj('R'), mpf_obj('U'), ALIASF) + '''  gk = nondet_long (); gj = nondet_long (); gh = nondet_long ();
  __CPROVER_assume (V_GHOSTS_OK && V_WFF (r) && V_WFF (u));
  long su = V_SIZ (u), un = V_ABS (su), pr = V_PREC (r) + 1, eu = V_EXP (u);
  long rn = (su == 0 || eu <= 0) ? 0 : (un < eu ? un : eu); if (rn > pr) rn = pr;       /* integer-part limbs kept: min(un, exp, prec+1) */
  mp_limb_t Uk = gk < rn ? V_PTR (u)[gk + (un - rn)] : 0;
  __gmpf_trunc (r, u);
  __CPROVER_assert ((long) V_SIZ (r) == (su >= 0 ? rn : -rn), "[C13] trunc: min(|size|, exp, prec+1) limbs of the integer part, sign kept; a pure fraction gives 0");
  __CPROVER_assert (V_EXP (r) == (rn ? eu : 0), "[C13] exponent unchanged (0 for a zero result)");
  __CPROVER_assert (gk < rn ==> V_PTR (r)[gk] == Uk, "[C13][C05] limb gk of r is limb gk of the TOP rn limbs of u: every limb below the radix point is dropped, none above");
  __CPROVER_assert (u != r ==> ((long) V_SIZ (u) == su && V_EXP (u) == eu && (gk < rn ==> V_PTR (u)[gk + (un - rn)] == Uk)), "[C05] source unchanged");
}''', timeout=600,
    selftest=[('__gmpf_trunc', r'asize = \(\(asize\) < \(exp\) \? \(asize\) : \(exp\)\);', ';'), ('__gmpf_trunc', r'up -= asize;', 'up -= asize - 1;')])
UNITS.extend(split_alias(_tr, ALIASF, AF))

# ------------------------------------------------------------------ mpf_swap, mpf_cmp_si
UNITS.append(dict(name='mpf_swap', props=['C13', 'C04', 'C05', 'C15'], source='mpf/swap.c', contracts=CT,
    contract_text='''void __gmpf_swap (mpf_ptr u, mpf_ptr v)
__CPROVER_requires (V_WFF (u) && V_WFF (v))
__CPROVER_assigns (*u, *v)
__CPROVER_ensures (V_PTR (u) == __CPROVER_old (V_PTR (v)) && V_SIZ (u) == __CPROVER_old (V_SIZ (v)) && V_EXP (u) == __CPROVER_old (V_EXP (v)) && V_PREC (u) == __CPROVER_old (V_PREC (v)))
__CPROVER_ensures (V_PTR (v) == __CPROVER_old (V_PTR (u)) && V_SIZ (v) == __CPROVER_old (V_SIZ (u)) && V_EXP (v) == __CPROVER_old (V_EXP (u)) && V_PREC (v) == __CPROVER_old (V_PREC (u)))
__CPROVER_ensures (V_WFF (u) && V_WFF (v));
''', enforce=['__gmpf_swap'],
    harness='void h_mpf_swap (void) {\n%s%s  mpf_ptr u = &U, v = &V; if (nondet_bool ()) v = u;\n  __gmpf_swap (u, v);\n}' % (mpf_obj('U'), mpf_obj('V')),
    selftest=[('__gmpf_swap', r'u->_mp_prec = vprec;', 'u->_mp_prec = uprec;'), ('__gmpf_swap', r'v->_mp_exp = uexp;', 'v->_mp_exp = vexp;')]))
UNITS.append(f1('__gmpf_cmp_si', 'cmp_si', 'mpir_si v;', ', v', [(r'if \(uexp > 1\)', 'if (uexp > 2)'), (r'usize >= 0 \? 1 : -1;\s*\}', 'usize > 0 ? 1 : -1; }'), (r'return -\(vval != 0\);', 'return (vval != 0);')],
                dict(contract_text='''#define V_ABSL(v) ((V_limb) ((v) < 0 ? -(V_limb) (v) : (V_limb) (v)))
/* mpf_cmp_si: sign of u - v.  Same structure as mpf_cmp_ui on |u| and |v| once the signs agree */
int __gmpf_cmp_si (mpf_srcptr u, mpir_si vval)
__CPROVER_requires (V_WFF (u) && 0 <= gj && gj <= V_NMAX)
__CPROVER_assigns (g_hd)
__CPROVER_ensures (((V_SIZ (u) < 0) != (vval < 0)) ==> V_SGN3 (__CPROVER_return_value) == (V_SIZ (u) >= 0 ? 1 : -1))
__CPROVER_ensures (((V_SIZ (u) < 0) == (vval < 0) && V_SIZ (u) == 0) ==> V_SGN3 (__CPROVER_return_value) == -(vval != 0))
__CPROVER_ensures (((V_SIZ (u) < 0) == (vval < 0) && V_SIZ (u) != 0 && vval == 0) ==> V_SGN3 (__CPROVER_return_value) == 1)
__CPROVER_ensures (((V_SIZ (u) < 0) == (vval < 0) && V_SIZ (u) != 0 && vval != 0 && V_EXP (u) != 1) ==> V_SGN3 (__CPROVER_return_value) == (V_EXP (u) > 1 ? V_USGN (u) : -V_USGN (u)))
__CPROVER_ensures (((V_SIZ (u) < 0) == (vval < 0) && V_SIZ (u) != 0 && vval != 0 && V_EXP (u) == 1 && V_FTOP (u) != V_ABSL (vval)) ==> V_SGN3 (__CPROVER_return_value) == (V_FTOP (u) > V_ABSL (vval) ? V_USGN (u) : -V_USGN (u)))
/* integer parts equal: u is larger in magnitude exactly when it has a non-zero limb below the top one (g_hd: the lowest non-zero limb) */
__CPROVER_ensures (((V_SIZ (u) < 0) == (vval < 0) && V_SIZ (u) != 0 && vval != 0 && V_EXP (u) == 1 && V_FTOP (u) == V_ABSL (vval)) ==>
   (0 <= g_hd && g_hd < V_ABSIZ (u) && V_PTR (u)[g_hd] != 0 && (gj < g_hd ==> V_PTR (u)[gj] == 0) && V_SGN3 (__CPROVER_return_value) == (g_hd < V_ABSIZ (u) - 1 ? V_USGN (u) : 0)));
''', drop_checks=['--signed-overflow-check'], cbmc_flags=['--no-signed-overflow-check'], assumptions=['mpf_cmp_si: ABS(LONG_MIN) wraps (gcc semantics)'],
                     functions={'__gmpf_cmp_si': dict(
                    inserts=[(r'up = u->_mp_d;', r'\g<0> long V_n = usize;')],
                    loops={0: dict(scalars=['usize'], havoc_targets=['up'],
                                   havoc='{ long V_d = nondet_long (); __CPROVER_assume (0 <= V_d && V_d < V_n); up = u->_mp_d + V_d; usize = V_n - 1 - V_d; }', havoc_inv={'V_d': '(up - u->_mp_d)'},
                                   inv='(up >= u->_mp_d && __CPROVER_same_object (up, u->_mp_d) && usize == V_n - 1 - (up - u->_mp_d) && 0 <= usize && usize <= V_n - 1 && u->_mp_d[V_n - 1] != 0 && V_n == (u->_mp_size < 0 ? -(long) u->_mp_size : (long) u->_mp_size) && (gj < (up - u->_mp_d) ==> u->_mp_d[gj] == 0))',
                                   dec='usize + 1', after='g_hd = up - u->_mp_d;')})})))

# ------------------------------------------------------------------ mpf_ceil / mpf_floor (operands distinct): integer part, incremented in magnitude exactly when the
# rounding direction matches the sign and some dropped limb is non-zero
CF_CONTRACT = '''int g_cf_inc; mp_limb_t g_cf_hv;
static void __gmpf_ceil_or_floor (mpf_ptr r, mpf_srcptr u, int dir)
__CPROVER_requires (V_WFF (r) && V_WFF (u) && r != u && !__CPROVER_same_object (V_PTR (r), V_PTR (u)) && (dir == 1 || dir == -1) && V_EXP (u) < (1L << 62) && V_GHOSTS_OK)
__CPROVER_assigns (r->_mp_size, r->_mp_exp, __CPROVER_object_whole (V_PTR (r)), g_ci, g_co, g2_ci, g2_co, g_hd, g_cf_inc, g_cf_hv)
__CPROVER_ensures (V_WFF_AT (r, gk) && V_PTR (r) == __CPROVER_old (V_PTR (r)) && V_PREC (r) == __CPROVER_old (V_PREC (r)));
'''
_cf = (dict(name='mpf_ceilfloor', props=['C13', 'C04', 'C15'], source='mpf/ceilfloor.c', contracts=CT, contract_text=CF_CONTRACT,
    enforce=['__gmpf_ceil_or_floor'], replace=['__gmpn_add_1'],
    functions={'__gmpf_ceil_or_floor': dict(
        inserts=[(r'if \(__gmpn_add_1 \(rp, up, asize, \(\(mp_limb_t\) 1L\)\)\)', r'g_cf_inc = 1; g_hd = p - u->_mp_d; g_cf_hv = *p; \g<0>')],
        loops={0: dict(scalars=['asize', 'g_cf_hv', 'g_cf_inc', 'g_hd'], snap='long V_as = asize;', havoc_targets=['p'], havoc='{ long V_d = nondet_long (); __CPROVER_assume (0 <= V_d && V_d <= (up - u->_mp_d)); p = u->_mp_d + V_d; }', havoc_inv={'V_d': '(p - u->_mp_d)'},
                       inv='(asize == V_as && p >= u->_mp_d && p <= up && __CPROVER_same_object (p, u->_mp_d) && __CPROVER_same_object (up, u->_mp_d) && g_cf_inc == 0 && ((0 <= gj && gj < (p - u->_mp_d)) ==> u->_mp_d[gj] == 0))',
                       dec='(up - p)'),
               1: copy_loop('gk', 'incr')})},
    assumptions=['r == u is NOT covered: in place mpf_ceil/mpf_floor hand mpn_add_1 a partially overlapping pair (rp below up), which the manual\'s "same or separate" rule - the contract mpn_add_1 is proved under - does not permit'],
    harness='void h_mpf_ceilfloor (void) {\n%s%s  mpf_ptr r = &R; mpf_srcptr u = &U;\n' % (mpf_obj('R'), mpf_obj('U')) + '''  gk = nondet_long (); gh = nondet_long (); gj = nondet_long ();
  __CPROVER_assume (V_GHOSTS_OK && V_WFF (r) && V_WFF (u) && V_EXP (u) < (1L << 62));
  int dir = DIRSEL;
  long su = V_SIZ (u), un = V_ABS (su), pr = V_PREC (r) + 1, eu = V_EXP (u);
  long k = un < eu ? un : eu; if (k > pr) k = pr;                      /* kept integer-part limbs when exp > 0 */
  _Bool match = ((su < 0) == (dir < 0));                                 /* rounding away from zero for this sign */
  mp_limb_t Uk = (eu > 0 && gk < k) ? V_PTR (u)[gk + (un - k)] : 0, Ugj = (eu > 0 && gj < un - k) ? V_PTR (u)[gj] : 0;
  g_cf_inc = 0;
  if (dir == 1) __gmpf_ceil (r, u); else __gmpf_floor (r, u);
  long sr = V_SIZ (r), rn = V_ABS (sr);
  if (su == 0)
    __CPROVER_assert (sr == 0, "[C13] ceil/floor of 0 is 0");
  else if (eu <= 0)
    __CPROVER_assert (match ? (sr == dir && V_PTR (r)[0] == 1 && V_EXP (r) == 1) : sr == 0, "[C13] a pure fraction rounds to 0, or to +-1 in the rounding direction");
  else if (g_cf_inc)
    {
      __CPROVER_assert (match && 0 <= g_hd && g_hd < un - k && g_cf_hv != 0, "[C13] the magnitude is incremented only in the rounding direction and because a dropped limb is non-zero");
      if (rn == k && V_EXP (r) == eu)
        {
          __CPROVER_assert ((sr < 0) == (su < 0), "[C13] sign kept");
          __CPROVER_assert (gk < k ==> (g_ci <= 1 && g_co <= 1 && V_ADDREL (V_PTR (r)[gk], Uk, (gk == 0 ? 1 : 0), g_ci, g_co)), "[C13] |r| = (integer part kept) + 1: carry chain at limb gk");
          __CPROVER_assert ((gk == 0 && gk < k) ==> g_ci == 0, "[C13] no carry into limb 0");
          __CPROVER_assert (gk == k - 1 ==> g_co == 0, "[C13] no carry out of the top limb in this branch");
        }
      else
        {
          __CPROVER_assert (rn == 1 && V_PTR (r)[0] == 1 && V_EXP (r) == eu + 1 && (sr < 0) == (su < 0), "[C13] all-ones integer part: the increment gives B^exp, stored as 1 with exponent + 1");
          __CPROVER_assert (gk == k - 1 ==> g_co == 1, "[C13] ... exactly when the carry leaves the top limb");
        }
    }
  else
    {
      __CPROVER_assert (sr == (su >= 0 ? k : -k) && V_EXP (r) == eu, "[C13] no increment: min(|size|, exp, prec+1) limbs of the integer part, sign and exponent kept");
      __CPROVER_assert (gk < k ==> V_PTR (r)[gk] == Uk, "[C13] limb gk of r is limb gk of the TOP k limbs of u");
      __CPROVER_assert ((match && gj < un - k) ==> Ugj == 0, "[C13] in the rounding direction the increment is skipped only when EVERY dropped limb is zero");
    }
  __CPROVER_assert ((long) V_SIZ (u) == su && V_EXP (u) == eu && ((eu > 0 && gk < k) ==> V_PTR (u)[gk + (un - k)] == Uk), "[C05] source unchanged");
}''', timeout=900,
    selftest=[('__gmpf_ceil_or_floor', r'if \(\(size \^ dir\) >= 0\)', 'if ((size ^ dir) < 0)'), ('__gmpf_ceil_or_floor', r'\(\(r\)->_mp_exp\)\+\+;', ';'),
              ('__gmpf_ceil_or_floor', r'for \(p = \(\(u\)->_mp_d\); p != up; p\+\+\)', 'for (p = ((u)->_mp_d) + 1; p != up; p++)')]))
_cf['assumptions'] = _cf['assumptions'] + ['exponent below 2^62 (EXP(r)++ on LONG_MAX would overflow)']
for _n, _d in (('mpf_ceil', '1'), ('mpf_floor', '-1')):
    _v = dict(_cf); _v['name'] = _n; _v['harness'] = _cf['harness'].replace('DIRSEL', _d).replace('h_mpf_ceilfloor (void)', 'h_%s (void)' % _n)
    if _n == 'mpf_floor': _v['selftest'] = []
    UNITS.append(_v)

# ------------------------------------------------------------------ mpf_mul_2exp / mpf_div_2exp: exact scaling - the top min(un, prec) limbs shifted left by L bits
# into n+1 limbs (or a plain top-limb copy when the bit count is a multiple of 64), exponent adjusted
def _f2exp(op):
    f = '__gmpf_%s_2exp' % op
    contract = '''void %s (mpf_ptr r, mpf_srcptr u, mp_bitcnt_t exp)
__CPROVER_requires (V_WFF (r) && V_WFF (u) && -(1L << 62) < V_EXP (u) && V_EXP (u) < (1L << 62) && V_GHOSTS_OK && gk < V_ZMAX)
__CPROVER_assigns (r->_mp_size, r->_mp_exp, __CPROVER_object_whole (V_PTR (r)), gk)
__CPROVER_ensures (gk == __CPROVER_old (gk) && V_WFF_AT (r, gk) && V_PTR (r) == __CPROVER_old (V_PTR (r)) && V_PREC (r) == __CPROVER_old (V_PREC (r)));
''' % f
    h = '''void h_mpf_%(op)s_2exp (void) {
%(R)s%(U)s%(alias)s  mp_bitcnt_t e = nondet_ulong ();
  gk = nondet_long (); gj = nondet_long (); gh = nondet_long ();
  __CPROVER_assume (V_GHOSTS_OK && gk < V_ZMAX && V_WFF (r) && V_WFF (u) && -(1L << 62) < V_EXP (u) && V_EXP (u) < (1L << 62));
  long su = V_SIZ (u), un = V_ABS (su), pr = V_PREC (r), eu = V_EXP (u), q = (long) (e / 64); unsigned s = e %% 64;
  __CPROVER_assume (BRANCHSEL);
  if (s == 0)
    {
      long rn = un < pr + 1 ? un : pr + 1; mp_limb_t Uk = gk < rn ? V_PTR (u)[gk + (un - rn)] : 0;
      %(f)s (r, u, e);
      __CPROVER_assert ((long) V_SIZ (r) == (su >= 0 ? rn : -rn) && V_EXP (r) == (su == 0 ? 0 : eu %(sgn)s q), "[C13] whole-limb scaling: top min(un, prec+1) limbs kept, exponent %(sgn)s e/64");
      __CPROVER_assert (gk < rn ==> V_PTR (r)[gk] == Uk, "[C13][C05] limb gk of r is limb gk of the TOP rn limbs of u");
    }
  else
    {
      unsigned L = %(L)s;                                                  /* left shift applied to the limb data */
      long n = un < pr ? un : pr;                                          /* limbs taken from the top of u */
      /* X = top n limbs of u; r[j] = (X[j] << L) | (X[j-1] >> (64-L)) for 0 <= j <= n with X[-1] = X[n] = 0: checked at j = gk and j = gk + 1 */
      mp_limb_t Xk = gk < n ? V_PTR (u)[gk + (un - n)] : 0, Xk1 = (gk >= 1 && gk - 1 < n) ? V_PTR (u)[gk - 1 + (un - n)] : 0;
      mp_limb_t Xt = n ? V_PTR (u)[un - 1] : 0;
      %(f)s (r, u, e);
      if (su == 0) __CPROVER_assert (V_SIZ (r) == 0 && V_EXP (r) == 0, "[C13] 0 scaled is 0");
      else
        {
          long adj = (Xt >> (64 - L)) != 0;
          __CPROVER_assert ((long) V_SIZ (r) == (su >= 0 ? n + adj : -(n + adj)), "[C13] min(un, prec) limbs shifted, one more when bits leave the top limb; sign kept");
          __CPROVER_assert (V_EXP (r) == %(E)s, "[C13] exponent: %(Edoc)s");
          __CPROVER_assert (gk <= n ==> V_PTR (r)[gk] == ((Xk << L) | (Xk1 >> (64 - L))), "[C13][C05] limb gk of r = the top limbs of u shifted left by L bits (exact, nothing but dropped low limbs is lost)");
        }
    }
  if (u != r) __CPROVER_assert ((long) V_SIZ (u) == su && V_EXP (u) == eu, "[C05] source unchanged");
}'''
    d = dict(op=op, f=f, R=mpf_obj('R'), U=mpf_obj('U'), alias='ALIASBLOCK',
             sgn='+' if op == 'mul' else '-', L='s' if op == 'mul' else '64 - s',
             E='eu + q + adj' if op == 'mul' else 'eu - q - 1 + adj', Edoc='+ e/64 + carry limb' if op == 'mul' else '- e/64 - 1 + carry limb')
    muts = ([(r'adj = cy_limb != 0;', 'adj = 0;'), (r'if \(abs_usize > prec\)\s*\{\s*up \+= abs_usize - prec;\s*abs_usize = prec;\s*cy_limb', 'if (abs_usize > prec + 1) { up += abs_usize - prec; abs_usize = prec; cy_limb')] if op == 'mul'
            else [(r'uexp - exp / \(64 - 0\) - 1 \+ adj', 'uexp - exp / (64 - 0) + adj'), (r'rp\[0\] = cy_limb;', 'rp[0] = 0;')])
    base = dict(name='mpf_%s_2exp' % op, props=['C13', 'C04', 'C05', 'C15'], source='mpf/%s_2exp.c' % op, contracts=CT, contract_text=contract,
                enforce=[f], replace=['__gmpn_lshift', '__gmpn_rshift'],
                functions={f: dict(loops={0: copy_loop('gk', 'incr')},
                                   inserts=[(r'cy_limb = __gmpn_lshift \(rp, up, abs_usize,[^;]*\);', r'{ long V_sv = gk; gk = gk < abs_usize ? gk : 0; \g<0> gk = V_sv; }'),
                                            (r'cy_limb = __gmpn_rshift \(rp \+ 1, up, abs_usize,[^;]*\);', r'{ long V_sv = gk; gk = (gk >= 1 && gk - 1 < abs_usize) ? gk - 1 : 0; \g<0> gk = V_sv; }')])},
                harness=h % d, timeout=1200, selftest=[(f,) + m for m in muts])
    out = []
    for v in split_alias(base, 'ALIASBLOCK', [('', '  mpf_ptr r = &R; mpf_srcptr u = &U;\n'), ('ru', '  mpf_ptr r = &R; mpf_srcptr u = r;\n')]):
        for tag, cond in (('p1', 's == 0'), ('p2', 's != 0 && un <= pr'), ('p3', 's != 0 && un > pr')):
            w = dict(v); w['name'] = v['name'] + '_' + tag
            w['harness'] = v['harness'].replace('BRANCHSEL', cond).replace('h_' + v['name'] + ' (void)', 'h_' + w['name'] + ' (void)')
            w['replace'] = {'p1': [], 'p2': ['__gmpn_lshift'], 'p3': ['__gmpn_rshift']}[tag]      # the other shift is unreachable in this partition (body-less: CBMC asserts it is never called)
            if v['name'].endswith('_ru') and tag != 'p1': w['tier'] = 'off'      # r == u with a bit shift: CBMC's propositional reduction ran out of memory at 14 GB and at 30 GB (undecided, DESIGN 11.3)
            w['selftest'] = [m for m in v.get('selftest', []) if (tag == 'p2' and 'adj = cy_limb' in m[1]) or (tag == 'p3' and 'adj = cy_limb' not in m[1] and 'uexp - exp' not in m[1]) or (tag == 'p2' and 'uexp - exp' in m[1])]
            out.append(w)
    return out
UNITS.extend(_f2exp('mul'))
UNITS.extend(_f2exp('div'))

# ------------------------------------------------------------------ mpf_set_z: the integer's top min(un, prec+1) limbs, exponent = its limb count
from c04_alloc import mpz_obj
UNITS.append(dict(name='mpf_set_z', props=['C13', 'C04', 'C15'], source='mpf/set_z.c', contracts=CT,
    contract_text='''void __gmpf_set_z (mpf_ptr r, mpz_srcptr u)
__CPROVER_requires (V_WFF (r) && V_WF (u) && V_GHOSTS_OK)
__CPROVER_assigns (r->_mp_size, r->_mp_exp, __CPROVER_object_whole (V_PTR (r)))
__CPROVER_ensures (V_WFF_AT (r, gk) && V_PTR (r) == __CPROVER_old (V_PTR (r)) && V_PREC (r) == __CPROVER_old (V_PREC (r)));
''', enforce=['__gmpf_set_z'],
    functions={'__gmpf_set_z': dict(loops={0: copy_loop('gk', 'incr')})},
    harness='void h_mpf_set_z (void) {\n%s%s  mpf_ptr r = &R; mpz_srcptr u = &U;\n' % (mpf_obj('R'), mpz_obj('U')) + '''  gk = nondet_long (); gj = nondet_long (); gh = nondet_long ();
  __CPROVER_assume (V_GHOSTS_OK && V_WFF (r) && V_WF (u));
  long su = V_SIZ (u), un = V_ABS (su), pr = V_PREC (r) + 1, rn = un < pr ? un : pr;
  mp_limb_t Uk = gk < rn ? V_PTR (u)[gk + (un - rn)] : 0;
  __gmpf_set_z (r, u);
  __CPROVER_assert ((long) V_SIZ (r) == (su >= 0 ? rn : -rn) && V_EXP (r) == un, "[C13] set_z: min(un, prec+1) limbs, sign of u, exponent = limb count of u (exact when u fits the precision)");
  __CPROVER_assert (gk < rn ==> V_PTR (r)[gk] == Uk, "[C13] limb gk of r is limb gk of the TOP rn limbs of u");
  __CPROVER_assert ((long) V_SIZ (u) == su && (gk < rn ==> V_PTR (u)[gk + (un - rn)] == Uk), "[C05] source unchanged");
}''', timeout=600,
    selftest=[('__gmpf_set_z', r'up \+= asize - prec;', ';'), ('__gmpf_set_z', r'\(\(r\)->_mp_exp\) = asize;', '((r)->_mp_exp) = asize - 1;')]))

# the mpf comparison / conversion functions are named by C11 as well: run them in C11's quick tier too (seed C11_seed3, mpf_cmp_si, was missed without this)
for _u in UNITS:
    if 'C11' in _u['props'] and _u['props'][0] != 'C11':
        _u.setdefault('quick_props', [])
        if 'C11' not in _u['quick_props']:
            _u['quick_props'] = _u['quick_props'] + ['C11']

# ------------------------------------------------------------------ mpf_set_d: exact for every finite double (two limbs always fit: prec + 1 >= 2), on top of the proved __gmp_extract_double
_sd = dict(
    name='mpf_set_d', props=['C13', 'C11', 'C04', 'C15'], quick_props=['C11'], source='mpf/set_d.c', extra_sources=['extract-dbl.c'], contracts=CT2,
    contract_text='''void __gmpf_set_d (mpf_ptr r, double d)
__CPROVER_requires (V_WFF (r) && !__CPROVER_isnand (d) && !__CPROVER_isinfd (d) && V_GHOSTS_OK)
__CPROVER_assigns (r->_mp_size, r->_mp_exp, __CPROVER_object_whole (V_PTR (r)))
__CPROVER_ensures (V_WFF_AT (r, gk) && V_PTR (r) == __CPROVER_old (V_PTR (r)) && V_PREC (r) == __CPROVER_old (V_PREC (r)));
''', enforce=['__gmpf_set_d'], unwind=66,
    assumptions=['d finite (NaN and infinities raise the invalid-operation trap: not modelled)', '__gmp_extract_double is taken with its real body (unwound completely); its own unit proves that its output denotes d exactly'],
    harness='''void h_mpf_set_d (void) {
%s  mpf_ptr r = &R;
  double d; __CPROVER_assume (!__CPROVER_isnand (d) && !__CPROVER_isinfd (d));
  gk = nondet_long (); gj = 0; gh = 0; __CPROVER_assume (0 <= gk && gk < V_ZMAX && V_WFF (r));
  mp_limb_t T[2]; double ad = d < 0 ? -d : d;
  int e = __gmp_extract_double (T, ad);
  __gmpf_set_d (r, d);
  if (d == 0)
    __CPROVER_assert (V_SIZ (r) == 0 && V_EXP (r) == 0, "[C13][C11] mpf_set_d: zero");
  else
    __CPROVER_assert (V_SIZ (r) == (d < 0 ? -2 : 2) && V_EXP (r) == e && V_PTR (r)[0] == T[0] && V_PTR (r)[1] == T[1], "[C13][C11] mpf_set_d: sign, limb exponent and both significand limbs of d: exact for every finite double");
}''' % mpf_obj('R'), timeout=600,
    selftest=[('__gmpf_set_d', r'negative \? -\(\(53 \+ \(64 - 0\) - 1\) / \(64 - 0\) \+ 1\)', 'negative ? ((53 + (64 - 0) - 1) / (64 - 0) + 1)')])
UNITS.append(_sd)
