"""C13 (exact functions): mpf format invariant as a proved post-condition and the limb-exact copy/sign functions."""
from c03_mpn import copy_loop
from c03_mpz import split_alias
UNITS = []
CT = ['mpn.h', 'mpz.h', 'c11.h', 'mpf.h']
def mpf_obj(n):
    return ('''  __mpf_struct %(n)s; { long pr = nondet_long (); __CPROVER_assume (1 <= pr && pr < V_ZMAX);
    %(n)s._mp_prec = pr; %(n)s._mp_d = malloc ((pr + 1) * 8); __CPROVER_assume (%(n)s._mp_d != (void *) 0); %(n)s._mp_size = nondet_long (); %(n)s._mp_exp = nondet_long (); }
''' % {'n': n})
ALIASF = '  mpf_ptr r = &R; mpf_srcptr u = &U;\n  if (nondet_bool ()) u = r;\n'
AF = [('', '  mpf_ptr r = &R; mpf_srcptr u = &U;\n'), ('ru', '  mpf_ptr r = &R; mpf_srcptr u = r;\n')]
def copyish(op, sgn, muts):
    f = '__gmpf_' + op
    u = dict(name='mpf_' + op, props=['C13', 'C04', 'C05', 'C15'], source='mpf/%s.c' % op, contracts=CT, enforce=[f],
             functions={f: dict(loops={0: copy_loop('gk', 'incr')})},
             harness='void h_mpf_%s (void) {\n%s%s%s' % (op, mpf_obj('R'), mpf_obj('U'), ALIASF) + '''  gk = nondet_long (); gj = nondet_long (); gh = nondet_long ();
  __CPROVER_assume (V_GHOSTS_OK && V_WFF (r) && V_WFF (u));
  long su = V_SIZ (u), un = V_ABS (su), pr = V_PREC (r) + 1, rn = un < pr ? un : pr; long eu = V_EXP (u);
  mp_limb_t Uk = gk < rn ? V_PTR (u)[gk + (un - rn)] : 0;
  %s (r, u);
  __CPROVER_assert ((long) V_SIZ (r) == (%s), "[C13] size = min(|size(u)|, prec(r)+1) limbs with the sign of the operation");
  __CPROVER_assert (V_EXP (r) == eu, "[C13] exponent unchanged");
  __CPROVER_assert (gk < rn ==> V_PTR (r)[gk] == Uk, "[C13][C05] limb gk of r is limb gk of the TOP rn limbs of u (exact if u fits r's precision)");
  __CPROVER_assert (u != r ==> ((long) V_SIZ (u) == su && V_EXP (u) == eu && (gk < rn ==> V_PTR (u)[gk + (un - rn)] == Uk)), "[C05] source unchanged");
}''' % (f, sgn), timeout=600, selftest=[(f,) + m for m in muts])
    return split_alias(u, ALIASF, AF)
UNITS.extend(copyish('neg', 'su > 0 ? -rn : rn', [(r'up \+= asize - prec;', 'up += 0;'), (r'size = -u->_mp_size;', 'size = u->_mp_size;')]))
UNITS.extend(copyish('abs', 'rn', [(r'up \+= size - prec;', ';')]))
UNITS.extend(copyish('set', 'su >= 0 ? rn : -rn', [(r'if \(asize > prec\)', 'if (asize > prec + 1)')]))
UNITS.append(dict(name='mpf_integer_p', props=['C13', 'C04', 'C15'], source='mpf/int_p.c', contracts=CT, enforce=['__gmpf_integer_p'],
    functions={'__gmpf_integer_p': dict(
        inserts=[(r'return 0;\s*return 1;', None)] if False else [],
        loops={0: dict(scalars=['i', 'g_hd'], inv='(0 <= i && i <= (frac < 0 ? 0 : frac) && frac == ((size) >= 0 ? (size) : -(size)) - exp && exp > 0 && ptr == f->_mp_d && ((0 <= gj && gj < i) ==> ptr[gj] == 0))',
                       dec='(frac < 0 ? 0 : frac) - i', begin='g_hd = i;')})},
    harness='void h_mpf_integer_p (void) {\n' + mpf_obj('F') + '  gj = nondet_long ();\n  __gmpf_integer_p (&F);\n}',
    selftest=[('__gmpf_integer_p', r'if \(exp <= 0\)', 'if (exp < 0)'), ('__gmpf_integer_p', r'i < frac', 'i < frac - 1')]))
UNITS.append(dict(name='mpf_get_ui', props=['C13', 'C11', 'C04', 'C15'], source='mpf/get_ui.c', contracts=CT, enforce=['__gmpf_get_ui'],
    harness='void h_mpf_get_ui (void) {\n' + mpf_obj('F') + '  __gmpf_get_ui (&F);\n}',
    selftest=[('__gmpf_get_ui', r'if \(size >= exp\)', 'if (size > exp)')]))

def strip_loop(ptr, siz, base, n0, fin):
    return dict(scalars=[siz], havoc_targets=[ptr], havoc='{ long V_d = nondet_long (); __CPROVER_assume (0 <= V_d && V_d < %s); %s = %s + V_d; %s = %s - V_d; }' % (n0, ptr, base, siz, n0),
                inv='(%(p)s >= %(b)s && __CPROVER_same_object (%(p)s, %(b)s) && %(s)s == %(n)s - (%(p)s - %(b)s) && 1 <= %(s)s && %(s)s <= %(n)s && %(b)s[%(n)s - 1] != 0 && (gh < (%(p)s - %(b)s) ==> %(b)s[gh] == 0))'
                    % dict(p=ptr, s=siz, b=base, n=n0), dec=siz, after=fin)
_cmpu = (dict(name='mpf_cmp', props=['C11', 'C13', 'C04', 'C15'], source='mpf/cmp.c', contracts=['mpn.h', 'mpz.h', 'c11.h', 'mpf.h'], enforce=['__gmpf_cmp'], replace=['__gmpn_cmp'],
    functions={'__gmpf_cmp': dict(
        inserts=[(r'up = u->_mp_d;', r'\g<0> long V_un = usize;'), (r'vp = v->_mp_d;', r'\g<0> long V_vn = vsize;')],
        loops={0: strip_loop('up', 'usize', 'u->_mp_d', 'V_un', 'g_zu = up - u->_mp_d;'),
               1: strip_loop('vp', 'vsize', 'v->_mp_d', 'V_vn', 'g_zv = vp - v->_mp_d;')})},
    harness='void h_mpf_cmp (void) {\n' + mpf_obj('U') + mpf_obj('V') + '  mpf_srcptr u = &U, v = &V; if (nondet_bool ()) v = u;\n  gj = nondet_long (); gh = nondet_long ();\n  __gmpf_cmp (u, v);\n}',
    timeout=900,
    selftest=[('__gmpf_cmp', r'return -usign;\s*\}\s*else\s*\{', 'return usign; } else {'), ('__gmpf_cmp', r'if \(uexp > vexp\)', 'if (uexp >= vexp)'),
              ('__gmpf_cmp', r'__gmpn_cmp \(up \+ usize - vsize, vp, vsize\)', '__gmpn_cmp (up, vp, vsize)')]))

UNITS.extend(split_alias(_cmpu, '  mpf_srcptr u = &U, v = &V; if (nondet_bool ()) v = u;\n',
                         [('', '  mpf_srcptr u = &U, v = &V;\n'), ('uv', '  mpf_srcptr u = &U, v = u;\n')]))

CT2 = ['mpn.h', 'mpz.h', 'c11.h', 'mpf.h']
def f1(fn, src, decl='', args='', muts=(), extra=None):
    u = dict(name=fn.replace('__gmpf_', 'mpf_'), props=['C13', 'C11', 'C04', 'C15'], source='mpf/%s.c' % src, contracts=CT2, enforce=[fn],
             harness='void h_%s (void) {\n%s  %s\n  gj = nondet_long ();\n  %s (&F%s);\n}' % (fn.replace('__gmpf_', 'mpf_'), mpf_obj('F'), decl, fn, args),
             selftest=[(fn,) + m for m in muts])
    if extra:
        u.update(extra)
    return u
UNITS.append(f1('__gmpf_set_ui', 'set_ui', 'mpir_ui v;', ', v', [(r'size = val != 0', 'size = 1')]))
UNITS.append(f1('__gmpf_set_si', 'set_si', 'mpir_si v;', ', v', [(r'dest->_mp_exp = size;', 'dest->_mp_exp = 1;')],
                dict(drop_checks=['--signed-overflow-check'], cbmc_flags=['--no-signed-overflow-check'], assumptions=['mpf_set_si: -LONG_MIN wraps (gcc semantics)'])))
for t in ('ulong', 'uint', 'ushort', 'slong', 'sint', 'sshort'):
    UNITS.append(f1('__gmpf_fits_%s_p' % t, 'fits_%s' % t, muts=[(r'if \(exp < 1\)', 'if (exp < 2)')]))
UNITS.append(f1('__gmpf_get_si', 'get_si', muts=[(r'if \(exp <= 0\)', 'if (exp < 0)')]))
UNITS.append(f1('__gmpf_cmp_ui', 'cmp_ui', 'mpir_ui v;', ', v', [(r'if \(uexp > 1\)', 'if (uexp > 2)'), (r'if \(usize > 0\)', 'if (usize >= 0)')],
                dict(functions={'__gmpf_cmp_ui': dict(
                    inserts=[(r'usize--;\s*if \(ulimb > vval\)', None)] if False else [(r'up = u->_mp_d;', r'\g<0> long V_n = usize;')],
                    loops={0: dict(scalars=['usize'], havoc_targets=['up'],
                                   havoc='{ long V_d = nondet_long (); __CPROVER_assume (0 <= V_d && V_d < V_n); up = u->_mp_d + V_d; usize = V_n - 1 - V_d; }',
                                   inv='(up >= u->_mp_d && __CPROVER_same_object (up, u->_mp_d) && usize == V_n - 1 - (up - u->_mp_d) && 0 <= usize && usize <= V_n - 1 && u->_mp_d[V_n - 1] != 0 && V_n == u->_mp_size && (gj < (up - u->_mp_d) ==> u->_mp_d[gj] == 0))',
                                   dec='usize + 1', after='g_hd = up - u->_mp_d;')})})))

for u in UNITS:
    if u['name'] == 'mpf_cmp_uv':
        u['tier'] = 'thorough'          # mpf_cmp(x,x): 340 s; the distinct-operand run (in the quick tier) already takes 7 minutes

# ------------------------------------------------------------------ mpf_set_prec: precision change keeps the most significant limbs, block resized exactly
UNITS.append(dict(name='mpf_set_prec', props=['C13', 'C04', 'C15'], source='mpf/set_prc.c', contracts=CT,
    contract_text='''#define V_NEWPREC(b) ((long) ((((b) > 53 ? (b) : 53) + 2 * 64 - 1) / 64))
void __gmpf_set_prec (mpf_ptr x, mp_bitcnt_t bits)
__CPROVER_requires (V_WFF (x) && bits <= 64 * (mp_bitcnt_t) (V_ZMAX - 4) && V_GHOSTS_OK)
__CPROVER_assigns (*x, __CPROVER_object_whole (V_PTR (x)))
__CPROVER_frees (V_PTR (x))
__CPROVER_ensures (V_PREC (x) == V_NEWPREC (bits) && V_WFF_AT (x, gk) && V_EXP (x) == __CPROVER_old (V_EXP (x)));
''', enforce=['__gmpf_set_prec'],
    functions={'__gmpf_set_prec': dict(loops={0: copy_loop('gk', 'incr')})},
    harness='#include "/verif/contracts/alloc_stubs.h"\nvoid h_mpf_set_prec (void) {\n  V_INSTALL_ALLOCATOR ();\n' + mpf_obj('F') + '''  mp_bitcnt_t bits = nondet_ulong ();
  gk = nondet_long (); gj = nondet_long (); gh = nondet_long ();
  __CPROVER_assume (V_GHOSTS_OK && V_WFF (&F) && bits <= 64 * (mp_bitcnt_t) (V_ZMAX - 4));
  long s = F._mp_size, n = V_ABS (s), np = V_NEWPREC (bits) + 1, rn = n < np ? n : np;
  mp_limb_t Fk = gk < rn ? F._mp_d[gk + (n - rn)] : 0;
  __gmpf_set_prec (&F, bits);
  __CPROVER_assert ((long) F._mp_size == (s >= 0 ? rn : -rn), "[C13] size = min(|size|, new prec + 1), sign kept");
  __CPROVER_assert (gk < rn ==> F._mp_d[gk] == Fk, "[C13] the most significant limbs are retained exactly (value unchanged when it fits the new precision)");
  free (F._mp_d);
}''', cbmc_flags=['--memory-leak-check'], timeout=900,
    selftest=[('__gmpf_set_prec', r'old_prec\+1', 'old_prec'), ('__gmpf_set_prec', r'xp \+ size - new_prec_plus1', 'xp')]))
