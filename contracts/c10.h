/* /verif/contracts/c10.h -- infinite two's-complement view of an mpz (C10).
   g_lz: ghost INPUT, the index of the lowest non-zero limb of a non-zero operand (the harness constructs the operand so:
   limbs below g_lz are zero, limb g_lz is not).  Limb k of the infinite two's-complement string of u:
     u >= 0 :  U[k]            (0 at and above the size)
     u <  0 :  0 below g_lz,  -U[g_lz] at g_lz,  ~U[k] above it  (all ones at and above the size)               */
#ifndef VERIF_C10_H
#define VERIF_C10_H
long g_lz;
#define V_ULIMB(u,k)  ((long) (k) < V_ABSIZ (u) ? V_PTR (u)[(long) (k) < V_ABSIZ (u) ? (long) (k) : 0] : (V_limb) 0)
#define V_TCLIMB(u,k) (V_SIZ (u) >= 0 ? V_ULIMB (u, k) \
                       : ((long) (k) < g_lz ? (V_limb) 0 : ((long) (k) == g_lz ? -V_ULIMB (u, k) : ((long) (k) < V_ABSIZ (u) ? ~V_ULIMB (u, k) : ~(V_limb) 0))))
#define V_TCBIT(u,b)  ((V_TCLIMB (u, (b) / 64) >> ((b) % 64)) & 1)
#define V_LZ_OK(u)    (V_SIZ (u) == 0 || (0 <= g_lz && g_lz < V_ABSIZ (u) && V_PTR (u)[g_lz] != 0))
#define V_BITMAX      (~(mp_bitcnt_t) 0)

int __gmpz_tstbit (mpz_srcptr u, mp_bitcnt_t bit_index)
__CPROVER_requires (V_WF (u) && V_LZ_OK (u))
__CPROVER_assigns ()
__CPROVER_ensures (__CPROVER_return_value == (int) V_TCBIT (u, bit_index));

/* scan: first bit >= start with the sought value, or the largest bitcnt when there is none (scan1 on u >= 0, scan0 on u < 0);
   every bit in [start, result) has the other value (at ghost bit gb) */
mp_bitcnt_t gb;
#define V_MPZSCAN(f, WANT) mp_bitcnt_t f (mpz_srcptr u, mp_bitcnt_t starting_bit) \
__CPROVER_requires (V_WF (u) && V_LZ_OK (u) && starting_bit <= 64 * (mp_bitcnt_t) V_ZMAX) \
__CPROVER_assigns () \
__CPROVER_ensures (__CPROVER_return_value != V_BITMAX ==> (__CPROVER_return_value >= starting_bit && V_TCBIT (u, __CPROVER_return_value) == WANT)) \
__CPROVER_ensures ((starting_bit <= gb && gb < __CPROVER_return_value) ==> V_TCBIT (u, gb) == 1 - WANT) \
/* "none" is reported only where the infinite sign extension has the other value */ \
__CPROVER_ensures (__CPROVER_return_value == V_BITMAX ==> ((V_SIZ (u) >= 0) == (WANT == 1)))
V_MPZSCAN (__gmpz_scan0, 0);
V_MPZSCAN (__gmpz_scan1, 1);
#endif
