/* /verif/contracts/mpz.h -- representation invariant of mpz_t, allocator discipline, mpz-level contracts */
#ifndef VERIF_MPZ_H
#define VERIF_MPZ_H

/* PTR(x) is the base of a live heap block of exactly ALLOC(x) limbs (what the allocator contract of C04 requires:
   it is this size that is later passed to reallocate/free) */
#define V_BLOCK(p,nl)  (__CPROVER_POINTER_OFFSET (p) == 0 && __CPROVER_DYNAMIC_OBJECT (p) \
                        && __CPROVER_OBJECT_SIZE (p) == (__CPROVER_size_t) (nl) * 8 && __CPROVER_w_ok ((p), (nl) * 8))
/* well-formed mpz (C04): allocation >= 1, |size| <= allocation, block of exactly ALLOC limbs, no leading zero limb */
#define V_WFA(x)  (__CPROVER_w_ok ((x), sizeof (*(x))) && 1 <= V_ALLOC (x) && V_ALLOC (x) <= V_ZMAX \
                   && V_BLOCK (V_PTR (x), (long) V_ALLOC (x)))
#define V_WF(x)   (V_WFA (x) && -(long) V_ALLOC (x) <= (long) V_SIZ (x) && (long) V_SIZ (x) <= (long) V_ALLOC (x) \
                   && (V_SIZ (x) != 0 ==> V_PTR (x)[V_ABSIZ (x) - 1] != 0))

/* the same, with the no-leading-zero clause delivered at the ghost position k (forall-intro over k) */
#define V_WF_AT(x,k) (V_WFA (x) && -(long) V_ALLOC (x) <= (long) V_SIZ (x) && (long) V_SIZ (x) <= (long) V_ALLOC (x) \
                   && ((V_SIZ (x) != 0 && (k) == V_ABSIZ (x) - 1) ==> V_PTR (x)[V_ABSIZ (x) - 1] != 0))

/* _mpz_realloc: exact old size handed to the allocator (proved in its own unit against the allocator stubs), new block of
   exactly max(new_alloc,1) limbs, limbs preserved below min(old,new) (at ghost gk), value cleared to 0 if it no longer fits */
void *__gmpz_realloc (mpz_ptr m, mp_size_t new_alloc)
/* SIZ may transiently exceed ALLOC at the call (mpq_inv stores the new size first): only its magnitude must be sane */
__CPROVER_requires (V_WFA (m) && -V_ZMAX <= (long) V_SIZ (m) && (long) V_SIZ (m) <= V_ZMAX)
__CPROVER_requires (new_alloc <= V_ZMAX && 0 <= gk && gk <= V_NMAX && 0 <= gj && gj <= V_NMAX && 0 <= gh && gh <= V_NMAX)
__CPROVER_assigns (*m)
__CPROVER_frees (V_PTR (m))
__CPROVER_ensures (V_ALLOC (m) == (new_alloc >= 1 ? new_alloc : 1))
__CPROVER_ensures (__CPROVER_is_fresh (V_PTR (m), (new_alloc >= 1 ? new_alloc : 1) * 8))
__CPROVER_ensures (__CPROVER_return_value == V_PTR (m))
__CPROVER_ensures ((V_ABS ((long) __CPROVER_old (V_SIZ (m))) <= (new_alloc >= 1 ? new_alloc : 1)) ? V_SIZ (m) == __CPROVER_old (V_SIZ (m)) : V_SIZ (m) == 0)
__CPROVER_ensures ((gk < __CPROVER_old (V_ALLOC (m)) && gk < (new_alloc >= 1 ? new_alloc : 1)) ==> V_PTR (m)[gk] == V_OLDSEL (gk < V_ALLOC (m), V_PTR (m) + gk))
__CPROVER_ensures ((gj < __CPROVER_old (V_ALLOC (m)) && gj < (new_alloc >= 1 ? new_alloc : 1)) ==> V_PTR (m)[gj] == V_OLDSEL (gj < V_ALLOC (m), V_PTR (m) + gj))
__CPROVER_ensures ((gh < __CPROVER_old (V_ALLOC (m)) && gh < (new_alloc >= 1 ? new_alloc : 1)) ==> V_PTR (m)[gh] == V_OLDSEL (gh < V_ALLOC (m), V_PTR (m) + gh))
;

/* ---- C03 mpz layer: frame + well-formedness are the contract; the limb-exact value relation is asserted by the unit's
   harness against pre-state snapshots (see units/c03_mpz.py), because it needs old values at ghost positions under aliasing */
#define V_MPZ3(f) void f (mpz_ptr w, mpz_srcptr u, mpz_srcptr v) \
__CPROVER_requires (V_WF (w) && V_WF (u) && V_WF (v) && V_ABSIZ (u) < V_ZMAX && V_ABSIZ (v) < V_ZMAX && 0 <= gk && gk <= V_NMAX && 0 <= gj && gj <= V_NMAX && 0 <= gh && gh <= V_NMAX) \
__CPROVER_assigns (*w, __CPROVER_object_whole (V_PTR (w)), g_ci, g_co, g_hd) \
__CPROVER_frees (V_PTR (w)) \
__CPROVER_ensures (V_WF_AT (w, gk))
V_MPZ3 (__gmpz_add);
V_MPZ3 (__gmpz_sub);

#define V_MPZ2(f) void f (mpz_ptr w, mpz_srcptr u) \
__CPROVER_requires (V_WF (w) && V_WF (u) && 0 <= gk && gk <= V_NMAX && 0 <= gj && gj <= V_NMAX && 0 <= gh && gh <= V_NMAX) \
__CPROVER_assigns (*w, __CPROVER_object_whole (V_PTR (w))) \
__CPROVER_frees (V_PTR (w)) \
__CPROVER_ensures (V_WF_AT (w, gk))
V_MPZ2 (__gmpz_neg);
V_MPZ2 (__gmpz_abs);
V_MPZ2 (__gmpz_set);

/* swap: the three fields are exchanged, nothing is allocated, copied or freed */
void __gmpz_swap (mpz_ptr u, mpz_ptr v)
__CPROVER_requires (V_WF (u) && V_WF (v))
__CPROVER_assigns (*u, *v)
__CPROVER_ensures (V_SIZ (u) == __CPROVER_old (V_SIZ (v)) && V_SIZ (v) == __CPROVER_old (V_SIZ (u)))
__CPROVER_ensures (V_ALLOC (u) == __CPROVER_old (V_ALLOC (v)) && V_ALLOC (v) == __CPROVER_old (V_ALLOC (u)))
__CPROVER_ensures (V_PTR (u) == __CPROVER_old (V_PTR (v)) && V_PTR (v) == __CPROVER_old (V_PTR (u)))
__CPROVER_ensures (V_WF (u) && V_WF (v))
;

void __gmpz_mul_2exp (mpz_ptr w, mpz_srcptr u, mp_bitcnt_t cnt)
__CPROVER_requires (V_WF (w) && V_WF (u) && 0 <= gk && gk <= V_NMAX && 0 <= gj && gj <= V_NMAX && 0 <= gh && gh <= V_NMAX)
__CPROVER_requires (V_ABSIZ (u) + (long) (cnt / 64) + 1 <= V_ZMAX)
__CPROVER_assigns (*w, __CPROVER_object_whole (V_PTR (w)), gk)
__CPROVER_frees (V_PTR (w))
__CPROVER_ensures (V_WF_AT (w, gk) && gk == __CPROVER_old (gk))
;
#endif
