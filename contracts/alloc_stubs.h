/* /verif/contracts/alloc_stubs.h -- allocator model installed through MPIR's public function pointers
   (DESIGN 3.6).  Included by harnesses (after the woven TU).  The stubs ARE the C04 allocator contract:
   every block handed back must be a block base, and the size passed must be its exact current size. */
#ifndef VERIF_ALLOC_STUBS_H
#define VERIF_ALLOC_STUBS_H
void *malloc (__CPROVER_size_t);
void free (void *);

static void *V_allocate (size_t n)
{
  __CPROVER_assert (n > 0 && n <= (size_t) V_NMAX * 8 + 64, "[C04] allocate: size positive and within the operand bound");
  void *p = malloc (n);
  __CPROVER_assume (p != (void *) 0);      /* the real default allocator aborts on failure; user allocators must not return NULL */
  return p;
}
static void *V_reallocate (void *p, size_t old, size_t n)
{
  __CPROVER_assert (__CPROVER_POINTER_OFFSET (p) == 0 && __CPROVER_DYNAMIC_OBJECT (p), "[C04] reallocate: pointer is the base of a block obtained from the allocator");
  __CPROVER_assert (__CPROVER_OBJECT_SIZE (p) == old, "[C04] reallocate: old_size is the exact current size of the block");
  __CPROVER_assert (n > 0 && n <= (size_t) V_NMAX * 8 + 64, "[C04] reallocate: new size positive and within the operand bound");
  unsigned char *q = malloc (n);
  __CPROVER_assume (q != (void *) 0);
  /* contents preserved up to min(old,new): modelled at the ghost limb position gk (forall-intro) */
  if (gk >= 0 && (size_t) gk * 8 + 8 <= old && (size_t) gk * 8 + 8 <= n)
    ((V_limb *) q)[gk] = ((V_limb *) p)[gk];
  if (gj >= 0 && (size_t) gj * 8 + 8 <= old && (size_t) gj * 8 + 8 <= n)
    ((V_limb *) q)[gj] = ((V_limb *) p)[gj];
  if (gh >= 0 && (size_t) gh * 8 + 8 <= old && (size_t) gh * 8 + 8 <= n)
    ((V_limb *) q)[gh] = ((V_limb *) p)[gh];
  free (p);
  return q;
}
static void V_free (void *p, size_t n)
{
  __CPROVER_assert (__CPROVER_POINTER_OFFSET (p) == 0 && __CPROVER_DYNAMIC_OBJECT (p), "[C04] free: pointer is the base of a block obtained from the allocator");
  __CPROVER_assert (__CPROVER_OBJECT_SIZE (p) == n, "[C04] free: size is the exact current size of the block");
  free (p);
}
#define V_INSTALL_ALLOCATOR() do { __gmp_allocate_func = V_allocate; __gmp_reallocate_func = V_reallocate; __gmp_free_func = V_free; } while (0)
#endif
