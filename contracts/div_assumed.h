/* /verif/contracts/div_assumed.h -- ASSUMED shape contract of mpn_tdiv_qr for the glue proof of mpz_tdiv_qr / tdiv_q / tdiv_r.
   Not proved by any unit (multi-limb quotient selection and the word-division primitives are undecided, DESIGN 8).
   Preconditions are what the mpz layer must establish: nn >= dn >= 1, divisor top limb non-zero, quotient and remainder areas do not
   overlap the operands.  Post: nn-dn+1 quotient limbs and dn remainder limbs written; for a dividend with non-zero top limb the quotient
   has nn-dn+1 or nn-dn limbs.  Ghost capture (g_dn*, g_dd*): the operand limbs the divider actually saw at positions gk (dividend)
   and gj (divisor). */
#ifndef VERIF_DIV_ASSUMED_H
#define VERIF_DIV_ASSUMED_H
extern const void *__CPROVER_alloca_object;
int g_div_calls; V_limb g_dnum, g_dden; long g_dnn, g_ddn;
void __gmpn_tdiv_qr (mp_ptr qp, mp_ptr rp, mp_size_t qxn, mp_srcptr np, mp_size_t nn, mp_srcptr dp, mp_size_t dn)
__CPROVER_requires (qxn == 0 && 1 <= dn && dn <= nn && nn <= V_ZMAX && V_W_OK (qp, nn - dn + 1) && V_W_OK (rp, dn) && V_R_OK (np, nn) && V_R_OK (dp, dn))
__CPROVER_requires (dp[dn - 1] != 0 && 0 <= gk && 0 <= gj)
__CPROVER_requires (V_SEPARATE (qp, nn - dn + 1, np, nn) && V_SEPARATE (qp, nn - dn + 1, dp, dn) && V_SEPARATE (rp, dn, dp, dn) && V_SEPARATE (qp, nn - dn + 1, rp, dn))
__CPROVER_requires (rp == np || V_SEPARATE (rp, dn, np, nn))            /* the remainder may be computed in place over the low dividend limbs */
__CPROVER_assigns (__CPROVER_object_upto (qp, (nn - dn + 1) * 8), __CPROVER_object_upto (rp, dn * 8), g_div_calls, g_dnum, g_dden, g_dnn, g_ddn)
__CPROVER_ensures (g_div_calls == __CPROVER_old (g_div_calls) + 1 && g_dnn == nn && g_ddn == dn)
__CPROVER_ensures (g_dnum == V_OLDSEL (gk < nn, np + gk) && g_dden == V_OLDSEL (gj < dn, dp + gj))
__CPROVER_ensures ((V_OLDSEL (nn >= 1, np + (nn - 1)) != 0 && qp[nn - dn] == 0 && nn > dn) ==> qp[nn - dn - 1] != 0);
/* mpn_tdiv_q (quotient only; ASSUMED shape contract, from the operand requirements stated above its definition: nn >= dn >= 1, dp[dn-1] != 0,
   no overlap between the N, D and Q areas; N and D untouched; nn-dn+1 quotient limbs written) */
void __gmpn_tdiv_q (mp_ptr qp, mp_srcptr np, mp_size_t nn, mp_srcptr dp, mp_size_t dn)
__CPROVER_requires (1 <= dn && dn <= nn && nn <= V_ZMAX && V_W_OK (qp, nn - dn + 1) && V_R_OK (np, nn) && V_R_OK (dp, dn))
__CPROVER_requires (dp[dn - 1] != 0 && 0 <= gk && 0 <= gj)
__CPROVER_requires (V_SEPARATE (qp, nn - dn + 1, np, nn) && V_SEPARATE (qp, nn - dn + 1, dp, dn))
__CPROVER_assigns (__CPROVER_object_upto (qp, (nn - dn + 1) * 8), g_div_calls, g_dnum, g_dden, g_dnn, g_ddn)
__CPROVER_ensures (g_div_calls == __CPROVER_old (g_div_calls) + 1 && g_dnn == nn && g_ddn == dn)
__CPROVER_ensures (g_dnum == V_OLDSEL (gk < nn, np + gk) && g_dden == V_OLDSEL (gj < dn, dp + gj))
__CPROVER_ensures ((V_OLDSEL (nn >= 1, np + (nn - 1)) != 0 && qp[nn - dn] == 0 && nn > dn) ==> qp[nn - dn - 1] != 0);
#endif
