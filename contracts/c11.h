/* /verif/contracts/c11.h -- comparisons and C-type conversions of mpz (C11), loop-free ones full-domain.
   Oracle: the exact value.  For |SIZ| <= 1 the value is +-PTR[0] (65-bit signed, held in __int128);
   for |SIZ| >= 2 well-formedness (top limb != 0) gives |value| >= 2^64, beyond every C integer. */
#ifndef VERIF_C11_H
#define VERIF_C11_H
typedef __int128 V_i128;
#define V_SMALL(u)  (V_SIZ (u) >= -1 && V_SIZ (u) <= 1)
#define V_MAG0(u)   (V_SIZ (u) != 0 ? V_PTR (u)[0] : (V_limb) 0)
#define V_VAL1(u)   (V_SIZ (u) < 0 ? -(V_i128) V_MAG0 (u) : (V_i128) V_MAG0 (u))          /* exact value when V_SMALL */
#define V_SGN3(x)   ((x) > 0 ? 1 : ((x) < 0 ? -1 : 0))
/* sign of (value(u) - c) for a C integer c given as __int128 */
#define V_CMPC(u,c) (V_SMALL (u) ? V_SGN3 (V_VAL1 (u) - (V_i128) (c)) : (V_SIZ (u) > 0 ? 1 : -1))
#define V_RO(u)     (V_WF (u))

int __gmpz_cmp_ui (mpz_srcptr u, mpir_ui v)
__CPROVER_requires (V_RO (u)) __CPROVER_assigns ()
__CPROVER_ensures (V_SGN3 (__CPROVER_return_value) == V_CMPC (u, v));
int __gmpz_cmp_si (mpz_srcptr u, mpir_si v)
__CPROVER_requires (V_RO (u)) __CPROVER_assigns ()
__CPROVER_ensures (V_SGN3 (__CPROVER_return_value) == V_CMPC (u, v));
int __gmpz_cmpabs_ui (mpz_srcptr u, mpir_ui v)
__CPROVER_requires (V_RO (u)) __CPROVER_assigns ()
__CPROVER_ensures (V_SGN3 (__CPROVER_return_value) == (V_SMALL (u) ? V_SGN3 ((V_i128) V_MAG0 (u) - (V_i128) v) : 1));

/* fits: true exactly on the representable range */
#define V_FITS(f, lo, hi) int f (mpz_srcptr z) \
__CPROVER_requires (V_RO (z)) __CPROVER_assigns () \
__CPROVER_ensures ((__CPROVER_return_value != 0) == (V_SMALL (z) && (V_i128) (lo) <= V_VAL1 (z) && V_VAL1 (z) <= (V_i128) (hi)))
V_FITS (__gmpz_fits_ulong_p, 0, ~0UL);
V_FITS (__gmpz_fits_uint_p, 0, ~0U);
V_FITS (__gmpz_fits_ushort_p, 0, (unsigned short) ~0);
V_FITS (__gmpz_fits_ui_p, 0, ~0UL);
V_FITS (__gmpz_fits_slong_p, -0x7fffffffffffffffL - 1, 0x7fffffffffffffffL);
V_FITS (__gmpz_fits_sint_p, -0x7fffffff - 1, 0x7fffffff);
V_FITS (__gmpz_fits_sshort_p, -0x8000, 0x7fff);
V_FITS (__gmpz_fits_si_p, -0x7fffffffffffffffL - 1, 0x7fffffffffffffffL);

/* get: exact when representable; get_ui/get_ux return the low limb of |z| in every case (manual) */
mpir_ui __gmpz_get_ui (mpz_srcptr z)
__CPROVER_requires (V_RO (z)) __CPROVER_assigns ()
__CPROVER_ensures (__CPROVER_return_value == V_MAG0 (z));
mpir_si __gmpz_get_si (mpz_srcptr z)
__CPROVER_requires (V_RO (z)) __CPROVER_assigns ()
__CPROVER_ensures ((V_SMALL (z) && (V_i128) (-0x7fffffffffffffffL - 1) <= V_VAL1 (z) && V_VAL1 (z) <= (V_i128) 0x7fffffffffffffffL) ==> (V_i128) __CPROVER_return_value == V_VAL1 (z))
/* not representable: least significant 63 bits of |z| with the sign of z (manual: "least significant part ... same sign") */
__CPROVER_ensures (V_SIZ (z) > 0 ==> __CPROVER_return_value == (mpir_si) (V_PTR (z)[0] & 0x7fffffffffffffffUL))
__CPROVER_ensures (V_SIZ (z) == 0 ==> __CPROVER_return_value == 0);
unsigned long __gmpz_get_ux (mpz_srcptr z)
__CPROVER_requires (V_RO (z)) __CPROVER_assigns ()
__CPROVER_ensures (__CPROVER_return_value == V_MAG0 (z));
long __gmpz_get_sx (mpz_srcptr z)
__CPROVER_requires (V_RO (z)) __CPROVER_assigns ()
__CPROVER_ensures ((V_SMALL (z) && (V_i128) (-0x7fffffffffffffffL - 1) <= V_VAL1 (z) && V_VAL1 (z) <= (V_i128) 0x7fffffffffffffffL) ==> (V_i128) __CPROVER_return_value == V_VAL1 (z));

/* set: exact, destination stays well formed, its block is not replaced (one limb always fits) */
#define V_SET(f, T) void f (mpz_ptr d, T val) \
__CPROVER_requires (V_WF (d)) __CPROVER_assigns (d->_mp_size, __CPROVER_object_upto (V_PTR (d), 8)) \
__CPROVER_ensures (V_WF (d) && V_SMALL (d) && V_VAL1 (d) == (V_i128) val && V_PTR (d) == __CPROVER_old (V_PTR (d)) && V_ALLOC (d) == __CPROVER_old (V_ALLOC (d)))
V_SET (__gmpz_set_ui, mpir_ui);
V_SET (__gmpz_set_si, mpir_si);
V_SET (__gmpz_set_ux, unsigned long);
V_SET (__gmpz_set_sx, long);

/* mpz_cmp / mpz_cmpabs: sign of the exact difference.  Sizes differ: decided by the sizes; equal sizes: by the highest
   differing limb g_hd (ghost output), all limbs above it being equal (delivered at gj) */
int __gmpz_cmp (mpz_srcptr u, mpz_srcptr v)
__CPROVER_requires (V_RO (u) && V_RO (v)) __CPROVER_assigns (g_hd)
__CPROVER_ensures (V_SIZ (u) != V_SIZ (v) ==> V_SGN3 (__CPROVER_return_value) == V_SGN3 ((long) V_SIZ (u) - (long) V_SIZ (v)))
__CPROVER_ensures (V_SIZ (u) == V_SIZ (v) ==> (-1 <= g_hd && g_hd < V_ABSIZ (u) && ((g_hd == -1) == (__CPROVER_return_value == 0))))
__CPROVER_ensures ((V_SIZ (u) == V_SIZ (v) && g_hd >= 0) ==> (V_PTR (u)[g_hd] != V_PTR (v)[g_hd]
                   && V_SGN3 (__CPROVER_return_value) == ((V_PTR (u)[g_hd] > V_PTR (v)[g_hd]) == (V_SIZ (u) > 0) ? 1 : -1)))
__CPROVER_ensures ((V_SIZ (u) == V_SIZ (v) && g_hd < gj && gj < V_ABSIZ (u)) ==> V_PTR (u)[gj] == V_PTR (v)[gj]);
int __gmpz_cmpabs (mpz_srcptr u, mpz_srcptr v)
__CPROVER_requires (V_RO (u) && V_RO (v)) __CPROVER_assigns (g_hd)
__CPROVER_ensures (V_ABSIZ (u) != V_ABSIZ (v) ==> V_SGN3 (__CPROVER_return_value) == V_SGN3 (V_ABSIZ (u) - V_ABSIZ (v)))
__CPROVER_ensures (V_ABSIZ (u) == V_ABSIZ (v) ==> (-1 <= g_hd && g_hd < V_ABSIZ (u) && ((g_hd == -1) == (__CPROVER_return_value == 0))))
__CPROVER_ensures ((V_ABSIZ (u) == V_ABSIZ (v) && g_hd >= 0) ==> (V_PTR (u)[g_hd] != V_PTR (v)[g_hd]
                   && V_SGN3 (__CPROVER_return_value) == (V_PTR (u)[g_hd] > V_PTR (v)[g_hd] ? 1 : -1)))
__CPROVER_ensures ((V_ABSIZ (u) == V_ABSIZ (v) && g_hd < gj && gj < V_ABSIZ (u)) ==> V_PTR (u)[gj] == V_PTR (v)[gj]);
#endif
