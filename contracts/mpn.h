/* /verif/contracts/mpn.h -- contracts of the mpn kernels (C03, C10, C01 ...).
   The same text is used when a function is ENFORCED (its own unit) and when it is
   REPLACED at a call site in a caller's unit, so a caller is always checked against
   exactly the contract that was proved.  Ghost conventions: DESIGN.md 3.3. */
#ifndef VERIF_MPN_H
#define VERIF_MPN_H

/* r + co*B == u + v + ci */
#define V_ADDREL(r,u,v,ci,co) ((V_u128)(r) + ((V_u128)(co) << 64) == (V_u128)(u) + (V_u128)(v) + (V_u128)(ci))
/* r - bo*B == u - v - bi   written without negative numbers:  r + v + bi == u + bo*B */
#define V_SUBREL(r,u,v,bi,bo) ((V_u128)(r) + (V_u128)(v) + (V_u128)(bi) == (V_u128)(u) + ((V_u128)(bo) << 64))

mp_limb_t __gmpn_add_n (mp_ptr rp, mp_srcptr up, mp_srcptr vp, mp_size_t n)
__CPROVER_requires (1 <= n && n <= V_NMAX && 0 <= gk && gk <= V_NMAX)     /* gk >= n: the call promises nothing about positions */
__CPROVER_requires (V_W_OK (rp, n) && V_R_OK (up, n) && V_R_OK (vp, n))
__CPROVER_requires (V_SAME_OR_SEPARATE (rp, up, n) && V_SAME_OR_SEPARATE (rp, vp, n))
__CPROVER_assigns (__CPROVER_object_upto (rp, n * 8), g_ci, g_co)
__CPROVER_ensures (gk < n ==> (g_ci <= 1 && g_co <= 1))
__CPROVER_ensures (gk < n ==> V_ADDREL (rp[gk], V_OLDSEL (gk < n, up + gk), V_OLDSEL (gk < n, vp + gk), g_ci, g_co))
__CPROVER_ensures (gk == 0 ==> g_ci == 0)
__CPROVER_ensures (gk == n - 1 ==> g_co == __CPROVER_return_value)
__CPROVER_ensures (__CPROVER_return_value <= 1)
;


mp_limb_t __gmpn_sub_n (mp_ptr rp, mp_srcptr up, mp_srcptr vp, mp_size_t n)
__CPROVER_requires (1 <= n && n <= V_NMAX && 0 <= gk && gk <= V_NMAX)     /* gk >= n: the call promises nothing about positions */
__CPROVER_requires (V_W_OK (rp, n) && V_R_OK (up, n) && V_R_OK (vp, n))
__CPROVER_requires (V_SAME_OR_SEPARATE (rp, up, n) && V_SAME_OR_SEPARATE (rp, vp, n))
__CPROVER_assigns (__CPROVER_object_upto (rp, n * 8), g_ci, g_co)
__CPROVER_ensures (gk < n ==> (g_ci <= 1 && g_co <= 1))
__CPROVER_ensures (gk < n ==> V_SUBREL (rp[gk], V_OLDSEL (gk < n, up + gk), V_OLDSEL (gk < n, vp + gk), g_ci, g_co))
__CPROVER_ensures (gk == 0 ==> g_ci == 0)
__CPROVER_ensures (gk == n - 1 ==> g_co == __CPROVER_return_value)
__CPROVER_ensures (__CPROVER_return_value <= 1)
;

/* copies: rp[gk] == old sp[gk]; copyi allows rp <= sp overlap, copyd rp >= sp; n == 0 allowed */
void __gmpn_copyi (mp_ptr rp, mp_srcptr sp, mp_size_t n)
__CPROVER_requires (1 <= n && n <= V_NMAX && 0 <= gk && gk < n)
__CPROVER_requires (V_W_OK (rp, n) && V_R_OK (sp, n) && V_SAME_OR_INCR (rp, sp, n))
__CPROVER_assigns (__CPROVER_object_upto (rp, n * 8))
__CPROVER_ensures (rp[gk] == __CPROVER_old (sp[gk]))
;
void __gmpn_copyd (mp_ptr rp, mp_srcptr sp, mp_size_t n)
__CPROVER_requires (1 <= n && n <= V_NMAX && 0 <= gk && gk < n)
__CPROVER_requires (V_W_OK (rp, n) && V_R_OK (sp, n) && V_SAME_OR_DECR (rp, sp, n))
__CPROVER_assigns (__CPROVER_object_upto (rp, n * 8))
__CPROVER_ensures (rp[gk] == __CPROVER_old (sp[gk]))
;
void __gmpn_zero (mp_ptr rp, mp_size_t n)
__CPROVER_requires (1 <= n && n <= V_NMAX && V_W_OK (rp, n) && 0 <= gk && gk < n)
__CPROVER_assigns (__CPROVER_object_upto (rp, n * 8))
__CPROVER_ensures (rp[gk] == 0)
;
long gkc;   /* ghost position for com_n, relative to its own base */
void __gmpn_com_n (mp_ptr rp, mp_srcptr up, mp_size_t n)
__CPROVER_requires (1 <= n && n <= V_NMAX && V_W_OK (rp, n) && V_R_OK (up, n) && V_SAME_OR_SEPARATE (rp, up, n) && 0 <= gkc && gkc < n)
__CPROVER_assigns (__CPROVER_object_upto (rp, n * 8))
__CPROVER_ensures (rp[gkc] == ~__CPROVER_old (up[gkc]))
;

/* shifts, 1 <= cnt <= 63.  lshift: overlap allowed when rp >= up; rshift: when rp <= up. */
mp_limb_t __gmpn_lshift (mp_ptr rp, mp_srcptr up, mp_size_t n, unsigned int cnt)
__CPROVER_requires (1 <= n && n <= V_NMAX && 1 <= cnt && cnt <= 63 && 0 <= gk && gk < n)
__CPROVER_requires (V_W_OK (rp, n) && V_R_OK (up, n) && V_SAME_OR_DECR (rp, up, n))
__CPROVER_assigns (__CPROVER_object_upto (rp, n * 8))
__CPROVER_ensures (rp[gk] == ((__CPROVER_old (up[gk]) << cnt) | (gk > 0 ? __CPROVER_old (up[gk - (gk > 0)]) >> (64 - cnt) : 0)))
__CPROVER_ensures (__CPROVER_return_value == __CPROVER_old (up[n - 1]) >> (64 - cnt))
;
mp_limb_t __gmpn_rshift (mp_ptr rp, mp_srcptr up, mp_size_t n, unsigned int cnt)
__CPROVER_requires (1 <= n && n <= V_NMAX && 1 <= cnt && cnt <= 63 && 0 <= gk && gk < n)
__CPROVER_requires (V_W_OK (rp, n) && V_R_OK (up, n) && V_SAME_OR_INCR (rp, up, n))
__CPROVER_assigns (__CPROVER_object_upto (rp, n * 8))
__CPROVER_ensures (rp[gk] == ((__CPROVER_old (up[gk]) >> cnt) | (gk < n - 1 ? __CPROVER_old (up[gk + (gk < n - 1)]) << (64 - cnt) : 0)))
__CPROVER_ensures (__CPROVER_return_value == __CPROVER_old (up[0]) << (64 - cnt))
__CPROVER_ensures (rp[n - 1] == __CPROVER_old (up[n - 1]) >> cnt)            /* fixed second position: the top limb */
;

/* ---- comparison.  Ghost output g_hd: highest index where the operands differ (-1: none).
   Caller-chosen gj: "every position above g_hd is equal" is delivered at gj (forall-intro). */
int __gmpn_cmp (mp_srcptr xp, mp_srcptr yp, mp_size_t n)
__CPROVER_requires (0 <= n && n <= V_NMAX && V_R_OK (xp, n) && V_R_OK (yp, n))
__CPROVER_assigns (g_hd)
__CPROVER_ensures (__CPROVER_return_value == 0 || __CPROVER_return_value == 1 || __CPROVER_return_value == -1)
__CPROVER_ensures (-1 <= g_hd && g_hd < n && ((g_hd == -1) == (__CPROVER_return_value == 0)))
__CPROVER_ensures (g_hd >= 0 ==> (xp[g_hd] != yp[g_hd] && ((xp[g_hd] > yp[g_hd]) == (__CPROVER_return_value > 0))))
__CPROVER_ensures ((g_hd < gj && gj < n) ==> xp[gj] == yp[gj])
;
/* zero_p: 1 iff every limb is zero.  g_hd: an index holding a non-zero limb when the answer is 0 */
int __gmpn_zero_p (mp_srcptr p, mp_size_t n)
__CPROVER_requires (1 <= n && n <= V_NMAX && V_R_OK (p, n))
__CPROVER_assigns (g_hd)
__CPROVER_ensures (__CPROVER_return_value == 0 || __CPROVER_return_value == 1)
__CPROVER_ensures (__CPROVER_return_value == 0 ==> (0 <= g_hd && g_hd < n && p[g_hd] != 0))
__CPROVER_ensures ((__CPROVER_return_value == 1 && 0 <= gj && gj < n) ==> p[gj] == 0)
;

/* ---- add_1 / sub_1: chain with v at position 0 and 0 above */
mp_limb_t __gmpn_add_1 (mp_ptr rp, mp_srcptr up, mp_size_t n, mp_limb_t v)
__CPROVER_requires (1 <= n && n <= V_NMAX && 0 <= gk && gk <= V_NMAX && 0 <= gj && gj <= V_NMAX)   /* a position >= n: nothing is promised about it */
__CPROVER_requires (V_W_OK (rp, n) && V_R_OK (up, n) && V_SAME_OR_SEPARATE (rp, up, n))
__CPROVER_assigns (__CPROVER_object_upto (rp, n * 8), g_ci, g_co, g2_ci, g2_co)
__CPROVER_ensures (gk < n ==> (g_ci <= 1 && g_co <= 1))
__CPROVER_ensures (gk < n ==> V_ADDREL (rp[gk], V_OLDSEL (gk < n, up + gk), (gk == 0 ? v : 0), g_ci, g_co))
__CPROVER_ensures (gk == 0 ==> g_ci == 0)
__CPROVER_ensures (gk == n - 1 ==> g_co == __CPROVER_return_value)
__CPROVER_ensures (__CPROVER_return_value <= 1)
/* second position gj (when inside the operand), and the link between adjacent positions */
__CPROVER_ensures (gj < n ==> (g2_ci <= 1 && g2_co <= 1 && V_ADDREL (rp[gj], V_OLDSEL (gj < n, up + gj), (gj == 0 ? v : 0), g2_ci, g2_co)))
__CPROVER_ensures ((gj < n && gj == 0) ==> g2_ci == 0)
__CPROVER_ensures (gj == n - 1 ==> g2_co == __CPROVER_return_value)
__CPROVER_ensures ((gj < n && gj == gk + 1) ==> g2_ci == g_co)
;
mp_limb_t __gmpn_sub_1 (mp_ptr rp, mp_srcptr up, mp_size_t n, mp_limb_t v)
__CPROVER_requires (1 <= n && n <= V_NMAX && 0 <= gk && gk <= V_NMAX && 0 <= gj && gj <= V_NMAX)   /* a position >= n: nothing is promised about it */
__CPROVER_requires (V_W_OK (rp, n) && V_R_OK (up, n) && V_SAME_OR_SEPARATE (rp, up, n))
__CPROVER_assigns (__CPROVER_object_upto (rp, n * 8), g_ci, g_co, g2_ci, g2_co)
__CPROVER_ensures (gk < n ==> (g_ci <= 1 && g_co <= 1))
__CPROVER_ensures (gk < n ==> V_SUBREL (rp[gk], V_OLDSEL (gk < n, up + gk), (gk == 0 ? v : 0), g_ci, g_co))
__CPROVER_ensures (gk == 0 ==> g_ci == 0)
__CPROVER_ensures (gk == n - 1 ==> g_co == __CPROVER_return_value)
__CPROVER_ensures (__CPROVER_return_value <= 1)
/* second position gj (when inside the operand), and the link between adjacent positions */
__CPROVER_ensures (gj < n ==> (g2_ci <= 1 && g2_co <= 1 && V_SUBREL (rp[gj], V_OLDSEL (gj < n, up + gj), (gj == 0 ? v : 0), g2_ci, g2_co)))
__CPROVER_ensures ((gj < n && gj == 0) ==> g2_ci == 0)
__CPROVER_ensures (gj == n - 1 ==> g2_co == __CPROVER_return_value)
__CPROVER_ensures ((gj < n && gj == gk + 1) ==> g2_ci == g_co)
;

/* ---- mpn_add / mpn_sub: {xp,xn} op {yp,yn}, xn >= yn >= 0, y zero-extended */
mp_limb_t __gmpn_add (mp_ptr wp, mp_srcptr xp, mp_size_t xn, mp_srcptr yp, mp_size_t yn)
__CPROVER_requires (0 <= yn && yn <= xn && xn <= V_NMAX && 0 <= gk && gk <= V_NMAX)
__CPROVER_requires (V_W_OK (wp, xn) && V_R_OK (xp, xn) && V_R_OK (yp, yn))
__CPROVER_requires (xn == 0 || (V_SAME_OR_SEPARATE (wp, xp, xn) && (yn == 0 || wp == yp || V_SEPARATE (wp, xn, yp, yn))))
__CPROVER_assigns (xn > 0: __CPROVER_object_upto (wp, xn * 8); g_ci, g_co)
__CPROVER_ensures (gk < xn ==> (g_ci <= 1 && g_co <= 1))
__CPROVER_ensures (gk < xn ==> V_ADDREL (wp[gk], V_OLDSEL (gk < xn, xp + gk), V_OLDSEL (gk < yn, yp + gk), g_ci, g_co))
__CPROVER_ensures ((gk == 0 && gk < xn) ==> g_ci == 0)
__CPROVER_ensures (gk == xn - 1 ==> g_co == __CPROVER_return_value)
__CPROVER_ensures (xn == 0 ==> __CPROVER_return_value == 0)
__CPROVER_ensures (__CPROVER_return_value <= 1)
;
mp_limb_t __gmpn_sub (mp_ptr wp, mp_srcptr xp, mp_size_t xn, mp_srcptr yp, mp_size_t yn)
__CPROVER_requires (0 <= yn && yn <= xn && xn <= V_NMAX && 0 <= gk && gk <= V_NMAX)
__CPROVER_requires (V_W_OK (wp, xn) && V_R_OK (xp, xn) && V_R_OK (yp, yn))
__CPROVER_requires (xn == 0 || (V_SAME_OR_SEPARATE (wp, xp, xn) && (yn == 0 || wp == yp || V_SEPARATE (wp, xn, yp, yn))))
__CPROVER_assigns (xn > 0: __CPROVER_object_upto (wp, xn * 8); g_ci, g_co)
__CPROVER_ensures (gk < xn ==> (g_ci <= 1 && g_co <= 1))
__CPROVER_ensures (gk < xn ==> V_SUBREL (wp[gk], V_OLDSEL (gk < xn, xp + gk), V_OLDSEL (gk < yn, yp + gk), g_ci, g_co))
__CPROVER_ensures ((gk == 0 && gk < xn) ==> g_ci == 0)
__CPROVER_ensures (gk == xn - 1 ==> g_co == __CPROVER_return_value)
__CPROVER_ensures (xn == 0 ==> __CPROVER_return_value == 0)
__CPROVER_ensures (__CPROVER_return_value <= 1)
;

/* ---- neg: rp = 0 - up as a borrow chain; returns the final borrow (1 iff up != 0) */
mp_limb_t __gmpn_neg_n (mp_ptr rp, mp_srcptr up, mp_size_t n)
__CPROVER_requires (1 <= n && n <= V_NMAX && 0 <= gk && gk < n)
__CPROVER_requires (V_W_OK (rp, n) && V_R_OK (up, n) && V_SAME_OR_SEPARATE (rp, up, n))
__CPROVER_assigns (__CPROVER_object_upto (rp, n * 8), g_ci, g_co, gkc)
__CPROVER_ensures (g_ci <= 1 && g_co <= 1)
__CPROVER_ensures (V_SUBREL (rp[gk], 0, __CPROVER_old (up[gk]), g_ci, g_co))
__CPROVER_ensures (gk == 0 ==> g_ci == 0)
__CPROVER_ensures (gk == n - 1 ==> g_co == __CPROVER_return_value)
__CPROVER_ensures (__CPROVER_return_value <= 1)
;

/* ---- C10: logic operations, pointwise at gk */
#define V_LOGIC(f, EXPR) void f (mp_ptr rp, mp_srcptr up, mp_srcptr vp, mp_size_t n) \
__CPROVER_requires (1 <= n && n <= V_NMAX && 0 <= gk && gk < n) \
__CPROVER_requires (V_W_OK (rp, n) && V_R_OK (up, n) && V_R_OK (vp, n) && V_SAME_OR_SEPARATE (rp, up, n) && V_SAME_OR_SEPARATE (rp, vp, n)) \
__CPROVER_assigns (__CPROVER_object_upto (rp, n * 8)) \
__CPROVER_ensures (rp[gk] == (EXPR))
#define V_A __CPROVER_old (up[gk])
#define V_Bb __CPROVER_old (vp[gk])
V_LOGIC (__gmpn_and_n,  V_A & V_Bb);
V_LOGIC (__gmpn_andn_n, V_A & ~V_Bb);
V_LOGIC (__gmpn_nand_n, ~(V_A & V_Bb));
V_LOGIC (__gmpn_ior_n,  V_A | V_Bb);
V_LOGIC (__gmpn_iorn_n, V_A | ~V_Bb);
V_LOGIC (__gmpn_nior_n, ~(V_A | V_Bb));
V_LOGIC (__gmpn_xor_n,  V_A ^ V_Bb);
V_LOGIC (__gmpn_xnor_n, ~(V_A ^ V_Bb));

/* ---- scan0 / scan1: index of the first 0 / 1 bit at or after starting_bit.  The manual's precondition ("U must sooner or
   later have a limb with a clear/set bit") is given as a ghost INPUT g_hd: a limb index >= the starting limb that has such a
   bit.  Post: the returned bit r is >= starting_bit, bit r has the sought value, and (at ghost bit position gb) every bit in
   [starting_bit, r) has the other value. */
mp_bitcnt_t gb;
#define V_BIT(p,b) (((p)[(b) / 64] >> ((b) % 64)) & 1)
#define V_SCAN(f, WANT) mp_bitcnt_t f (mp_srcptr up, mp_bitcnt_t starting_bit) \
__CPROVER_requires (0 <= g_hd && g_hd < V_NMAX && starting_bit / 64 <= (mp_bitcnt_t) g_hd && V_R_OK (up, g_hd + 1)) \
__CPROVER_requires ((WANT ? up[g_hd] : ~up[g_hd]) != 0 && (starting_bit / 64 < (mp_bitcnt_t) g_hd || ((WANT ? up[g_hd] : ~up[g_hd]) >> (starting_bit % 64)) != 0)) \
__CPROVER_assigns () \
__CPROVER_ensures (starting_bit <= __CPROVER_return_value && __CPROVER_return_value / 64 <= (mp_bitcnt_t) g_hd) \
__CPROVER_ensures (V_BIT (up, __CPROVER_return_value) == WANT) \
__CPROVER_ensures ((starting_bit <= gb && gb < __CPROVER_return_value) ==> V_BIT (up, gb) == 1 - WANT)
V_SCAN (__gmpn_scan0, 0);
V_SCAN (__gmpn_scan1, 1);

/* ---- C01 kernels: product chain relative to the machine multiply (uninterpreted mulq, /verif/shim/longlong_models.h).
   P(u,v) = MULHI(u,v):MULLO(u,v).  Carries are whole limbs here. */
unsigned long __CPROVER_uninterpreted_mulhi (unsigned long, unsigned long);
unsigned long __CPROVER_uninterpreted_mullo (unsigned long, unsigned long);
#define V_PROD(u,v) ((((V_u128) __CPROVER_uninterpreted_mulhi (u, v)) << 64) + (V_u128) __CPROVER_uninterpreted_mullo (u, v))
#define V_MULREL(r,u,v,ci,co)      ((V_u128)(r) + ((V_u128)(co) << 64) == V_PROD (u, v) + (V_u128)(ci))
#define V_ADDMULREL(r,r0,u,v,ci,co) ((V_u128)(r) + ((V_u128)(co) << 64) == (V_u128)(r0) + V_PROD (u, v) + (V_u128)(ci))
#define V_SUBMULREL(r,r0,u,v,ci,co) ((V_u128)(r) + V_PROD (u, v) + (V_u128)(ci) == (V_u128)(r0) + ((V_u128)(co) << 64))

mp_limb_t __gmpn_mul_1 (mp_ptr rp, mp_srcptr up, mp_size_t n, mp_limb_t vl)
__CPROVER_requires (1 <= n && n <= V_NMAX && 0 <= gk && gk <= V_NMAX)
__CPROVER_requires (V_W_OK (rp, n) && V_R_OK (up, n) && V_SAME_OR_INCR (rp, up, n))
__CPROVER_assigns (__CPROVER_object_upto (rp, n * 8), g_ci, g_co)
__CPROVER_ensures (gk < n ==> V_MULREL (rp[gk], V_OLDSEL (gk < n, up + gk), vl, g_ci, g_co))
__CPROVER_ensures (gk == 0 ==> g_ci == 0)
__CPROVER_ensures (gk == n - 1 ==> g_co == __CPROVER_return_value)

/* derived fact used by callers for well-formedness: a non-zero limb times a non-zero multiplier leaves a non-zero limb or carry */
__CPROVER_ensures ((gk < n && V_OLDSEL (gk < n, up + gk) != 0 && vl != 0) ==> (rp[gk] != 0 || g_co != 0))
;
mp_limb_t __gmpn_addmul_1 (mp_ptr rp, mp_srcptr up, mp_size_t n, mp_limb_t vl)
__CPROVER_requires (1 <= n && n <= V_NMAX && 0 <= gk && gk <= V_NMAX)
__CPROVER_requires (V_W_OK (rp, n) && V_R_OK (up, n) && V_SAME_OR_SEPARATE (rp, up, n))
__CPROVER_assigns (__CPROVER_object_upto (rp, n * 8), g_ci, g_co)
__CPROVER_ensures (gk < n ==> V_ADDMULREL (rp[gk], V_OLDSEL (gk < n, rp + gk), V_OLDSEL (gk < n, up + gk), vl, g_ci, g_co))
__CPROVER_ensures (gk == 0 ==> g_ci == 0)
__CPROVER_ensures (gk == n - 1 ==> g_co == __CPROVER_return_value)
;
mp_limb_t __gmpn_submul_1 (mp_ptr rp, mp_srcptr up, mp_size_t n, mp_limb_t vl)
__CPROVER_requires (1 <= n && n <= V_NMAX && 0 <= gk && gk <= V_NMAX)
__CPROVER_requires (V_W_OK (rp, n) && V_R_OK (up, n) && V_SAME_OR_SEPARATE (rp, up, n))
__CPROVER_assigns (__CPROVER_object_upto (rp, n * 8), g_ci, g_co)
__CPROVER_ensures (gk < n ==> V_SUBMULREL (rp[gk], V_OLDSEL (gk < n, rp + gk), V_OLDSEL (gk < n, up + gk), vl, g_ci, g_co))
__CPROVER_ensures (gk == 0 ==> g_ci == 0)
__CPROVER_ensures (gk == n - 1 ==> g_co == __CPROVER_return_value)
;

#endif
