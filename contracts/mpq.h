/* /verif/contracts/mpq.h -- mpq representation invariant and the copy/sign functions of C12 */
#ifndef VERIF_MPQ_H
#define VERIF_MPQ_H
#define V_NUM(q) (&((q)->_mp_num))
#define V_DEN(q) (&((q)->_mp_den))
/* well-formed rational: both parts well-formed integers in distinct blocks, denominator positive */
#define V_WFQ(q)      (V_WF (V_NUM (q)) && V_WF (V_DEN (q)) && V_SIZ (V_DEN (q)) > 0 && !__CPROVER_same_object (V_PTR (V_NUM (q)), V_PTR (V_DEN (q))))
#define V_WFQ_AT(q,k) (V_WF_AT (V_NUM (q), k) && V_WF_AT (V_DEN (q), k) && V_SIZ (V_DEN (q)) > 0 && !__CPROVER_same_object (V_PTR (V_NUM (q)), V_PTR (V_DEN (q))))

#define V_MPQ2(f) void f (mpq_ptr dest, mpq_srcptr src) \
__CPROVER_requires (V_WFQ (dest) && V_WFQ (src) && V_GHOSTS_OK) \
__CPROVER_assigns (*dest, __CPROVER_object_whole (V_PTR (V_NUM (dest))), __CPROVER_object_whole (V_PTR (V_DEN (dest)))) \
__CPROVER_frees (V_PTR (V_NUM (dest)), V_PTR (V_DEN (dest))) \
__CPROVER_ensures (V_WFQ_AT (dest, gk))
V_MPQ2 (__gmpq_inv);
V_MPQ2 (__gmpq_neg);
V_MPQ2 (__gmpq_abs);
V_MPQ2 (__gmpq_set);

void __gmpq_set_z (mpq_ptr dest, mpz_srcptr src)
__CPROVER_requires (V_WFQ (dest) && V_WF (src) && V_GHOSTS_OK)
__CPROVER_assigns (*dest, __CPROVER_object_whole (V_PTR (V_NUM (dest))), __CPROVER_object_whole (V_PTR (V_DEN (dest))))
__CPROVER_frees (V_PTR (V_NUM (dest)))
__CPROVER_ensures (V_WFQ_AT (dest, gk) && V_SIZ (V_DEN (dest)) == 1 && V_PTR (V_DEN (dest))[0] == 1);

/* set_num / set_den / get_num / get_den: plain copies of one part (set_den: caller's responsibility that den > 0) */
#define V_MPQPART(f, PART) void f (mpq_ptr dest, mpz_srcptr z) \
__CPROVER_requires (V_WFQ (dest) && V_WF (z) && V_GHOSTS_OK) \
__CPROVER_assigns (dest->PART, __CPROVER_object_whole (V_PTR (&dest->PART))) \
__CPROVER_frees (V_PTR (&dest->PART)) \
__CPROVER_ensures (V_WF_AT (&dest->PART, gk))
V_MPQPART (__gmpq_set_num, _mp_num);
V_MPQPART (__gmpq_set_den, _mp_den);
#define V_MPQGET(f) void f (mpz_ptr z, mpq_srcptr src) \
__CPROVER_requires (V_WF (z) && V_WFQ (src) && V_GHOSTS_OK && !__CPROVER_same_object (z, src)) \
__CPROVER_assigns (*z, __CPROVER_object_whole (V_PTR (z))) \
__CPROVER_frees (V_PTR (z)) \
__CPROVER_ensures (V_WF_AT (z, gk))
V_MPQGET (__gmpq_get_num);
V_MPQGET (__gmpq_get_den);

/* set_ui / set_si: stores the pair as given (0/d is canonicalised to 0/1); one limb each, blocks untouched */
#define V_MPQSET(f, T) void f (mpq_ptr dest, T num, mpir_ui den) \
__CPROVER_requires (V_WFQ (dest)) \
__CPROVER_assigns (dest->_mp_num._mp_size, dest->_mp_den._mp_size, __CPROVER_object_upto (V_PTR (V_NUM (dest)), 8), __CPROVER_object_upto (V_PTR (V_DEN (dest)), 8)) \
__CPROVER_ensures (V_WF (V_NUM (dest)) && V_WF (V_DEN (dest)) && V_SMALL (V_NUM (dest)) && V_VAL1 (V_NUM (dest)) == (V_i128) num) \
__CPROVER_ensures (V_SMALL (V_DEN (dest)) && V_VAL1 (V_DEN (dest)) == (num == 0 ? (V_i128) 1 : (V_i128) den))
V_MPQSET (__gmpq_set_ui, mpir_ui);
V_MPQSET (__gmpq_set_si, mpir_si);

void __gmpq_swap (mpq_ptr u, mpq_ptr v)
__CPROVER_requires (V_WFQ (u) && V_WFQ (v))
__CPROVER_assigns (*u, *v)
__CPROVER_ensures (V_SIZ (V_NUM (u)) == __CPROVER_old (V_SIZ (V_NUM (v))) && V_SIZ (V_NUM (v)) == __CPROVER_old (V_SIZ (V_NUM (u))))
__CPROVER_ensures (V_SIZ (V_DEN (u)) == __CPROVER_old (V_SIZ (V_DEN (v))) && V_SIZ (V_DEN (v)) == __CPROVER_old (V_SIZ (V_DEN (u))))
__CPROVER_ensures (V_PTR (V_NUM (u)) == __CPROVER_old (V_PTR (V_NUM (v))) && V_PTR (V_NUM (v)) == __CPROVER_old (V_PTR (V_NUM (u))))
__CPROVER_ensures (V_PTR (V_DEN (u)) == __CPROVER_old (V_PTR (V_DEN (v))) && V_PTR (V_DEN (v)) == __CPROVER_old (V_PTR (V_DEN (u))))
__CPROVER_ensures (V_ALLOC (V_NUM (u)) == __CPROVER_old (V_ALLOC (V_NUM (v))) && V_ALLOC (V_NUM (v)) == __CPROVER_old (V_ALLOC (V_NUM (u))))
__CPROVER_ensures (V_ALLOC (V_DEN (u)) == __CPROVER_old (V_ALLOC (V_DEN (v))) && V_ALLOC (V_DEN (v)) == __CPROVER_old (V_ALLOC (V_DEN (u))))
__CPROVER_ensures (V_WFQ (u) && V_WFQ (v));
#endif
