/* /verif/contracts/common.h -- ghost state and predicates shared by all units.
   Included (by the weaver) at file scope just before the first function under
   contract, i.e. after mpir.h / gmp-impl.h have been expanded, so MPIR's types
   exist but none of its macros do (the text is already preprocessed). */
#ifndef VERIF_COMMON_H
#define VERIF_COMMON_H

typedef unsigned __int128 V_u128;
typedef unsigned long V_limb;

#define V_NMAX   (1L << 40)          /* limbs; DESIGN section 4 item 6 */
#define V_ZMAX   ((1L << 30) - 1)        /* limbs of an mpz/mpq/mpf block: _mp_alloc/_mp_size are int */
#define V_B      (((V_u128) 1) << 64)

/* ghost position(s) chosen by the caller / harness before a call, and ghost carries */
long   gk;            /* position inside the operand, 0 <= gk < n */
V_limb g2_ci, g2_co;  /* the same at the second position gj, for contracts that deliver two positions (linked: gj == gk+1 ==> g2_ci == g_co) */
V_limb g_ci, g_co;    /* carry/borrow at the head of iteration gk and gk+1 (== return at gk == n-1) */
static const V_limb g_zero = 0; /* never assigned: reads as 0; target of V_OLDSEL when the position does not exist */
/* value *(p) had on entry if c held on entry, else 0 */
#define V_OLDSEL(c,p) __CPROVER_old (*((c) ? (p) : (const V_limb *) &g_zero))
long   g_hd;          /* ghost OUTPUT of mpn_cmp / mpn_zero_p: highest differing (resp. a non-zero) index, -1 if none */
long   gh;            /* third ghost position (harness-chosen guess of a ghost OUTPUT index such as g_hd) */
long   gj;            /* second ghost position (order facts, "all above are equal/zero") */

long   nondet_long (void);
V_limb nondet_ulong (void);
_Bool  nondet_bool (void);

#define V_GHOSTS_OK   (0 <= gk && gk <= V_NMAX && 0 <= gj && gj <= V_NMAX && 0 <= gh && gh <= V_NMAX)

/* overlap predicates as the manual states them */
#define V_SAME_OR_SEPARATE(a,b,n)  ((a) == (b) || !__CPROVER_same_object (a, b) || (a) + (n) <= (b) || (b) + (n) <= (a))
#define V_SEPARATE(a,an,b,bn)      (!__CPROVER_same_object (a, b) || (a) + (an) <= (b) || (b) + (bn) <= (a))
#define V_SAME_OR_INCR(d,s,n)      (!__CPROVER_same_object (d, s) || (d) <= (s) || (s) + (n) <= (d))     /* dst at or below src */
#define V_SAME_OR_DECR(d,s,n)      (!__CPROVER_same_object (d, s) || (d) >= (s) || (d) + (n) <= (s))
#define V_R_OK(p,n)  __CPROVER_r_ok ((p), (n) * 8)
#define V_W_OK(p,n)  __CPROVER_w_ok ((p), (n) * 8)

/* mpz accessors (MPIR's SIZ/PTR/ALLOC macros are gone after preprocessing) */
#define V_SIZ(x)   ((x)->_mp_size)
#define V_PTR(x)   ((x)->_mp_d)
#define V_ALLOC(x) ((x)->_mp_alloc)
#define V_ABS(x)   ((x) >= 0 ? (x) : -(x))
#define V_ABSIZ(x) V_ABS ((long) V_SIZ (x))

#endif
