/* /verif/contracts/tokens.h -- abstract value tokens for glue proofs (DESIGN 3.4).
   A registry maps each live __mpz_struct address to a 64-bit token standing for its mathematical value.
   Heavy callees are replaced by ASSUMED contracts on tokens (uninterpreted functions + the sign/zero facts of the
   manual); linear steps (+, -, +-1, negation) are interpreted.  SIZ of an object always has the sign of its token,
   which is all the glue code ever inspects.  |token| < 2^61 is assumed so the interpreted steps cannot wrap. */
#ifndef VERIF_TOKENS_H
#define VERIF_TOKENS_H
typedef long V_tok;
#define V_TMAX (1L << 61)
#define V_NREG 8
const void *V_rk[V_NREG]; V_tok V_rv[V_NREG]; int V_rn;
_Bool g_div0_expected;      /* set by the harness: a zero divisor reaches the division */
_Bool g_err_expected;
static int V_find (const void *p)
{
  for (int i = 0; i < V_NREG; i++)
    if (i < V_rn && V_rk[i] == p)
      return i;
  return -1;
}
static V_tok V_val (mpz_srcptr x)
{
  int i = V_find (x);
  __CPROVER_assert (i >= 0, "[C05] operand read by the glue holds a value (initialised object)");
  if (i < 0) { __CPROVER_assume (0); }
  return V_rv[i];
}
static void V_setval (mpz_ptr x, V_tok v)
{
  int i = V_find (x);
  if (i < 0)
    {
      __CPROVER_assert (V_rn < V_NREG, "token registry large enough");
      i = V_rn++;
      V_rk[i] = x;
    }
  V_rv[i] = v;
  int s = nondet_int ();                                   /* abstract magnitude: only sign/zero of SIZ is tied to the value */
  __CPROVER_assume ((v == 0) == (s == 0) && (v > 0) == (s > 0) && s > -1000 && s < 1000);
  x->_mp_size = s;
}
#define V_INRANGE(v) (-V_TMAX < (v) && (v) < V_TMAX)
V_tok __CPROVER_uninterpreted_tdivq (V_tok, V_tok);
V_tok __CPROVER_uninterpreted_tdivr (V_tok, V_tok);
V_tok __CPROVER_uninterpreted_tmul (V_tok, V_tok);
V_tok __CPROVER_uninterpreted_tgcd (V_tok, V_tok);
V_tok __CPROVER_uninterpreted_tdivexact (V_tok, V_tok);
/* truncating quotient/remainder with the facts the manual states: r == 0 or sgn r == sgn n; |r| < |d| */
#define V_TDIV_FACTS(vn,vd,vq,vr) \
  __CPROVER_assume (V_INRANGE (vq) && V_INRANGE (vr) && ((vr) == 0 || (((vr) > 0) == ((vn) > 0))) \
                    && ((vd) > 0 ? (-(vd) < (vr) && (vr) < (vd)) : ((vd) < (vr) && (vr) < -(vd))) \
                    && ((vn) == 0 ==> ((vq) == 0 && (vr) == 0)))
static void V_div0 (void)
{
  __CPROVER_assert (g_div0_expected, "[C02] DIVIDE_BY_ZERO is raised only when the divisor is zero");
  __CPROVER_assume (0);
}
void __gmp_divide_by_zero (void) { V_div0 (); }
/* temporary-memory back end (only reached for > 64 KiB requests) */
void *malloc (__CPROVER_size_t);
void *__gmp_tmp_reentrant_alloc (struct tmp_reentrant_t **m, size_t n) { void *p = malloc (n); __CPROVER_assume (p != (void *) 0); return p; }
void __gmp_tmp_reentrant_free (struct tmp_reentrant_t *m) { }

/* ---- assumed contracts of the mpz-level callees, on tokens */
void __gmpz_tdiv_qr (mpz_ptr q, mpz_ptr r, mpz_srcptr n, mpz_srcptr d)
{
  __CPROVER_assert (q != r, "[C02][C05] tdiv_qr: quotient and remainder are distinct objects");
  V_tok vn = V_val (n), vd = V_val (d);
  if (vd == 0) V_div0 ();
  V_tok vq = __CPROVER_uninterpreted_tdivq (vn, vd), vr = __CPROVER_uninterpreted_tdivr (vn, vd);
  V_TDIV_FACTS (vn, vd, vq, vr);
  V_setval (q, vq); V_setval (r, vr);
}
void __gmpz_tdiv_q (mpz_ptr q, mpz_srcptr n, mpz_srcptr d)
{
  V_tok vn = V_val (n), vd = V_val (d);
  if (vd == 0) V_div0 ();
  V_tok vq = __CPROVER_uninterpreted_tdivq (vn, vd), vr = __CPROVER_uninterpreted_tdivr (vn, vd);
  V_TDIV_FACTS (vn, vd, vq, vr);
  V_setval (q, vq);
}
void __gmpz_tdiv_r (mpz_ptr r, mpz_srcptr n, mpz_srcptr d)
{
  V_tok vn = V_val (n), vd = V_val (d);
  if (vd == 0) V_div0 ();
  V_tok vq = __CPROVER_uninterpreted_tdivq (vn, vd), vr = __CPROVER_uninterpreted_tdivr (vn, vd);
  V_TDIV_FACTS (vn, vd, vq, vr);
  V_setval (r, vr);
}
void __gmpz_set (mpz_ptr w, mpz_srcptr u) { V_tok t = V_val (u); V_setval (w, t); }
void __gmpz_add (mpz_ptr w, mpz_srcptr u, mpz_srcptr v) { V_tok t = V_val (u) + V_val (v); V_setval (w, t); }
void __gmpz_sub (mpz_ptr w, mpz_srcptr u, mpz_srcptr v) { V_tok t = V_val (u) - V_val (v); V_setval (w, t); }
void __gmpz_add_ui (mpz_ptr w, mpz_srcptr u, mpir_ui k) { __CPROVER_assume (k < 1000); V_tok t = V_val (u) + (V_tok) k; V_setval (w, t); }
void __gmpz_sub_ui (mpz_ptr w, mpz_srcptr u, mpir_ui k) { __CPROVER_assume (k < 1000); V_tok t = V_val (u) - (V_tok) k; V_setval (w, t); }
void __gmpz_neg (mpz_ptr w, mpz_srcptr u) { V_tok t = -V_val (u); V_setval (w, t); }
void __gmpz_abs (mpz_ptr w, mpz_srcptr u) { V_tok t = V_val (u); V_setval (w, t < 0 ? -t : t); }
#endif
