/* /verif/contracts/tokens.h -- abstract value tokens for glue proofs (DESIGN 3.4).
   A registry maps each live __mpz_struct address to a 64-bit token standing for its mathematical value.
   Heavy callees are replaced by ASSUMED contracts on tokens (uninterpreted functions + the sign/zero facts of the
   manual); linear steps (+, -, +-1, negation) are interpreted.  SIZ of an object always has the sign of its token,
   which is all the glue code ever inspects.  |token| < 2^61 is assumed so the interpreted steps cannot wrap. */
#ifndef VERIF_TOKENS_H
#define VERIF_TOKENS_H
typedef long V_tok;
#define V_TMAX (1L << 61)
#define V_NREG 16
const void *V_rk[V_NREG]; V_tok V_rv[V_NREG]; int V_rn;
_Bool g_div0_expected;      /* set by the harness: a zero divisor reaches the division */
_Bool g_err_expected;
static int V_find (const void *p)
{
  for (int i = 0; i < V_NREG; i++)
    if (i < V_rn && V_rk[i] == p)
      return i;
  return -1;
}
/* The registry holds the MAGNITUDE; the sign is the sign of SIZ.  Glue code that flips or clears a sign by writing
   _mp_size directly (mpq_div, mpq_canonicalize) is therefore followed exactly. */
static V_tok V_val (mpz_srcptr x)
{
  int i = V_find (x);
  __CPROVER_assert (i >= 0, "[C05] operand read by the glue holds a value (initialised object)");
  if (i < 0) { __CPROVER_assume (0); }
  return x->_mp_size > 0 ? V_rv[i] : (x->_mp_size < 0 ? -V_rv[i] : 0);
}
static void V_setval (mpz_ptr x, V_tok v)
{
  int i = V_find (x);
  if (i < 0)
    {
      __CPROVER_assert (V_rn < V_NREG, "token registry large enough");
      i = V_rn++;
      V_rk[i] = x;
    }
  V_rv[i] = v < 0 ? -v : v;
  int s = nondet_int ();                                   /* abstract magnitude: only sign/zero of SIZ is tied to the value ... */
  __CPROVER_assume ((v == 0) == (s == 0) && (v > 0) == (s > 0) && s > -1000 && s < 1000);
  if (v == 1 || v == -1) s = (int) v;                      /* ... except +-1, which the glue recognises by SIZ == 1 && limb0 == 1 */
  x->_mp_size = s;
  if (s == 1 || s == -1)
    {
      mp_limb_t l0 = nondet_ulong ();
      __CPROVER_assume ((l0 == 1) == (v == 1 || v == -1));
      x->_mp_d[0] = l0;
    }
}
#define V_INRANGE(v) (-V_TMAX < (v) && (v) < V_TMAX)
V_tok __CPROVER_uninterpreted_tdivq (V_tok, V_tok);
V_tok __CPROVER_uninterpreted_tdivr (V_tok, V_tok);
V_tok __CPROVER_uninterpreted_tmul (V_tok, V_tok);
V_tok __CPROVER_uninterpreted_tgcd (V_tok, V_tok);
V_tok __CPROVER_uninterpreted_tdivexact (V_tok, V_tok);
/* truncating quotient/remainder with the facts the manual states: r == 0 or sgn r == sgn n; |r| < |d| */
#define V_TDIV_FACTS(vn,vd,vq,vr) \
  __CPROVER_assume (V_INRANGE (vq) && V_INRANGE (vr) && ((vr) == 0 || (((vr) > 0) == ((vn) > 0))) \
                    && ((vd) > 0 ? (-(vd) < (vr) && (vr) < (vd)) : ((vd) < (vr) && (vr) < -(vd))) \
                    && ((vn) == 0 ==> ((vq) == 0 && (vr) == 0)))
static void V_div0 (void)
{
  __CPROVER_assert (g_div0_expected, "[C02] DIVIDE_BY_ZERO is raised only when the divisor is zero");
  __CPROVER_assume (0);
}
void __gmp_divide_by_zero (void) { V_div0 (); }
/* temporary-memory back end (only reached for > 64 KiB requests) */
void *malloc (__CPROVER_size_t);
void *__gmp_tmp_reentrant_alloc (struct tmp_reentrant_t **m, size_t n) { void *p = malloc (n); __CPROVER_assume (p != (void *) 0); return p; }
void __gmp_tmp_reentrant_free (struct tmp_reentrant_t *m) { }

/* ---- assumed contracts of the mpz-level callees, on tokens */
void __gmpz_tdiv_qr (mpz_ptr q, mpz_ptr r, mpz_srcptr n, mpz_srcptr d)
{
  __CPROVER_assert (q != r, "[C02][C05] tdiv_qr: quotient and remainder are distinct objects");
  V_tok vn = V_val (n), vd = V_val (d);
  if (vd == 0) V_div0 ();
  V_tok vq = __CPROVER_uninterpreted_tdivq (vn, vd), vr = __CPROVER_uninterpreted_tdivr (vn, vd);
  V_TDIV_FACTS (vn, vd, vq, vr);
  V_setval (q, vq); V_setval (r, vr);
}
void __gmpz_tdiv_q (mpz_ptr q, mpz_srcptr n, mpz_srcptr d)
{
  V_tok vn = V_val (n), vd = V_val (d);
  if (vd == 0) V_div0 ();
  V_tok vq = __CPROVER_uninterpreted_tdivq (vn, vd), vr = __CPROVER_uninterpreted_tdivr (vn, vd);
  V_TDIV_FACTS (vn, vd, vq, vr);
  V_setval (q, vq);
}
void __gmpz_tdiv_r (mpz_ptr r, mpz_srcptr n, mpz_srcptr d)
{
  V_tok vn = V_val (n), vd = V_val (d);
  if (vd == 0) V_div0 ();
  V_tok vq = __CPROVER_uninterpreted_tdivq (vn, vd), vr = __CPROVER_uninterpreted_tdivr (vn, vd);
  V_TDIV_FACTS (vn, vd, vq, vr);
  V_setval (r, vr);
}
void __gmpz_set (mpz_ptr w, mpz_srcptr u) { V_tok t = V_val (u); V_setval (w, t); }
void __gmpz_add (mpz_ptr w, mpz_srcptr u, mpz_srcptr v) { V_tok t = V_val (u) + V_val (v); V_setval (w, t); }
void __gmpz_sub (mpz_ptr w, mpz_srcptr u, mpz_srcptr v) { V_tok t = V_val (u) - V_val (v); V_setval (w, t); }
void __gmpz_add_ui (mpz_ptr w, mpz_srcptr u, mpir_ui k) { __CPROVER_assume (k < 1000); V_tok t = V_val (u) + (V_tok) k; V_setval (w, t); }
void __gmpz_sub_ui (mpz_ptr w, mpz_srcptr u, mpir_ui k) { __CPROVER_assume (k < 1000); V_tok t = V_val (u) - (V_tok) k; V_setval (w, t); }
void __gmpz_neg (mpz_ptr w, mpz_srcptr u) { V_tok t = -V_val (u); V_setval (w, t); }
void __gmpz_abs (mpz_ptr w, mpz_srcptr u) { V_tok t = V_val (u); V_setval (w, t < 0 ? -t : t); }

/* ---- heavy callees of the mpq arithmetic, ASSUMED, on magnitudes (so that a sign flip commutes): symmetric gcd and product,
   exact quotient; with the sign/zero/unit facts the manual gives */
V_tok __CPROVER_uninterpreted_gcdm (V_tok, V_tok);
V_tok __CPROVER_uninterpreted_mulm (V_tok, V_tok);
V_tok __CPROVER_uninterpreted_divxm (V_tok, V_tok);
#define V_AB(v)   ((v) < 0 ? -(v) : (v))
#define V_MN(a,b) ((a) < (b) ? (a) : (b))
#define V_MX(a,b) ((a) < (b) ? (b) : (a))
static V_tok V_GCD (V_tok a, V_tok b)
{
  a = V_AB (a); b = V_AB (b);
  if (a == 0) return b;
  if (b == 0) return a;
  if (a == b) return a;
  V_tok g = __CPROVER_uninterpreted_gcdm (V_MN (a, b), V_MX (a, b));
  __CPROVER_assume (1 <= g && g <= V_MN (a, b) && ((a == 1 || b == 1) ==> g == 1));
  return g;
}
static V_tok V_MUL (V_tok a, V_tok b)
{
  V_tok ma = V_AB (a), mb = V_AB (b), m;
  if (ma == 0 || mb == 0) return 0;
  if (ma == 1) m = mb; else if (mb == 1) m = ma;
  else { m = __CPROVER_uninterpreted_mulm (V_MN (ma, mb), V_MX (ma, mb)); __CPROVER_assume (2 <= m && m < V_TMAX); }
  return ((a < 0) != (b < 0)) ? -m : m;
}
static V_tok V_DIVX (V_tok a, V_tok d)          /* a / d for d > 0 dividing a */
{
  V_tok ma = V_AB (a), m;
  __CPROVER_assert (d > 0, "[C12] exact division by a positive divisor (a gcd)");
  if (ma == 0) return 0;
  if (d == 1) m = ma; else if (d == ma) m = 1;
  else { m = __CPROVER_uninterpreted_divxm (ma, d); __CPROVER_assume (1 <= m && m <= ma); }
  return a < 0 ? -m : m;
}
void __gmpz_gcd (mpz_ptr g, mpz_srcptr a, mpz_srcptr b) { V_tok t = V_GCD (V_val (a), V_val (b)); V_setval (g, t); }
void __gmpz_divexact_gcd (mpz_ptr q, mpz_srcptr a, mpz_srcptr d) { V_tok t = V_DIVX (V_val (a), V_val (d)); V_setval (q, t); }
void __gmpz_mul (mpz_ptr w, mpz_srcptr u, mpz_srcptr v) { V_tok t = V_MUL (V_val (u), V_val (v)); V_setval (w, t); }
/* extended gcd (ASSUMED): g = gcd(a,b) >= 0, cofactor s with s*a == g (mod b) and |s| < |b| (manual: |s| < |b|/(2g) except in degenerate cases);
   the third result is not requested by the glue under proof (t == NULL) */
V_tok __CPROVER_uninterpreted_cofs (V_tok, V_tok);
void __gmpz_gcdext (mpz_ptr g, mpz_ptr s, mpz_ptr t, mpz_srcptr a, mpz_srcptr b)
{
  __CPROVER_assert (t == (mpz_ptr) 0, "glue passes no second cofactor");
  V_tok va = V_val (a), vb = V_val (b), vg = V_GCD (va, vb), vs = __CPROVER_uninterpreted_cofs (va, vb);
  __CPROVER_assume (vb == 0 || (-V_AB (vb) < vs && vs < V_AB (vb)));
  V_setval (g, vg); V_setval (s, vs);
}
void __gmpz_divexact (mpz_ptr q, mpz_srcptr a, mpz_srcptr d)
{
  V_tok va = V_val (a), vd = V_val (d);
  __CPROVER_assert (vd != 0, "[C02] divexact by a non-zero divisor");
  V_tok t = V_DIVX (va, V_AB (vd));
  V_setval (q, vd < 0 ? -t : t);
}
/* temporaries: one limb of storage (the limb contents are abstract), value 0, released by mpz_clear (leak check) */
void __gmpz_init (mpz_ptr x) { x->_mp_alloc = 1; x->_mp_d = malloc (8); __CPROVER_assume (x->_mp_d != (void *) 0); V_setval (x, 0); }
void free (void *);
void __gmpz_clear (mpz_ptr x) { free (x->_mp_d); x->_mp_d = (void *) 0; }
#endif
