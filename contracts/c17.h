/* /verif/contracts/c17.h -- raw stream format of mpz (C17): 4-byte big-endian two's-complement byte count, then the
   magnitude, most significant byte first. */
#ifndef VERIF_C17_H
#define VERIF_C17_H
#define V_BE32(p)   ((((long) (p)[0]) << 24) + (((long) (p)[1]) << 16) + (((long) (p)[2]) << 8) + ((long) (p)[3]))
#define V_S32(v)    (((v) & 0x80000000L) ? (v) - 0x100000000L : (v))              /* sign extension of the 32-bit count */
#define V_HDR(p)    V_S32 (V_BE32 (p))
#define V_HABS(p)   V_ABS (V_HDR (p))
#define V_HLIMBS(p) ((V_HABS (p) + 7) / 8)
#define V_BS(x)     __builtin_bswap64 (x)

/* step 2 of mpz_inp_raw: decode the header, make room, say where the body goes.  For EVERY header the body region
   [written, written+writtenSize) lies inside x's block and ends at its limb allocatedSize. */
void mpz_inp_raw_p (mpz_ptr x, unsigned char *csize_bytes, mpir_out_ptr out)
__CPROVER_requires (V_WF (x) && __CPROVER_r_ok (csize_bytes, 4) && __CPROVER_w_ok (out, sizeof (*out)) && V_GHOSTS_OK)
__CPROVER_assigns (*x, *out, __CPROVER_object_whole (V_PTR (x)))
__CPROVER_frees (V_PTR (x))
__CPROVER_ensures (out->writtenSize == (size_t) V_HABS (csize_bytes) && out->allocatedSize == (size_t) V_HLIMBS (csize_bytes))
__CPROVER_ensures ((long) V_SIZ (x) == (V_HDR (csize_bytes) >= 0 ? V_HLIMBS (csize_bytes) : -V_HLIMBS (csize_bytes)))
__CPROVER_ensures (V_WFA (x) && (long) V_ALLOC (x) >= V_HLIMBS (csize_bytes))
__CPROVER_ensures (V_HLIMBS (csize_bytes) > 0 ==> (out->written == (char *) (V_PTR (x) + V_HLIMBS (csize_bytes)) - V_HABS (csize_bytes) && V_PTR (x)[0] == 0))
;
/* step 4: limbs reversed and byte-swapped in place, high zero limbs stripped, sign kept */
void mpz_inp_raw_m (mpz_ptr x, mpir_out_ptr out)
__CPROVER_requires (V_WFA (x) && __CPROVER_r_ok (out, sizeof (*out)) && 1 <= (long) out->allocatedSize && (long) out->allocatedSize <= (long) V_ALLOC (x))
__CPROVER_requires (V_ABSIZ (x) == (long) out->allocatedSize && 0 <= gk && gk <= V_NMAX)
__CPROVER_assigns (x->_mp_size, __CPROVER_object_upto (V_PTR (x), out->allocatedSize * 8))
__CPROVER_ensures (gk < (long) out->allocatedSize ==> V_PTR (x)[gk] == V_BS (V_OLDSEL (gk < (long) out->allocatedSize, V_PTR (x) + ((long) out->allocatedSize - 1 - gk))))
__CPROVER_ensures (V_ABSIZ (x) <= (long) out->allocatedSize && ((V_SIZ (x) < 0) ==> __CPROVER_old (V_SIZ (x)) < 0) && ((V_SIZ (x) > 0) ==> __CPROVER_old (V_SIZ (x)) > 0))
__CPROVER_ensures ((V_ABSIZ (x) <= gk && gk < (long) out->allocatedSize) ==> V_PTR (x)[gk] == 0)
__CPROVER_ensures (V_WF_AT (x, gk))
;
/* the stream function: on success returns 4 + byte count; on ANY failure returns 0.  In both cases x is well formed
   (C04 "after each call every object is well formed ... all byte streams, valid or not"; C17 "destination can still be
   cleared or reassigned") */
size_t __gmpz_inp_raw (mpz_ptr x, FILE *fp)
__CPROVER_requires (V_WF (x) && V_GHOSTS_OK)
__CPROVER_assigns (*x, __CPROVER_object_whole (V_PTR (x)))
__CPROVER_frees (V_PTR (x))
__CPROVER_ensures (V_WFA (x) && -(long) V_ALLOC (x) <= (long) V_SIZ (x) && (long) V_SIZ (x) <= (long) V_ALLOC (x))
__CPROVER_ensures ((V_SIZ (x) != 0 && gk == V_ABSIZ (x) - 1) ==> V_PTR (x)[V_ABSIZ (x) - 1] != 0)
__CPROVER_ensures (__CPROVER_return_value == 0 || __CPROVER_return_value >= 4)
;

/* mpz_out_raw_m: builds the byte image.  n = |SIZ(x)| limbs, z = (leading zero bits of the top limb)/8 leading zero bytes dropped.
   Block of 8+8n bytes; limb k of |x| is stored byte-swapped (big endian) at offset 8 + 8(n-1-k); the image starts 4 bytes before
   the first non-zero body byte with the big-endian two's-complement byte count. */
#define V_OUT_N(x)  V_ABSIZ (x)
#define V_OUT_Z(x)  (V_SIZ (x) != 0 ? (long) (__builtin_clzl (V_PTR (x)[V_ABSIZ (x) - 1]) / 8) : 0L)
#define V_OUT_BYTES(x) (8 * V_OUT_N (x) - V_OUT_Z (x))
void mpz_out_raw_m (mpir_out_ptr mpir_out, mpz_srcptr x)
/* the format's 32-bit signed byte count bounds the operand: 8n < 2^31 */
__CPROVER_requires (V_WF (x) && V_ABSIZ (x) < (1L << 28) && __CPROVER_w_ok (mpir_out, sizeof (*mpir_out)) && 0 <= gk && gk <= V_NMAX)
__CPROVER_assigns (*mpir_out)
__CPROVER_ensures (mpir_out->allocatedSize == (size_t) (8 + 8 * V_OUT_N (x)) && __CPROVER_is_fresh (mpir_out->allocated, 8 + 8 * V_OUT_N (x)))
__CPROVER_ensures (mpir_out->writtenSize == (size_t) (4 + V_OUT_BYTES (x)) && mpir_out->written == mpir_out->allocated + 8 + V_OUT_Z (x) - 4)
/* every limb below the top one is stored whole; of the top limb, the bytes after the dropped leading zero bytes (the header overlays those) */
__CPROVER_ensures (gk < V_OUT_N (x) - 1 ==> *(mp_limb_t *) (mpir_out->allocated + 8 + 8 * (V_OUT_N (x) - 1 - gk)) == V_BS (V_PTR (x)[gk]))
__CPROVER_ensures (V_OUT_N (x) > 0 ==> (*(mp_limb_t *) (mpir_out->allocated + 8) >> (8 * V_OUT_Z (x))) == (V_BS (V_PTR (x)[V_OUT_N (x) - (V_OUT_N (x) > 0)]) >> (8 * V_OUT_Z (x))))
__CPROVER_ensures (V_HDR ((unsigned char *) mpir_out->written) == (V_SIZ (x) >= 0 ? V_OUT_BYTES (x) : -V_OUT_BYTES (x)))
;
/* mpz_out_raw: returns the number of bytes written, 0 if the write failed; the scratch block is released with its exact size on
   both paths (allocator stubs) */
size_t __gmpz_out_raw (FILE *fp, mpz_srcptr x)
__CPROVER_requires (V_WF (x) && V_ABSIZ (x) < (1L << 28) && 0 <= gk && gk <= V_NMAX)
__CPROVER_assigns ()
__CPROVER_ensures (__CPROVER_return_value == 0 || __CPROVER_return_value == (size_t) (4 + V_OUT_BYTES (x)))
;
#endif
