/* /verif/contracts/c17.h -- raw stream format of mpz (C17): 4-byte big-endian two's-complement byte count, then the
   magnitude, most significant byte first. */
#ifndef VERIF_C17_H
#define VERIF_C17_H
#define V_BE32(p)   ((((long) (p)[0]) << 24) + (((long) (p)[1]) << 16) + (((long) (p)[2]) << 8) + ((long) (p)[3]))
#define V_S32(v)    (((v) & 0x80000000L) ? (v) - 0x100000000L : (v))              /* sign extension of the 32-bit count */
#define V_HDR(p)    V_S32 (V_BE32 (p))
#define V_HABS(p)   V_ABS (V_HDR (p))
#define V_HLIMBS(p) ((V_HABS (p) + 7) / 8)
#define V_BS(x)     __builtin_bswap64 (x)

/* step 2 of mpz_inp_raw: decode the header, make room, say where the body goes.  For EVERY header the body region
   [written, written+writtenSize) lies inside x's block and ends at its limb allocatedSize. */
void mpz_inp_raw_p (mpz_ptr x, unsigned char *csize_bytes, mpir_out_ptr out)
__CPROVER_requires (V_WF (x) && __CPROVER_r_ok (csize_bytes, 4) && __CPROVER_w_ok (out, sizeof (*out)) && V_GHOSTS_OK)
__CPROVER_assigns (*x, *out, __CPROVER_object_whole (V_PTR (x)))
__CPROVER_frees (V_PTR (x))
__CPROVER_ensures (out->writtenSize == (size_t) V_HABS (csize_bytes) && out->allocatedSize == (size_t) V_HLIMBS (csize_bytes))
__CPROVER_ensures ((long) V_SIZ (x) == (V_HDR (csize_bytes) >= 0 ? V_HLIMBS (csize_bytes) : -V_HLIMBS (csize_bytes)))
__CPROVER_ensures (V_WFA (x) && (long) V_ALLOC (x) >= V_HLIMBS (csize_bytes))
__CPROVER_ensures (V_HLIMBS (csize_bytes) > 0 ==> (out->written == (char *) (V_PTR (x) + V_HLIMBS (csize_bytes)) - V_HABS (csize_bytes) && V_PTR (x)[0] == 0))
;
/* step 4: limbs reversed and byte-swapped in place, high zero limbs stripped, sign kept */
void mpz_inp_raw_m (mpz_ptr x, mpir_out_ptr out)
__CPROVER_requires (V_WFA (x) && __CPROVER_r_ok (out, sizeof (*out)) && 1 <= (long) out->allocatedSize && (long) out->allocatedSize <= (long) V_ALLOC (x))
__CPROVER_requires (V_ABSIZ (x) == (long) out->allocatedSize && 0 <= gk && gk <= V_NMAX)
__CPROVER_assigns (x->_mp_size, __CPROVER_object_upto (V_PTR (x), out->allocatedSize * 8))
__CPROVER_ensures (gk < (long) out->allocatedSize ==> V_PTR (x)[gk] == V_BS (V_OLDSEL (gk < (long) out->allocatedSize, V_PTR (x) + ((long) out->allocatedSize - 1 - gk))))
__CPROVER_ensures (V_ABSIZ (x) <= (long) out->allocatedSize && ((V_SIZ (x) < 0) ==> __CPROVER_old (V_SIZ (x)) < 0) && ((V_SIZ (x) > 0) ==> __CPROVER_old (V_SIZ (x)) > 0))
__CPROVER_ensures ((V_ABSIZ (x) <= gk && gk < (long) out->allocatedSize) ==> V_PTR (x)[gk] == 0)
__CPROVER_ensures (V_WF_AT (x, gk))
;
/* the stream function: on success returns 4 + byte count; on ANY failure returns 0.  In both cases x is well formed
   (C04 "after each call every object is well formed ... all byte streams, valid or not"; C17 "destination can still be
   cleared or reassigned") */
size_t __gmpz_inp_raw (mpz_ptr x, FILE *fp)
__CPROVER_requires (V_WF (x) && V_GHOSTS_OK)
__CPROVER_assigns (*x, __CPROVER_object_whole (V_PTR (x)))
__CPROVER_frees (V_PTR (x))
__CPROVER_ensures (V_WFA (x) && -(long) V_ALLOC (x) <= (long) V_SIZ (x) && (long) V_SIZ (x) <= (long) V_ALLOC (x))
__CPROVER_ensures ((V_SIZ (x) != 0 && gk == V_ABSIZ (x) - 1) ==> V_PTR (x)[V_ABSIZ (x) - 1] != 0)
__CPROVER_ensures (__CPROVER_return_value == 0 || __CPROVER_return_value >= 4)
;
#endif
