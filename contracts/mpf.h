/* /verif/contracts/mpf.h -- mpf representation invariant (C13) and the exact mpf functions */
#ifndef VERIF_MPF_H
#define VERIF_MPF_H
#define V_PREC(f)  ((long) (f)->_mp_prec)
#define V_EXP(f)   ((f)->_mp_exp)
/* format rules of the manual: block of exactly prec+1 limbs, at most prec+1 limbs in use, top limb non-zero, zero has exponent 0 */
#define V_WFFA(f)  (__CPROVER_w_ok ((f), sizeof (*(f))) && 1 <= V_PREC (f) && V_PREC (f) < V_ZMAX && V_BLOCK (V_PTR (f), V_PREC (f) + 1))
#define V_WFF(f)   (V_WFFA (f) && V_ABSIZ (f) <= V_PREC (f) + 1 && (V_SIZ (f) != 0 ==> V_PTR (f)[V_ABSIZ (f) - 1] != 0) && (V_SIZ (f) == 0 ==> V_EXP (f) == 0))
#define V_WFF_AT(f,k) (V_WFFA (f) && V_ABSIZ (f) <= V_PREC (f) + 1 && ((V_SIZ (f) != 0 && (k) == V_ABSIZ (f) - 1) ==> V_PTR (f)[V_ABSIZ (f) - 1] != 0) && (V_SIZ (f) == 0 ==> V_EXP (f) == 0))

/* neg / abs / set: the top min(|size|, prec(r)+1) limbs of u, same exponent; exact whenever u fits r's precision */
#define V_MPF2(f) void f (mpf_ptr r, mpf_srcptr u) \
__CPROVER_requires (V_WFF (r) && V_WFF (u) && V_GHOSTS_OK) \
__CPROVER_assigns (r->_mp_size, r->_mp_exp, __CPROVER_object_whole (V_PTR (r))) \
__CPROVER_ensures (V_WFF_AT (r, gk) && V_PTR (r) == __CPROVER_old (V_PTR (r)) && V_PREC (r) == __CPROVER_old (V_PREC (r)))
V_MPF2 (__gmpf_neg);
V_MPF2 (__gmpf_abs);
V_MPF2 (__gmpf_set);

/* integer_p: 1 iff every limb below the radix point is zero.  g_hd: index of a non-zero fraction limb when the answer is 0 */
int __gmpf_integer_p (mpf_srcptr f)
__CPROVER_requires (V_WFF (f))
__CPROVER_assigns (g_hd)
__CPROVER_ensures (__CPROVER_return_value == 0 || __CPROVER_return_value == 1)
__CPROVER_ensures (V_SIZ (f) == 0 ==> __CPROVER_return_value == 1)
__CPROVER_ensures ((V_SIZ (f) != 0 && V_EXP (f) <= 0) ==> __CPROVER_return_value == 0)        /* |f| < 1 and non-zero */
__CPROVER_ensures ((V_SIZ (f) != 0 && V_EXP (f) > 0 && __CPROVER_return_value == 1 && 0 <= gj && gj < V_ABSIZ (f) - V_EXP (f)) ==> V_PTR (f)[gj] == 0)
__CPROVER_ensures ((V_SIZ (f) != 0 && V_EXP (f) > 0 && __CPROVER_return_value == 0) ==> (0 <= g_hd && g_hd < V_ABSIZ (f) - V_EXP (f) && V_PTR (f)[g_hd] != 0));

/* get_ui: the least significant limb of the integer part of |f| (limb at the radix point), 0 when the integer part has none */
mpir_ui __gmpf_get_ui (mpf_srcptr f)
__CPROVER_requires (V_WFF (f))
__CPROVER_assigns ()
__CPROVER_ensures (__CPROVER_return_value == ((V_EXP (f) > 0 && V_ABSIZ (f) >= V_EXP (f)) ? V_PTR (f)[(V_EXP (f) > 0 && V_ABSIZ (f) >= V_EXP (f)) ? V_ABSIZ (f) - V_EXP (f) : 0] : (V_limb) 0));

/* mpf_cmp: sign of the exact difference.  Values are sign * 0.d[n-1]d[n-2]...d[0] * B^exp with d[n-1] != 0, so for equal signs the
   larger exponent wins; for equal exponents the limb strings are compared aligned at the TOP, low zero limbs being insignificant.
   Ghost outputs: g_zu, g_zv = number of low zero limbs of u, v (zero below at gh, limb g_z* non-zero); g_hd = highest differing index
   inside the common top-aligned region of m = min(un-g_zu, vn-g_zv) limbs (-1: none); "equal above g_hd" is delivered at gj. */
long g_zu, g_zv;
#define V_UN(u)  V_ABSIZ (u)
#define V_M(u,v) ((V_UN (u) - g_zu) < (V_UN (v) - g_zv) ? (V_UN (u) - g_zu) : (V_UN (v) - g_zv))
#define V_CU(u,v,k) V_PTR (u)[V_UN (u) - V_M (u, v) + (k)]
#define V_CV(u,v,k) V_PTR (v)[V_UN (v) - V_M (u, v) + (k)]
#define V_USGN(u) (V_SIZ (u) >= 0 ? 1 : -1)
#define V_SAMEEXP(u,v) (V_SIZ (u) != 0 && V_SIZ (v) != 0 && ((V_SIZ (u) ^ V_SIZ (v)) >= 0) && V_EXP (u) == V_EXP (v))
int __gmpf_cmp (mpf_srcptr u, mpf_srcptr v)
__CPROVER_requires (V_WFF (u) && V_WFF (v) && 0 <= gj && gj <= V_NMAX && 0 <= gh && gh <= V_NMAX)
__CPROVER_assigns (g_hd, g_zu, g_zv)
__CPROVER_ensures (((V_SIZ (u) ^ V_SIZ (v)) < 0) ==> V_SGN3 (__CPROVER_return_value) == V_USGN (u))                         /* opposite signs */
__CPROVER_ensures ((V_SIZ (u) == 0 && V_SIZ (v) >= 0) ==> V_SGN3 (__CPROVER_return_value) == -(V_SIZ (v) != 0))
__CPROVER_ensures ((V_SIZ (v) == 0 && V_SIZ (u) > 0) ==> V_SGN3 (__CPROVER_return_value) == 1)
__CPROVER_ensures ((V_SIZ (u) != 0 && V_SIZ (v) != 0 && ((V_SIZ (u) ^ V_SIZ (v)) >= 0) && V_EXP (u) != V_EXP (v)) ==> V_SGN3 (__CPROVER_return_value) == (V_EXP (u) > V_EXP (v) ? V_USGN (u) : -V_USGN (u)))
__CPROVER_ensures (V_SAMEEXP (u, v) ==> (0 <= g_zu && g_zu < V_UN (u) && V_PTR (u)[g_zu] != 0 && 0 <= g_zv && g_zv < V_UN (v) && V_PTR (v)[g_zv] != 0))
__CPROVER_ensures ((V_SAMEEXP (u, v) && gh < g_zu) ==> V_PTR (u)[gh] == 0)
__CPROVER_ensures ((V_SAMEEXP (u, v) && gh < g_zv) ==> V_PTR (v)[gh] == 0)
__CPROVER_ensures (V_SAMEEXP (u, v) ==> (-1 <= g_hd && g_hd < V_M (u, v)))
__CPROVER_ensures ((V_SAMEEXP (u, v) && g_hd >= 0) ==> (V_CU (u, v, g_hd) != V_CV (u, v, g_hd) && V_SGN3 (__CPROVER_return_value) == (V_CU (u, v, g_hd) > V_CV (u, v, g_hd) ? V_USGN (u) : -V_USGN (u))))
__CPROVER_ensures ((V_SAMEEXP (u, v) && g_hd < gj && gj < V_M (u, v)) ==> V_CU (u, v, gj) == V_CV (u, v, gj))
/* common part equal: the operand with further (non-zero) low limbs is larger in magnitude */
__CPROVER_ensures ((V_SAMEEXP (u, v) && g_hd == -1) ==> V_SGN3 (__CPROVER_return_value) == ((V_UN (u) - g_zu) > (V_UN (v) - g_zv) ? V_USGN (u) : ((V_UN (u) - g_zu) < (V_UN (v) - g_zv) ? -V_USGN (u) : 0)));

/* ---- conversions / predicates on the stored value.  For exponent 1 the integer part is the top limb; exponent >= 2 means
   |f| >= 2^64; exponent <= 0 means |f| < 1 (truncates to 0). */
#define V_FTOP(f)  V_PTR (f)[V_ABSIZ (f) - (V_SIZ (f) != 0)]
#define V_MPF_SET(fn, T) void fn (mpf_ptr f, T val) \
__CPROVER_requires (V_WFF (f)) \
__CPROVER_assigns (f->_mp_size, f->_mp_exp, __CPROVER_object_upto (V_PTR (f), 8)) \
__CPROVER_ensures (V_WFF (f) && V_ABSIZ (f) <= 1 && V_EXP (f) == V_ABSIZ (f)) \
__CPROVER_ensures ((V_i128) (V_SIZ (f) < 0 ? -(V_i128) V_PTR (f)[0] : (V_SIZ (f) > 0 ? (V_i128) V_PTR (f)[0] : 0)) == (V_i128) val)
V_MPF_SET (__gmpf_set_ui, mpir_ui);
V_MPF_SET (__gmpf_set_si, mpir_si);

#define V_MPF_FITS_U(fn, MAXV) int fn (mpf_srcptr f) \
__CPROVER_requires (V_WFF (f)) __CPROVER_assigns () \
__CPROVER_ensures ((__CPROVER_return_value != 0) == (V_SIZ (f) == 0 || V_EXP (f) < 1 || (V_SIZ (f) > 0 && V_EXP (f) == 1 && V_FTOP (f) <= (V_limb) (MAXV))))
#define V_MPF_FITS_S(fn, MAXV, NEGMIN) int fn (mpf_srcptr f) \
__CPROVER_requires (V_WFF (f)) __CPROVER_assigns () \
__CPROVER_ensures ((__CPROVER_return_value != 0) == (V_SIZ (f) == 0 || V_EXP (f) < 1 || (V_EXP (f) == 1 && V_FTOP (f) <= (V_SIZ (f) > 0 ? (V_limb) (MAXV) : (V_limb) (NEGMIN)))))
V_MPF_FITS_U (__gmpf_fits_ulong_p, ~0UL);
V_MPF_FITS_U (__gmpf_fits_uint_p, ~0U);
V_MPF_FITS_U (__gmpf_fits_ushort_p, 0xffff);
V_MPF_FITS_S (__gmpf_fits_slong_p, 0x7fffffffffffffffUL, 0x8000000000000000UL);
V_MPF_FITS_S (__gmpf_fits_sint_p, 0x7fffffffUL, 0x80000000UL);
V_MPF_FITS_S (__gmpf_fits_sshort_p, 0x7fffUL, 0x8000UL);

/* get_si: integer part truncated toward zero when it fits a long */
mpir_si __gmpf_get_si (mpf_srcptr f)
__CPROVER_requires (V_WFF (f)) __CPROVER_assigns ()
__CPROVER_ensures (V_EXP (f) <= 0 ==> __CPROVER_return_value == 0)
__CPROVER_ensures ((V_EXP (f) == 1 && V_SIZ (f) > 0 && V_FTOP (f) <= 0x7fffffffffffffffUL) ==> __CPROVER_return_value == (mpir_si) V_FTOP (f))
__CPROVER_ensures ((V_EXP (f) == 1 && V_SIZ (f) < 0 && V_FTOP (f) <= 0x8000000000000000UL) ==> (V_i128) __CPROVER_return_value == -(V_i128) V_FTOP (f));

/* cmp_ui: sign of f - v.  In the equal-integer-part case the fraction limbs decide: g_hd = index of a non-zero one (ret 1), all zero at gj (ret 0) */
int __gmpf_cmp_ui (mpf_srcptr u, mpir_ui v)
__CPROVER_requires (V_WFF (u) && 0 <= gj && gj <= V_NMAX)
__CPROVER_assigns (g_hd)
__CPROVER_ensures (V_SIZ (u) < 0 ==> __CPROVER_return_value < 0)
__CPROVER_ensures ((V_SIZ (u) >= 0 && v == 0) ==> V_SGN3 (__CPROVER_return_value) == (V_SIZ (u) != 0))
__CPROVER_ensures ((V_SIZ (u) >= 0 && v != 0 && V_EXP (u) > 1) ==> __CPROVER_return_value > 0)
__CPROVER_ensures ((V_SIZ (u) >= 0 && v != 0 && V_EXP (u) < 1) ==> __CPROVER_return_value < 0)
__CPROVER_ensures ((V_SIZ (u) > 0 && v != 0 && V_EXP (u) == 1 && V_FTOP (u) != v) ==> V_SGN3 (__CPROVER_return_value) == (V_FTOP (u) > v ? 1 : -1))
__CPROVER_ensures ((V_SIZ (u) > 0 && v != 0 && V_EXP (u) == 1 && V_FTOP (u) == v) ==> (__CPROVER_return_value == 0 || __CPROVER_return_value == 1))
__CPROVER_ensures ((V_SIZ (u) > 0 && v != 0 && V_EXP (u) == 1 && V_FTOP (u) == v && __CPROVER_return_value == 0 && gj < V_ABSIZ (u) - 1) ==> V_PTR (u)[gj] == 0)
__CPROVER_ensures ((V_SIZ (u) > 0 && v != 0 && V_EXP (u) == 1 && V_FTOP (u) == v && __CPROVER_return_value == 1) ==> (0 <= g_hd && g_hd < V_ABSIZ (u) - 1 && V_PTR (u)[g_hd] != 0));
#endif
