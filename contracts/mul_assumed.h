/* /verif/contracts/mul_assumed.h -- ASSUMED contracts of the multi-limb multiplication entry points, used by the glue proof of mpz_mul.
   Nothing here is proved by any unit (C01: products above one row need mathematical integers).  The contracts state the SHAPE
   the callers rely on: operand-size and non-overlap preconditions (these are what mpz_mul must establish), un+vn limbs written,
   the top limb returned, and - for operands with non-zero top limbs - the product has un+vn or un+vn-1 limbs.
   Ghost: g_mul_calls counts calls; g_ax/g_ay record, at the ghost positions gk/gj, the operand limbs the multiplier actually saw,
   so the harness can check they are the pre-state limbs of u and v (a dropped temporary copy is then visible). */
#ifndef VERIF_MUL_ASSUMED_H
#define VERIF_MUL_ASSUMED_H
extern const void *__CPROVER_alloca_object;
int g_mul_calls; V_limb g_ax, g_ay; long g_axn, g_ayn; _Bool g_sq;
#define V_MUL_PRE(wp,xp,xn,yp,yn) (1 <= (yn) && (yn) <= (xn) && (xn) + (yn) <= V_ZMAX && V_W_OK (wp, (xn) + (yn)) && V_R_OK (xp, xn) && V_R_OK (yp, yn) \
    && V_SEPARATE (wp, (xn) + (yn), xp, xn) && V_SEPARATE (wp, (xn) + (yn), yp, yn))
#define V_MUL_POST(wp,xp,xn,yp,yn) \
    (g_mul_calls == __CPROVER_old (g_mul_calls) + 1 && g_axn == (xn) && g_ayn == (yn) \
     && g_ax == V_OLDSEL (gk < (xn), (xp) + gk) && g_ay == V_OLDSEL (gj < (yn), (yp) + gj) \
     && ((V_OLDSEL ((xn) >= 1, (xp) + ((xn) - 1)) != 0 && V_OLDSEL ((yn) >= 1, (yp) + ((yn) - 1)) != 0 && (wp)[(xn) + (yn) - 1] == 0) ==> (wp)[(xn) + (yn) - 2] != 0))

mp_limb_t __gmpn_mul (mp_ptr wp, mp_srcptr xp, mp_size_t xn, mp_srcptr yp, mp_size_t yn)
__CPROVER_requires (V_MUL_PRE (wp, xp, xn, yp, yn) && 0 <= gk && 0 <= gj)
__CPROVER_assigns (__CPROVER_object_upto (wp, (xn + yn) * 8), g_mul_calls, g_ax, g_ay, g_axn, g_ayn, g_sq)
__CPROVER_ensures (V_MUL_POST (wp, xp, xn, yp, yn) && __CPROVER_return_value == wp[xn + yn - 1] && g_sq == 0);
void __gmpn_mul_basecase (mp_ptr wp, mp_srcptr xp, mp_size_t xn, mp_srcptr yp, mp_size_t yn)
__CPROVER_requires (V_MUL_PRE (wp, xp, xn, yp, yn) && 0 <= gk && 0 <= gj)
__CPROVER_assigns (__CPROVER_object_upto (wp, (xn + yn) * 8), g_mul_calls, g_ax, g_ay, g_axn, g_ayn, g_sq)
__CPROVER_ensures (V_MUL_POST (wp, xp, xn, yp, yn) && g_sq == 0);
void __gmpn_sqr (mp_ptr wp, mp_srcptr xp, mp_size_t xn)
__CPROVER_requires (V_MUL_PRE (wp, xp, xn, xp, xn) && 0 <= gk && 0 <= gj)
__CPROVER_assigns (__CPROVER_object_upto (wp, (xn + xn) * 8), g_mul_calls, g_ax, g_ay, g_axn, g_ayn, g_sq)
__CPROVER_ensures (V_MUL_POST (wp, xp, xn, xp, xn) && g_sq == 1);
void __gmpn_sqr_basecase (mp_ptr wp, mp_srcptr xp, mp_size_t xn)
__CPROVER_requires (V_MUL_PRE (wp, xp, xn, xp, xn) && 0 <= gk && 0 <= gj)
__CPROVER_assigns (__CPROVER_object_upto (wp, (xn + xn) * 8), g_mul_calls, g_ax, g_ay, g_axn, g_ayn, g_sq)
__CPROVER_ensures (V_MUL_POST (wp, xp, xn, xp, xn) && g_sq == 1);

void __gmpz_mul (mpz_ptr w, mpz_srcptr u, mpz_srcptr v)
__CPROVER_requires (V_WF (w) && V_WF (u) && V_WF (v) && V_ABSIZ (u) + V_ABSIZ (v) < V_ZMAX && V_GHOSTS_OK)
__CPROVER_assigns (*w, __CPROVER_object_whole (V_PTR (w)), g_ci, g_co, g_mul_calls, g_ax, g_ay, g_axn, g_ayn, g_sq, __CPROVER_alloca_object)
__CPROVER_frees (V_PTR (w))
__CPROVER_ensures (V_WF_AT (w, gk));
#endif
