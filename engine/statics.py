#!/usr/bin/env python3
"""statics.py -- supporting static fact for C15 (DESIGN 6 C15 (ii)); not a proof.

Every library source of this configuration (the .c files that have a libtool .lo next to them in /repo, i.e. exactly
what was linked into libmpir) is compiled from /repo's working tree with gcc -c into a scratch directory, and the set
of symbols that live in WRITABLE sections (nm types b B d D C, with sizes) is compared with the committed baseline
/verif/contracts/static_baseline.txt.  A new or grown writable object is shared mutable state that the manual does not list.
"""
import os, sys, subprocess, tempfile, shutil
from concurrent.futures import ThreadPoolExecutor
REPO = os.environ.get('VERIF_REPO', '/repo')
VERIF = os.path.dirname(os.path.dirname(os.path.abspath(__file__)))
DIRS = ['', 'mpz', 'mpq', 'mpf', 'mpn', 'printf', 'scanf', 'fft']

def sources():
    out = []
    for d in DIRS:
        dd = os.path.join(REPO, d)
        if not os.path.isdir(dd):
            continue
        for fn in sorted(os.listdir(dd)):
            if fn.endswith('.c') and os.path.exists(os.path.join(dd, fn[:-2] + '.lo')):
                out.append(os.path.join(d, fn))
    return out

def one(args):
    src, tmp = args
    base = os.path.basename(src)[:-2]
    obj = os.path.join(tmp, src.replace('/', '_') + '.o')
    cmd = ['gcc', '-c', '-O0', '-w', '-I' + REPO, '-I' + os.path.join(REPO, os.path.dirname(src)), '-DHAVE_CONFIG_H', '-D__GMP_WITHIN_GMP',
           '-DOPERATION_' + base, os.path.join(REPO, src), '-o', obj]
    p = subprocess.run(cmd, capture_output=True, text=True)
    if p.returncode != 0:
        return src, None, p.stderr[-400:]
    q = subprocess.run(['nm', '--defined-only', '-S', obj], capture_output=True, text=True)
    syms = []
    for ln in q.stdout.splitlines():
        f = ln.split()
        if len(f) == 4 and f[2] in 'bBdDC':
            syms.append('%s %s %s %d' % (src, f[3], f[2].upper(), int(f[1], 16)))
        elif len(f) == 3 and f[1] in 'bBdDC':
            syms.append('%s %s %s 0' % (src, f[2], f[1].upper()))
    return src, syms, ''

def scan():
    tmp = tempfile.mkdtemp(prefix='mpir-statics.')
    try:
        srcs = sources()
        with ThreadPoolExecutor(max_workers=16) as ex:
            res = list(ex.map(one, [(s, tmp) for s in srcs]))
    finally:
        shutil.rmtree(tmp, ignore_errors=True)
    syms, errs = [], []
    for src, sy, err in res:
        if sy is None:
            errs.append('%s: %s' % (src, err))
        else:
            syms += sy
    return len(srcs), sorted(syms), errs

def check():
    """-> dict(files, symbols, new=[...], errors=[...])"""
    n, syms, errs = scan()
    base = {}
    bp = os.path.join(VERIF, 'contracts', 'static_baseline.txt')
    for ln in open(bp):
        ln = ln.strip()
        if ln and not ln.startswith('#'):
            f = ln.split()
            base[(f[0], f[1])] = int(f[3])
    new = []
    for s in syms:
        f = s.split()
        k = (f[0], f[1])
        if k not in base:
            new.append('new writable object %s in %s (%s, %s bytes)' % (f[1], f[0], f[2], f[3]))
        elif int(f[3]) > base[k]:
            new.append('writable object %s in %s grew from %d to %s bytes' % (f[1], f[0], base[k], f[3]))
    return {'files': n, 'symbols': len(syms), 'new': new, 'errors': errs, 'list': syms}

if __name__ == '__main__':
    if len(sys.argv) > 1 and sys.argv[1] == '--write-baseline':
        n, syms, errs = scan()
        with open(os.path.join(VERIF, 'contracts', 'static_baseline.txt'), 'w') as f:
            f.write('# writable-section symbols of the library sources (file symbol type size), unchanged tree; see engine/statics.py\n')
            f.write('\n'.join(syms) + '\n')
        print(n, 'files', len(syms), 'symbols', len(errs), 'errors')
        for e in errs[:10]:
            print(e)
    else:
        r = check()
        print(r['files'], r['symbols'], r['new'], r['errors'][:5])
