#!/usr/bin/env python3
"""manifest.py -- (re)generate /verif/MANIFEST.json from the per-property table below + the unit registry."""
import json, os, sys
sys.path.insert(0, os.path.dirname(os.path.abspath(__file__)))
import vf

VERIF = vf.VERIF

BASELINE_OFF = ("cd /repo && make -j8 check  # the pinned suite of /root/.vp/BASELINE.json (198 tests); MPIR_VERIF is never defined by the "
                "build, there are no hook commits, so guard-off is the repository as it is")

# property -> (level category, level text, level_note, technique, design_ref)
CLAIMS = {}
NA = {}

def claim(pid, text, note, technique='contract-based deductive verification (CBMC code contracts, DFCC, inductive loop cuts)', cat='proof', ref=None):
    CLAIMS[pid] = (cat, text, note, technique, ref or ('DESIGN.md section 6 ' + pid))

def na(pid, reason):
    NA[pid] = reason

exec(open(os.path.join(VERIF, 'engine', 'claims.py')).read())

def main():
    for k in list(NA):
        if k in CLAIMS:
            del NA[k]
    units = vf.load_units()
    checks = []
    for pid in sorted(CLAIMS):
        cat, text, note, tech, ref = CLAIMS[pid]
        us = [u['name'] for u in units.values() if pid in u['props']]
        if not us and pid not in EXTRA_ONLY:
            raise SystemExit('claimed property %s has no unit' % pid)
        checks.append({
            'property_id': pid,
            'quick_cmd': './check.sh %s quick' % pid,
            'thorough_cmd': './check.sh %s thorough' % pid,
            'evidence_file': 'evidence/%s.json' % pid,
            'replay_cmd_template': 'cat {path}',
            'engine': 'contracts',
            'level_claimed': {'category': cat, 'text': text, 'design_ref': ref},
            'level_note': note,
            'technique': tech,
        })
    m = {
        'version': 1,
        'setup_cmd': 'sh engine/setup.sh',
        'hooks': {'guard': 'MPIR_VERIF', 'enable': 'none needed: contracts live in /verif/contracts, loops are addressed by (function, ordinal) in the preprocessed text; -DMPIR_VERIF is passed when preprocessing but no /repo file tests it',
                  'baseline_off_cmd': BASELINE_OFF, 'source_commits': SOURCE_COMMITS, 'add_only': True},
        'engines': [{'name': 'contracts', 'path': 'engine/vf.py', 'serves_properties': sorted(CLAIMS),
                     'kind_free_text': 'per-function contract verification of the real C sources: gcc -E of /repo file -> loop-cut weaver -> goto-cc -> goto-instrument --dfcc (enforce/replace contracts) -> cbmc + kissat'}],
        'checks': checks,
        'not_applicable': [{'property_id': p, 'reason': NA[p]} for p in sorted(NA)],
        'notes': NOTES,
    }
    with open(os.path.join(VERIF, 'MANIFEST.json'), 'w') as f:
        json.dump(m, f, indent=1)
    print('MANIFEST.json: %d checks, %d not_applicable' % (len(checks), len(NA)))

if __name__ == '__main__':
    main()
