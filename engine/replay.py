#!/usr/bin/env python3
"""replay.py -- turn a failed obligation into a native run against the real code (DESIGN.md section 5).

The verifier's counterexample for a `.step` obligation starts from a havocked mid-loop state, so it is not an
input of the function.  The native driver therefore evaluates the same limb-wise contract, at every position,
on the REAL code: the unit's source file is compiled from /repo's working tree with gcc and linked with the
driver (/verif/replay/native.c) and /repo/.libs/libmpir.a for everything else.  Inputs: the unit's edge patterns
(all-ones / single-bit / equal operands / low-zero-limb operands ...) and pseudo-random operands from VERIF_SEED.
A failing input is written to the replay file with the command that reproduces it; if none is found, the file
names the failed obligation and carries the verifier's output, and the caller appends no-failing-input-found.
"""
import os, subprocess, time, shutil, tempfile
import vf

VERIF = vf.VERIF
REPO = vf.REPO

_SUF = r'_(ovl|wu|wv|uv|wuv|ds|an|ad|ra|rb|ab|rab|ru|nq|nr|dq|dr|nqdr|nd|d3|d|null|p1|p2|p3|p4|multi|safety|int|pow2)$'

def native_build(u, tmp):
    """compile the unit's source natively from /repo's working tree + the driver; returns exe path or (None, err)"""
    drv = os.path.join(VERIF, 'replay', 'native.c')
    lib = os.path.join(REPO, '.libs', 'libmpir.a')
    if not os.path.exists(drv):
        return None, 'no native driver'
    if not os.path.exists(lib):
        return None, 'libmpir.a not built in /repo'
    srcs = [u['source']] + list(u.get('replay_sources', []))
    objs = []
    for i, s in enumerate(srcs):
        o = os.path.join(tmp, 'src%d.o' % i)
        cmd = ['gcc', '-c', '-O0', '-Wno-error', '-w', '-I' + REPO, '-I' + os.path.dirname(os.path.join(REPO, s)),
               '-DHAVE_CONFIG_H', '-D__GMP_WITHIN_GMP'] + list(u.get('cppflags', [])) + [os.path.join(REPO, s), '-o', o]
        p = subprocess.run(cmd, capture_output=True, text=True)
        if p.returncode != 0:
            return None, 'native compile of %s failed: %s' % (s, p.stderr[-800:])
        objs.append(o)
    exe = os.path.join(tmp, 'native')
    cmd = ['gcc', '-O1', '-w', '-I' + REPO, '-o', exe, drv] + objs + [lib, '-lm']
    p = subprocess.run(cmd, capture_output=True, text=True)
    if p.returncode != 0:
        return None, 'native link failed: %s' % p.stderr[-800:]
    return exe, ''

def replay(u, obs, prop, seed):
    """-> (path of replay file, failing_input_found)"""
    d = os.path.join(VERIF, 'replay', 'out')
    os.makedirs(d, exist_ok=True)
    path = os.path.join(d, '%s.%s.replay.txt' % (prop, u['name']))
    lines = ['property: %s' % prop, 'unit: %s' % u['name'], 'source: %s' % u['source'],
             'functions under contract: %s' % ' '.join(u.get('enforce', [])), '', 'failed obligations (verifier: CBMC 6.11 + kissat):']
    for o in obs:
        lines.append('  ' + vf.fmt_ob(o))
    found = False
    if u.get('kind') == 'native':
        # the bounded native enumeration already ran on the real code: its failing case IS the replay
        r = vf.run_native_unit(u)
        lines += ['', 'bounded native enumeration (%s), real code built from /repo working tree:' % u['driver'], r.get('native_output', r['reason'])]
        found = r['status'] == 'fail'
        with open(path, 'w') as f:
            f.write('\n'.join(lines) + '\n')
        return path, found
    rp = u.get('replay')
    if not rp:
        # default: the driver's test of the same name as the unit (alias/overlap variants share the base function's test)
        import re as _re
        base = u['name']
        while _re.search(_SUF, base):
            base = _re.sub(_SUF, '', base)
        rp = {'mpz_inp_raw': 'raw', 'mpz_inp_raw_p': 'raw', 'mpz_inp_raw_m': 'raw', 'mpz_out_raw': 'raw', 'mpz_out_raw_m': 'raw'}.get(base, base)
    if rp:
        tmp = tempfile.mkdtemp(prefix='mpir-replay.')
        try:
            exe, err = native_build(u, tmp)
            if exe is None:
                lines += ['', 'native replay not possible: ' + err]
            else:
                for fn in rp if isinstance(rp, (list, tuple)) else [rp]:
                    cmd = [exe, fn, str(seed), str(u.get('replay_budget', 200000))]
                    try:
                        p = subprocess.run(cmd, capture_output=True, text=True, timeout=300)
                        out = p.stdout[-6000:]
                        if p.returncode < 0 or p.returncode > 3:
                            out += '\nFAIL %s: the native run on the real code terminated abnormally (status %d: %s) - memory corruption or abort inside the library; reproduce with the command above' % (fn, p.returncode, (p.stderr or '').strip()[-200:])
                    except subprocess.TimeoutExpired:
                        out = 'TIMEOUT'
                        p = None
                    lines += ['', 'native replay: gcc-built %s from /repo working tree + /verif/replay/native.c' % u['source'],
                              'command: native %s %d %d' % (fn, seed, u.get('replay_budget', 200000)), out]
                    if p is not None and 'FAIL' in out:
                        found = True
                        break
                    if p is not None and p.returncode == 3:
                        lines[-1] = 'no native test for this function in /verif/replay/native.c'
        finally:
            shutil.rmtree(tmp, ignore_errors=True)
    else:
        lines += ['', 'no native replay driver is registered for this unit']
    if not found:
        lines += ['', 'no-failing-input-found: the verifier refuted the obligation(s) above, which are discharged on the unchanged tree;',
                  'the counterexample is a mid-loop / symbolic-callee state and no concrete input reproducing it natively was found.']
    # attach the verifier's own output for the failed obligations (trace excerpt), re-running with --trace
    try:
        if u.get('timeout', 300) > 600:
            raise RuntimeError('skipped for this slow unit (one run takes several minutes); the failed obligations above come from the deciding run')
        tr = vf.run_unit(u, keep=False, trace=True, timeout=u.get('timeout', 300))
        lines += ['', 'verifier output (re-run with --trace), failed obligations:']
        for o in tr['obligations']:
            if o['status'] == 'FAILURE':
                lines.append('  ' + vf.fmt_ob(o))
        if tr.get('trace_excerpt'):
            lines += ['', tr['trace_excerpt']]
    except Exception as e:
        lines.append('trace re-run failed: %s' % e)
    with open(path, 'w') as f:
        f.write('\n'.join(lines) + '\n')
    return path, found


def structural(u, reason, prop, seed):
    """The weaver could not attach the loop specs (function renamed, loop count changed, unaccounted assignment): the contracts
    decide nothing.  The native driver then evaluates the same contract on the real code; ONLY a concrete failing input
    turns this into a violation (it is replayed on the real code by construction); otherwise the unit stays undecided."""
    import re as _re
    d = os.path.join(VERIF, 'replay', 'out')
    os.makedirs(d, exist_ok=True)
    path = os.path.join(d, '%s.%s.structural.replay.txt' % (prop, u['name']))
    base = u['name']
    while _re.search(_SUF, base):
        base = _re.sub(_SUF, '', base)
    fn = u.get('replay') or {'mpz_inp_raw': 'raw', 'mpz_inp_raw_p': 'raw', 'mpz_inp_raw_m': 'raw', 'mpz_out_raw': 'raw', 'mpz_out_raw_m': 'raw'}.get(base, base)
    lines = ['property: %s' % prop, 'unit: %s' % u['name'], 'source: %s' % u['source'],
             'obligation: the loop structure of the function under contract changed, so its inductive invariants no longer attach:',
             '  ' + reason, '']
    found = False
    tmp = tempfile.mkdtemp(prefix='mpir-replay.')
    try:
        exe, err = native_build(u, tmp)
        if exe is None:
            lines.append('native evaluation not possible: ' + err)
        else:
            cmd = [exe, fn, str(seed), str(u.get('replay_budget', 400000))]
            try:
                p = subprocess.run(cmd, capture_output=True, text=True, timeout=300)
                out = p.stdout[-6000:]
                rc = p.returncode
                if rc < 0 or rc > 3:
                    out += '\nFAIL %s: the native run on the real code terminated abnormally (status %d: %s) - memory corruption or abort inside the library' % (fn, rc, (p.stderr or '').strip()[-200:])
                    rc = 1
            except subprocess.TimeoutExpired:
                out, rc = 'TIMEOUT', 2
            lines += ['native evaluation of the contract on the real code (gcc-built %s + /verif/replay/native.c):' % u['source'],
                      'command: native %s %d %d' % (fn, seed, u.get('replay_budget', 400000)), out]
            found = rc == 1 and 'FAIL' in out
    finally:
        shutil.rmtree(tmp, ignore_errors=True)
    with open(path, 'w') as f:
        f.write('\n'.join(lines) + '\n')
    return path, found
