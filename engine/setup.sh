#!/bin/sh
# MANIFEST.setup_cmd: offline, from files on disk only.  Nothing is compiled for the framework itself
# (python3 stdlib + cbmc/goto-cc/goto-instrument/kissat/gcc); this only checks the tools and that /repo has the
# configure-generated headers the preprocessing step needs (config.h, mpir.h, gmp-mparam.h, longlong_pre/post.h).
set -e
REPO=${VERIF_REPO:-/repo}
for t in python3 gcc cbmc goto-cc goto-instrument kissat; do
  command -v $t >/dev/null || { echo "setup: missing tool $t"; exit 1; }
done
if [ ! -f $REPO/config.h ] || [ ! -f $REPO/mpir.h ] || [ ! -f $REPO/gmp-mparam.h ]; then
  echo "setup: /repo not configured; running ./configure (offline)"
  (cd $REPO && ./configure >/dev/null 2>&1) || { echo "setup: configure failed"; exit 1; }
fi
# always bring the library up to date with the working tree (incremental make: seconds when nothing changed).  The archive in a restored
# sandbox can be OLDER than the sources (it predated the fix: commits), and native replays / bounded units link everything they do not
# compile themselves from it.
echo "setup: make libmpir.la (incremental)"
(cd $REPO && make -j16 libmpir.la >/dev/null 2>&1) || echo "setup: library build failed (native replay unavailable; proofs unaffected)"
mkdir -p "$(dirname "$0")/../evidence" "$(dirname "$0")/../replay/out"
echo "setup: ok (cbmc $(cbmc --version))"
