#!/usr/bin/env python3
"""weave.py -- loop-cut weaver for preprocessed C (DESIGN.md 3.1/3.2).

Input : the gcc -E output of a real /repo translation unit (with # line markers).
Output: the same text where, for each function named in the spec,
          * the contract header include is inserted before the first such function,
          * 'entry' ghost code is inserted right after the function's opening brace,
          * each loop that has a spec is replaced by its inductive cut.
Nothing else is touched.  Every loop of a woven function must either have a
spec or be listed as 'unwind' (left as is, closed by --unwind + unwinding
assertions); otherwise WeaveError (exit 2 upstream, never a violation).
"""
import re

class WeaveError(Exception):
    pass

TOK = re.compile(r'''
    (?P<ws>[ \t\r\f\v]+)
  | (?P<nl>\n)
  | (?P<str>"(?:[^"\\\n]|\\.)*")
  | (?P<chr>'(?:[^'\\\n]|\\.)*')
  | (?P<id>[A-Za-z_$][A-Za-z_0-9$]*)
  | (?P<num>\.?[0-9](?:[eEpP][+-]|[A-Za-z_0-9.])*)
  | (?P<op>\.\.\.|<<=|>>=|->|\+\+|--|<<|>>|<=|>=|==|!=|&&|\|\||[-+*/%&|^]=|[][(){};,<>=!~+\-*/%&|^?:.\#@\\])
''', re.X)

def tokenize(text):
    """-> list of (kind, text, start, end); linemarker lines ('# 12 "f"') are skipped."""
    toks = []
    i, n = 0, len(text)
    bol = True
    while i < n:
        if bol and text[i] == '#':
            j = text.find('\n', i)
            if j < 0:
                j = n
            i = j
            continue
        m = TOK.match(text, i)
        if not m:
            raise WeaveError('cannot tokenize at offset %d: %r' % (i, text[i:i+30]))
        k = m.lastgroup
        if k == 'nl':
            bol = True
        elif k != 'ws':
            bol = False
            toks.append((k, m.group(), m.start(), m.end()))
        i = m.end()
    return toks

OPEN = {'(': ')', '{': '}', '[': ']'}

def match(toks, i):
    """toks[i] is an opener; return index of its closer."""
    depth = 0
    o = toks[i][1]
    c = OPEN[o]
    j = i
    while j < len(toks):
        t = toks[j][1]
        if t == o:
            depth += 1
        elif t == c:
            depth -= 1
            if depth == 0:
                return j
        j += 1
    raise WeaveError('unbalanced %s' % o)

def find_function(toks, name):
    """index range (i_name, i_lbrace, i_rbrace) of the definition of `name` at file scope."""
    depth = 0
    i = 0
    n = len(toks)
    while i < n:
        t = toks[i][1]
        if t == '{':
            # skip whole brace groups at file scope (struct bodies, other function bodies)
            i = match(toks, i) + 1
            continue
        if toks[i][0] == 'id' and t == name and i + 1 < n and toks[i+1][1] == '(':
            j = match(toks, i + 1) + 1
            # skip attributes / asm labels between ')' and '{'
            while j < n and toks[j][0] == 'id' and toks[j][1] in ('__attribute__', '__asm__', '__asm', 'asm', '__extension__'):
                if j + 1 < n and toks[j+1][1] == '(':
                    j = match(toks, j + 1) + 1
                else:
                    j += 1
            if j < n and toks[j][1] == '{':
                return i, j, match(toks, j)
        i += 1
    raise WeaveError('function %s: definition not found in preprocessed text' % name)

def decl_start(toks, i_name):
    """offset where the declaration containing the function name starts (after previous ';' or '}')."""
    j = i_name - 1
    while j >= 0 and toks[j][1] not in (';', '}'):
        j -= 1
    return toks[j][3] if j >= 0 else 0

class Loop:
    __slots__ = ('kind', 'kw', 'cond', 'body', 'init', 'incr', 'end', 'ordinal')
    # all fields are token-index ranges (inclusive start, exclusive end) except kw/end indices

def parse_stmt(toks, i, loops):
    """parse one statement starting at token i; return index after it. Collect loops pre-order."""
    k, t = toks[i][0], toks[i][1]
    if t == '{':
        j = match(toks, i)
        p = i + 1
        while p < j:
            p = parse_stmt(toks, p, loops)
        return j + 1
    if k == 'id' and t == 'if':
        j = match(toks, i + 1) + 1
        j = parse_stmt(toks, j, loops)
        if j < len(toks) and toks[j][1] == 'else':
            j = parse_stmt(toks, j + 1, loops)
        return j
    if k == 'id' and t == 'switch':
        j = match(toks, i + 1) + 1
        return parse_stmt(toks, j, loops)
    if k == 'id' and t in ('while', 'for'):
        L = Loop()
        L.kind = t
        L.kw = i
        rp = match(toks, i + 1)
        if t == 'while':
            L.cond = (i + 2, rp)
            L.init = L.incr = None
        else:
            # split at top-level ';'
            parts = []
            s = i + 2
            d = 0
            for p in range(i + 2, rp):
                x = toks[p][1]
                if x in OPEN:
                    d += 1
                elif x in (')', '}', ']'):
                    d -= 1
                elif x == ';' and d == 0:
                    parts.append((s, p))
                    s = p + 1
            parts.append((s, rp))
            if len(parts) != 3:
                raise WeaveError('for header with %d parts' % len(parts))
            L.init, L.cond, L.incr = parts
        loops.append(L)
        j = parse_stmt(toks, rp + 1, loops)
        L.body = (rp + 1, j)
        L.end = j
        return j
    if k == 'id' and t == 'do':
        L = Loop()
        L.kind = 'do'
        L.kw = i
        L.init = L.incr = None
        loops.append(L)
        j = parse_stmt(toks, i + 1, loops)
        L.body = (i + 1, j)
        if toks[j][1] != 'while':
            raise WeaveError('do without while')
        rp = match(toks, j + 1)
        L.cond = (j + 2, rp)
        if toks[rp + 1][1] != ';':
            raise WeaveError('do-while without ;')
        L.end = rp + 2
        return rp + 2
    if k == 'id' and t in ('case',):
        # case expr :
        j = i + 1
        d = 0
        while not (toks[j][1] == ':' and d == 0):
            if toks[j][1] == '?':
                d += 1
            elif toks[j][1] == ':':
                d -= 1
            j += 1
        return parse_stmt(toks, j + 1, loops)
    if k == 'id' and t == 'default' and toks[i+1][1] == ':':
        return parse_stmt(toks, i + 2, loops)
    if k == 'id' and toks[i+1][1] == ':' and t not in ('case', 'default'):
        # label; a label may be directly followed by '}'
        if toks[i+2][1] == '}':
            return i + 2
        return parse_stmt(toks, i + 2, loops)
    # simple statement or declaration: up to ';' at depth 0
    j = i
    d = 0
    while True:
        x = toks[j][1]
        if x in OPEN:
            if x == '{' and d > 0 and toks[j-1][1] == '(':
                # statement expression ({ ... }): parse inside for loops
                e = match(toks, j)
                p = j + 1
                while p < e:
                    p = parse_stmt(toks, p, loops)
                j = e + 1
                continue
            d += 1
        elif x in (')', '}', ']'):
            d -= 1
        elif x == ';' and d == 0:
            return j + 1
        j += 1

def function_loops(toks, lb, rb):
    loops = []
    p = lb + 1
    while p < rb:
        p = parse_stmt(toks, p, loops)
    loops.sort(key=lambda L: L.kw)
    # cross-check against a plain keyword count
    kws = 0
    for p in range(lb, rb):
        if toks[p][0] == 'id' and toks[p][1] in ('for', 'do'):
            kws += 1
        elif toks[p][0] == 'id' and toks[p][1] == 'while':
            kws += 1
    kws -= sum(1 for L in loops if L.kind == 'do')   # the 'while' of each do-while
    if kws != len(loops):
        raise WeaveError('loop parser found %d loops, keyword count says %d' % (len(loops), kws))
    # 'do { ... } while (0)' (macro wrappers, empty ASSERTs) is not a loop: left in place, not numbered
    real = []
    for L in loops:
        c = [toks[p][1] for p in range(L.cond[0], L.cond[1])]
        if L.kind == 'do' and c == ['0']:
            continue
        real.append(L)
    for n, L in enumerate(real):
        L.ordinal = n
    return real

def span_text(text, toks, rng):
    a, b = rng
    if a >= b:
        return ''
    return text[toks[a][2]:toks[b-1][3]]

ASSIGN_OPS = {'=', '+=', '-=', '*=', '/=', '%=', '&=', '|=', '^=', '<<=', '>>='}

def assigned_idents(toks, a, b):
    """identifiers that are syntactically assigned / inc-decremented / address-taken in toks[a:b]
    as plain variables (x = .., x op= .., ++x, x++, &x).  Writes through *p, p[i], p->f, s.f are
    memory writes (covered by the object havoc), but the *base* of s.f = .. is reported too."""
    out = set()
    for p in range(a, b):
        k, t = toks[p][0], toks[p][1]
        if k != 'id':
            continue
        prev = toks[p-1][1] if p > a else ''
        nxt = toks[p+1][1] if p + 1 < b else ''
        if prev in ('.', '->'):
            continue
        if nxt in ASSIGN_OPS or nxt in ('++', '--'):
            # exclude *x = and x[...] = handled since nxt would be '[' ; '*x = v' writes memory, not x
            # but '*x++ = v' has nxt '++' -> x modified: correct.
            if prev == '*' and nxt in ASSIGN_OPS and not _is_binary_star(toks, p - 1, a):
                continue
            out.add(t)
        elif prev in ('++', '--'):
            out.add(t)
        elif prev == '&' and not _is_binary_amp(toks, p - 1, a):
            out.add(t)
        elif nxt == '.':
            # s.f = ...  / s.f++
            q = p + 1
            while q + 1 < b and toks[q][1] == '.' and toks[q+1][0] == 'id':
                q += 2
            if q < b and (toks[q][1] in ASSIGN_OPS or toks[q][1] in ('++', '--')):
                out.add(t)
    return out

def _is_binary_star(toks, p, a):
    if p <= a:
        return False
    k, t = toks[p-1][0], toks[p-1][1]
    return k in ('id', 'num') and t not in ('return', 'case', 'else', 'do') or t in (')', ']')

def _is_binary_amp(toks, p, a):
    return _is_binary_star(toks, p, a)

def rewrite_jumps(text, toks, rng, brk, cont):
    """text of toks[rng] with this loop's own break/continue replaced by gotos.
    Nested loops must already have been cut (no loop keywords left) unless they are 'unwind' loops,
    in which case their break/continue belong to them and are left alone."""
    a, b = rng
    if a >= b:
        return ''
    out = []
    pos = toks[a][2]
    # find regions belonging to nested loops / switches
    skip_break = []   # token ranges where 'break' is not ours
    skip_cont = []
    p = a
    while p < b:
        t = toks[p][1]
        if toks[p][0] == 'id' and t in ('for', 'while', 'do', 'switch'):
            tmp = []
            e = parse_stmt(toks, p, tmp)
            if t == 'switch':
                skip_break.append((p, e))
                # loops nested in the switch own their continue as well
                for L in tmp:
                    skip_cont.append((L.kw, L.end))
            else:
                skip_break.append((p, e))
                skip_cont.append((p, e))
            p = e if t != 'switch' else p + 1
            continue
        p += 1
    def inside(p, regions):
        return any(x <= p < y for x, y in regions)
    for p in range(a, b):
        if toks[p][0] == 'id' and toks[p][1] == 'break' and not inside(p, skip_break):
            out.append(text[pos:toks[p][2]])
            out.append('goto %s' % brk)
            pos = toks[p][3]
        elif toks[p][0] == 'id' and toks[p][1] == 'continue' and not inside(p, skip_cont):
            out.append(text[pos:toks[p][2]])
            out.append('goto %s' % cont)
            pos = toks[p][3]
    out.append(text[pos:toks[b-1][3]])
    return ''.join(out)

def cut_loop(text, toks, L, fname, spec, uid):
    """return replacement text for loop L according to spec (dict)."""
    tag = '%s.loop%d' % (fname, L.ordinal)
    spec = dict((k, (re.sub(r'/\*.*?\*/', '', v, flags=re.S) if isinstance(v, str) else v)) for k, v in spec.items())
    inv = spec['inv']
    dec = spec.get('dec')
    lab_c = 'V_cont_%s' % uid
    lab_x = 'V_exit_%s' % uid
    body = rewrite_jumps(text, toks, L.body, lab_x, lab_c)
    cond = span_text(text, toks, L.cond).strip() or '1'
    init = span_text(text, toks, L.init) if L.init else ''
    incr = span_text(text, toks, L.incr) if L.incr else ''
    # soundness check of the scalar havoc set
    rngs = [L.body, L.cond] + ([L.incr] if L.incr else [])
    assigned = set()
    for a, b in rngs:
        assigned |= assigned_idents(toks, a, b)
    declared = set(spec.get('scalars', [])) | set(spec.get('havoc_targets', [])) | set(spec.get('local_to_body', []))
    missing = set(x for x in assigned - declared if not (x.startswith('V_dec0_') or x == 'V_nd'))
    if missing:
        raise WeaveError('%s: assigned in loop but not in spec (scalars/havoc_targets/local_to_body): %s'
                         % (tag, ' '.join(sorted(missing))))
    hv = []
    for s in spec.get('scalars', []):
        hv.append('{ __typeof__(%s) V_nd; %s = V_nd; }' % (s, s))
    if spec.get('havoc'):
        hv.append(spec['havoc'])
    for o in spec.get('objects', []):
        hv.append('__CPROVER_havoc_object((void*)(%s));' % o)
    for o, sz in spec.get('slices', []):
        hv.append('if ((%s) > 0) __CPROVER_havoc_slice((void*)(%s), (%s));' % (sz, o, sz))
    A = lambda c, what: '__CPROVER_assert(%s, "%s %s");' % (c, spec.get('props', ''), tag + '.' + what)
    # The custom havoc's range restriction is an assumption about which head states exist.  It is turned into an OBLIGATION: the same
    # condition, with each fresh parameter replaced by its inverse (spec 'havoc_inv': {'V_d': '(p - base)'}), must hold of the entry state
    # and of the state after one iteration - otherwise head states (typically the loop's normal exit state) would be silently cut off.
    cover = []
    if spec.get('havoc'):
        fresh = re.findall(r'\blong\s+(V_\w+)\s*=\s*nondet_long\s*\(\s*\)', spec['havoc'])
        hinv = spec.get('havoc_inv', {})
        for m in re.finditer(r'__CPROVER_assume\s*\(', spec['havoc']):
            j = m.end(); depth = 1
            while depth:
                depth += {'(': 1, ')': -1}.get(spec['havoc'][j], 0); j += 1
            c = spec['havoc'][m.end():j - 1]
            for v in fresh:
                if re.search(r'\b%s\b' % v, c):
                    if v not in hinv:
                        raise WeaveError('%s: custom havoc restricts fresh parameter %s but the spec gives no havoc_inv for it' % (tag, v))
                    c = re.sub(r'\b%s\b' % v, '(%s)' % hinv[v], c)
            cover.append(c)
    back = []
    back.append(A(inv, 'step: invariant preserved'))
    for c in cover:
        back.append(A(c, 'step: havoc range covers the state after one iteration'))
    if dec:
        back.append(A('0 <= (long)(%s) && (long)(%s) < V_dec0_%s' % (dec, dec, uid), 'decreases: variant strictly decreases and is bounded below'))
    back.append('__CPROVER_assume(0);')
    pre = [spec.get('snap', ''),
           A(inv, 'base: invariant holds on entry'),
           ' '.join(A(c, 'base: havoc range covers the entry state') for c in cover),
           ' '.join(hv),
           '__CPROVER_assume(%s);' % inv]
    if dec:
        pre.append('long V_dec0_%s = (long)(%s);' % (uid, dec))
    begin = spec.get('begin', '')
    end = spec.get('end', '')
    after = spec.get('after', '')
    o = []
    o.append('{ /* woven cut: %s */' % tag)
    if L.kind == 'for' and init.strip():
        o.append(init + ';')
    o.extend(pre)
    if L.kind == 'do':
        o.append(begin)
        o.append(body)
        o.append('%s: ;' % lab_c)
        o.append(end)
        o.append('if (%s) { %s }' % (cond, ' '.join(back)))
    else:
        if spec.get('head'):
            o.append(spec['head'])          # ghost text evaluated at the loop head BEFORE the condition (conditions with side effects)
        o.append('if (%s) {' % cond)
        o.append(begin)
        o.append(body)
        o.append('%s: ;' % lab_c)
        if spec.get('incr_as'):
            # the increment leaves the variable one step outside its object on the last round (`for (s = end; s >= str; s--)`: ISO C
            # undefined, flat-memory semantics with gcc).  The unit states an equivalent well-defined form: `exit_when` is tested
            # BEFORE the increment and leaves the loop; the loop variable must be dead after the loop (stated in the unit's assumptions).
            if re.sub(r'\s+', '', incr) != re.sub(r'\s+', '', spec['incr_as']['incr']) or re.sub(r'\s+', '', cond) != re.sub(r'\s+', '', spec['incr_as']['cond']):
                raise WeaveError('%s: incr_as does not match the loop header (%r ; %r)' % (tag, cond, incr))
            o.append('if (%s) goto %s;' % (spec['incr_as']['exit_when'], lab_x))
            o.append(incr + ';')
        elif incr.strip():
            o.append(incr + ';')
        o.append(end)
        o.append(' '.join(back))
        o.append('}')
    o.append('%s: ;' % lab_x)
    o.append(after)
    o.append('}')
    return '\n'.join(x for x in o if x != '')

def weave(text, spec):
    """spec = { 'insert_before_first': '<text>',
                'functions': { fname: { 'entry': '<text>', 'loops': { ordinal: loopspec | 'unwind' } } } }
       returns (woven text, report dict)"""
    report = {'functions': {}}
    # process functions from the last to the first so offsets of earlier ones stay valid
    toks = tokenize(text)
    order = []
    for fname in spec['functions']:
        i, lb, rb = find_function(toks, fname)
        order.append((toks[i][2], fname))
    order.sort(reverse=True)
    first_decl_off = None
    for _, fname in order:
        fs = spec['functions'][fname]
        toks = tokenize(text)
        i, lb, rb = find_function(toks, fname)
        # ghost insertions anchored by regex (must-fire rules): each pattern must match exactly once in
        # the function text and the replacement must keep the matched text (\\g<0>) verbatim.
        for pat, rep in fs.get('inserts', []):
            a, b = toks[lb][2], toks[rb][3]
            body = text[a:b]
            if '\\g<0>' not in rep:
                raise WeaveError('%s: insert rule %r does not keep the matched text' % (fname, pat))
            rep = re.sub(r'/\*.*?\*/', '', rep)          # the tokenizer knows no comments: none may enter the woven text
            nb, cnt = re.subn(pat, rep, body)
            if cnt != 1:
                raise WeaveError('%s: insert anchor %r matched %d times (must be exactly 1)' % (fname, pat, cnt))
            text = text[:a] + nb + text[b:]
            toks = tokenize(text)
            i, lb, rb = find_function(toks, fname)
        # stated rewrites of a non-ISO idiom into the equivalent well-defined expression (must match exactly once; every rewrite is
        # listed with its reason in the unit's assumptions by the unit author): the verified text differs from the real text in exactly these spots
        for pat, rep, reason in fs.get('rewrites', []):
            a, b = toks[lb][2], toks[rb][3]
            body = text[a:b]
            nb, cnt = re.subn(pat, rep, body)
            if cnt != 1:
                raise WeaveError('%s: rewrite anchor %r matched %d times (must be exactly 1)' % (fname, pat, cnt))
            text = text[:a] + nb + text[b:]
            toks = tokenize(text)
            i, lb, rb = find_function(toks, fname)
            report.setdefault('rewrites', []).append('%s: %s' % (fname, reason))
        loops = function_loops(toks, lb, rb)
        lspecs = fs.get('loops', {})
        n_loops = len(loops)
        extra = [k for k in lspecs if not (isinstance(k, int) and 0 <= k < n_loops)]
        if extra:
            raise WeaveError('%s: spec names loops %s but the function has %d loops' % (fname, extra, n_loops))
        if 'nloops' in fs and fs['nloops'] != n_loops:
            raise WeaveError('%s: spec expects %d loops, function has %d' % (fname, fs['nloops'], n_loops))
        unspec = [L.ordinal for L in loops if L.ordinal not in lspecs]
        if unspec:
            raise WeaveError('%s: loops without spec: %s (of %d)' % (fname, unspec, n_loops))
        rep = {'loops': n_loops, 'cut': [], 'unwound': []}
        # cut from the last loop to the first (inner loops come after their outer keyword)
        for ordn in range(n_loops - 1, -1, -1):
            ls = lspecs[ordn]
            if ls == 'unwind' or (isinstance(ls, dict) and ls.get('unwind')):
                rep['unwound'].append(ordn)
                continue
            toks = tokenize(text)
            i, lb, rb = find_function(toks, fname)
            cur = function_loops(toks, lb, rb)
            # remaining loops: those not yet cut; ordinal ordn is the (ordn - already cut before it)...
            # loops before ordn are all still present, so index ordn is stable.
            L = cur[ordn]
            L.ordinal = ordn
            uid = '%s_%d' % (re.sub(r'\W', '_', fname), ordn)
            if ls == 'unreachable':
                # the unit's precondition excludes this loop: it becomes an assertion that it is never reached (sound: reaching it fails)
                new = '{ __CPROVER_assert (0, "%s.loop%d: declared unreachable in this unit"); __CPROVER_assume (0); }' % (fname, ordn)
            else:
                new = cut_loop(text, toks, L, fname, ls, uid)
            a = toks[L.kw][2]
            b = toks[L.end - 1][3]
            text = text[:a] + new + text[b:]
            rep['cut'].append(ordn)
        # entry code
        toks = tokenize(text)
        i, lb, rb = find_function(toks, fname)
        if fs.get('exit'):
            # ghost code before the closing brace is only reached on fall-through; for functions with
            # 'return' statements use 'after' of loops instead.
            text = text[:toks[rb][2]] + fs['exit'] + '\n' + text[toks[rb][2]:]
        if fs.get('entry'):
            p = toks[lb][3]
            text = text[:p] + '\n' + re.sub(r'/\*.*?\*/', '', fs['entry'], flags=re.S) + '\n' + text[p:]
        report['functions'][fname] = rep
    # contract header before the earliest woven/enforced function
    if spec.get('insert_before_first'):
        toks = tokenize(text)
        offs = []
        for fname in list(spec['functions']) + list(spec.get('anchor_functions', [])):
            try:
                i, lb, rb = find_function(toks, fname)
            except WeaveError:
                if fname in spec['functions']:
                    raise
                continue
            offs.append(decl_start(toks, i))
        if not offs:
            raise WeaveError('no anchor function found for contract insertion')
        p = min(offs)
        text = text[:p] + '\n' + spec['insert_before_first'] + '\n' + text[p:]
    return text, report

def function_text(text, fname):
    toks = tokenize(text)
    i, lb, rb = find_function(toks, fname)
    return toks[lb][2], toks[rb][3]

if __name__ == '__main__':
    import sys
    t = open(sys.argv[1]).read()
    toks = tokenize(t)
    i, lb, rb = find_function(toks, sys.argv[2])
    for L in function_loops(toks, lb, rb):
        print(L.ordinal, L.kind, repr(span_text(t, toks, L.cond)[:60]), sorted(assigned_idents(toks, L.body[0], L.body[1])))
