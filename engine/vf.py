#!/usr/bin/env python3
"""vf.py -- contract-verification driver for MPIR (DESIGN.md section 3).

  vf.py unit  <unit> [--keep] [--mutant N] [--verbose]       run one unit, print obligations
  vf.py check <PROP> [--tier quick|thorough]                 run every unit serving PROP, write evidence
  vf.py selftest [<unit> ...]                                every unit's must-fail mutants
  vf.py list                                                 units and the properties they serve

Exit codes: 0 all obligations discharged; 1 VIOLATION (a FAILED obligation); 2 undecided
(time-out, weaver abort, tool error) -- never reported as a violation.
"""
import sys, os, re, json, time, subprocess, shutil, tempfile, importlib.util, resource, hashlib
from concurrent.futures import ThreadPoolExecutor

HERE = os.path.dirname(os.path.abspath(__file__))
VERIF = os.path.dirname(HERE)
REPO = os.environ.get('VERIF_REPO', '/repo')
sys.path.insert(0, HERE)
import weave as W

CBMC_BASE = ['--pointer-check', '--bounds-check', '--signed-overflow-check',
             '--div-by-zero-check', '--undefined-shift-check', '--pointer-primitive-check']
SOLVER = {'kissat': ['--external-sat-solver', 'kissat'], 'cadical': ['--sat-solver', 'cadical'], 'minisat': []}[os.environ.get('VERIF_SOLVER', 'kissat')]
MEM_KB = int(os.environ.get('VERIF_MEM_KB', str(14 * 1024 * 1024)))     # per process; a CaDiCaL fallback run once grew to 20 GB and triggered the global OOM killer

def _limits(kb=None):
    kb = kb or MEM_KB
    resource.setrlimit(resource.RLIMIT_AS, (kb * 1024, kb * 1024))
    os.setsid()

def run(cmd, timeout, cwd=None, inp=None, mem_kb=None):
    t0 = time.time()
    try:
        p = subprocess.Popen(cmd, stdout=subprocess.PIPE, stderr=subprocess.PIPE, cwd=cwd, preexec_fn=(lambda: _limits(mem_kb)),
                             stdin=subprocess.PIPE if inp is not None else None)
        try:
            out, err = p.communicate(inp, timeout=timeout)
        except subprocess.TimeoutExpired:
            try:
                os.killpg(p.pid, 9)
            except Exception:
                p.kill()
            out, err = p.communicate()
            return 'timeout', out.decode('utf8', 'replace'), err.decode('utf8', 'replace'), time.time() - t0
        return p.returncode, out.decode('utf8', 'replace'), err.decode('utf8', 'replace'), time.time() - t0
    except OSError as e:
        return 'oserror', '', str(e), time.time() - t0

# ----------------------------------------------------------------------------- units

def load_units():
    units = {}
    d = os.path.join(VERIF, 'units')
    for fn in sorted(os.listdir(d)):
        if not fn.endswith('.py') or fn.startswith('_'):
            continue
        spec = importlib.util.spec_from_file_location('unit_' + fn[:-3], os.path.join(d, fn))
        m = importlib.util.module_from_spec(spec)
        sys.path.insert(0, d)
        try:
            spec.loader.exec_module(m)
        finally:
            sys.path.pop(0)
        for u in getattr(m, 'UNITS', []):
            if u['name'] in units:
                raise SystemExit('duplicate unit ' + u['name'])
            u['file'] = fn
            units[u['name']] = u
    return units

# ----------------------------------------------------------------------------- pipeline

def build_shim(tmp):
    sd = os.path.join(tmp, 'shim')
    os.makedirs(sd, exist_ok=True)
    pre = open(os.path.join(REPO, 'longlong_pre.h')).read()
    post = open(os.path.join(REPO, 'longlong_post.h')).read()
    mod = open(os.path.join(VERIF, 'shim', 'longlong_models.h')).read()
    with open(os.path.join(sd, 'longlong.h'), 'w') as f:
        f.write(pre + '\n' + mod + '\n' + post)
    return sd

def preprocess(u, tmp, shim):
    src = os.path.join(REPO, u['source'])
    if not os.path.exists(src):
        raise W.WeaveError('source file %s missing' % src)
    if os.path.dirname(os.path.abspath(src)) == os.path.abspath(REPO):
        # a top-level source would pick up /repo/longlong.h (the configure-generated one with the x86 asm) from its own directory
        # before any -I: preprocess it through a mirror directory of symlinks that lacks longlong.h
        top = os.path.join(tmp, 'top')
        if not os.path.isdir(top):
            os.makedirs(top)
            for fn in os.listdir(REPO):
                if fn != 'longlong.h' and os.path.isfile(os.path.join(REPO, fn)):
                    os.symlink(os.path.join(REPO, fn), os.path.join(top, fn))
        src = os.path.join(top, os.path.basename(src))
    cmd = ['gcc', '-E', '-I' + shim, '-I' + os.path.join(VERIF, 'shim'), '-I' + REPO,
           '-I' + os.path.dirname(src), '-DHAVE_CONFIG_H', '-D__GMP_WITHIN_GMP', '-DMPIR_VERIF'] + \
          list(u.get('cppflags', [])) + [src]
    rc, out, err, dt = run(cmd, 120)
    if rc != 0:
        raise W.WeaveError('preprocess failed: ' + err[-2000:])
    out = out.replace(os.path.join(tmp, 'top') + '/', REPO.rstrip('/') + '/')
    if re.search(r'__asm__\s*\(\s*"(mulq|divq|bsrq|bsfq|addq|subq|bswap)', out):
        raise W.WeaveError('x86 inline asm of longlong.h survived preprocessing (shim not in effect)')
    return out

def contracts_include(u):
    s = ['#include "%s"' % os.path.join(VERIF, 'contracts', 'common.h')]
    for h in u.get('contracts', []):
        s.append('#include "%s"' % os.path.join(VERIF, 'contracts', h))
    if u.get('contract_text'):
        s.append(u['contract_text'])
    return '\n'.join(s)

def make_tu(u, tmp, shim, mutant=None):
    text = preprocess(u, tmp, shim)
    if mutant is not None:
        mfun, pat, rep = mutant
        a, b = W.function_text(text, mfun)
        body = text[a:b]
        nb, n = re.subn(pat, rep, body, count=1)
        if n != 1:
            raise W.WeaveError('selftest mutant pattern %r not found in %s' % (pat, mfun))
        text = text[:a] + nb + text[b:]
    funcs = {}
    for f, fs in u.get('functions', {}).items():
        funcs[f] = fs
    for f in u.get('enforce', []):
        funcs.setdefault(f, {})
    spec = {'insert_before_first': contracts_include(u), 'functions': {}, 'anchor_functions': u.get('anchor', [])}
    for f, fs in funcs.items():
        loops = {}
        for k, ls in fs.get('loops', {}).items():
            if isinstance(ls, dict):
                ls = dict(ls)
                ls.setdefault('props', ''.join('[%s]' % p for p in u['props']))
            loops[k] = ls
        d = {'loops': loops}
        for k in ('entry', 'exit', 'nloops', 'inserts', 'rewrites'):
            if k in fs:
                d[k] = fs[k]
        spec['functions'][f] = d
    woven, report = W.weave(text, spec)
    tu = woven + '\n\n/* ---- harness ---- */\n' + u.get('harness', '') + '\n'
    path = os.path.join(tmp, u['name'] + '.c')
    with open(path, 'w') as f:
        f.write(tu)
    return path, report

RES_LINE = re.compile(r'^\[([^\]]+)\] (?:line (\d+) )?(.*): (SUCCESS|FAILURE|UNKNOWN|ERROR)$')
HDR_LINE = re.compile(r'^(\S.*) function (\S+)$')

def parse_cbmc_text(out):
    """plain-text UI (the JSON UI was seen to drop results when a trace is attached)"""
    results = []
    cur_file = cur_fun = ''
    done = False
    msgs = []
    for ln in out.splitlines():
        m = RES_LINE.match(ln)
        if m:
            results.append({'property': m.group(1), 'description': m.group(3), 'status': m.group(4),
                            'sourceLocation': {'file': cur_file, 'line': m.group(2) or '', 'function': cur_fun}})
            continue
        h = HDR_LINE.match(ln)
        if h:
            cur_file, cur_fun = h.group(1), h.group(2)
            continue
        if ln.startswith('VERIFICATION '):
            done = True
        msgs.append(ln)
    if not done:
        return None, (None, msgs)
    return results, ('done', msgs)

TAG = re.compile(r'\[(C\d\d)\]')

# memory gate: units run in parallel threads; each declares its peak memory ('mem_gb', default 3) and waits until the sum of the running
# ones fits the budget (a few units need 8-10 GB; 14 of them at once would bring the OOM killer, which shows up as "no result")
import threading
def _mem_budget():
    try:
        kb = int([l for l in open('/proc/meminfo') if l.startswith('MemTotal')][0].split()[1])
        return max(8.0, kb / 1048576.0 * 0.72)
    except Exception:
        return 40.0
_MEM_BUDGET = float(os.environ.get('VERIF_MEM_BUDGET_GB', '0')) or _mem_budget()
_mem_used = [0.0]
_mem_cv = threading.Condition()
def _mem_acquire(w):
    w = min(w, _MEM_BUDGET)
    with _mem_cv:
        while _mem_used[0] + w > _MEM_BUDGET + 1e-9:
            _mem_cv.wait()
        _mem_used[0] += w
    return w
def _mem_release(w):
    with _mem_cv:
        _mem_used[0] -= w
        _mem_cv.notify_all()

_MEM_TABLE = None
def _mem_weight(u):
    """GB: the unit's own 'mem_gb', else 1.3 x the peak measured earlier (engine/unit_mem.json, committed, refreshed by `vf.py memsurvey`), else 3"""
    global _MEM_TABLE
    if _MEM_TABLE is None:
        try:
            _MEM_TABLE = json.load(open(os.path.join(VERIF, 'engine', 'unit_mem.json')))
        except Exception:
            _MEM_TABLE = {}
    if 'mem_gb' in u:
        return float(u['mem_gb'])
    if 'mem_limit_gb' in u:
        return float(u['mem_limit_gb'])
    mb = _MEM_TABLE.get(u['name'])
    return max(1.5, mb / 1024.0 * 1.3) if mb else 3.0

def run_unit(u, keep=False, mutant=None, timeout=None, verbose=False, trace=False):
    """one verification run; if the SAT back end does not return a verdict for every obligation (status ERROR/UNKNOWN or a
    time-out) the unit is re-run once with CBMC's built-in CaDiCaL before it is called undecided"""
    w = _mem_acquire(_mem_weight(u))
    try:
        return _run_unit_gated(u, keep, mutant, timeout, verbose, trace)
    finally:
        _mem_release(w)

def _run_unit_gated(u, keep=False, mutant=None, timeout=None, verbose=False, trace=False):
    r = _run_unit(u, keep, mutant, timeout, verbose, trace)
    bad = r['status'] == 'undecided' and ('timeout' in r['reason'] or 'no verdict' in r['reason'])
    if bad and not u.get('solver') and os.environ.get('VERIF_SOLVER', 'kissat') == 'kissat':
        u2 = dict(u)
        u2['solver'] = ['--sat-solver', 'cadical']
        r2 = _run_unit(u2, keep, mutant, timeout, verbose, trace)
        r2['reason'] = (r2['reason'] + ' [second attempt with cadical after: ' + r['reason'][:80] + ']').strip()
        r2['solver_s'] = round(r2.get('solver_s', 0) + r.get('solver_s', 0), 2)
        return r2
    return r

def run_native_unit(u, timeout=None):
    """kind='native': a BOUNDED stand-in (never counted as proof): the unit's sources are compiled by gcc from /repo's working tree,
    linked with a driver from /verif/replay and /repo/.libs/libmpir.a, and the driver enumerates a stated finite space completely"""
    t0 = time.time()
    res = {'unit': u['name'], 'props': u['props'], 'status': 'undecided', 'obligations': [], 'reason': '', 'functions': [],
           'replaced': [], 'assumptions': list(u.get('assumptions', [])), 'source': u['source'], 'solver_s': 0.0,
           'bounded': u.get('bounded', 'bounded native enumeration'), 'tmp': None, 'checker_cmd': 'gcc <sources from /repo> %s libmpir.a ; ./a.out' % u['driver']}
    tmp = tempfile.mkdtemp(prefix='mpir-verif.%s.' % u['name'], dir=os.environ.get('TMPDIR', '/tmp'))
    try:
        lib = os.path.join(REPO, '.libs', 'libmpir.a')
        if not os.path.exists(lib):
            res['reason'] = 'libmpir.a not built in /repo (run setup)'
            return res
        objs = []
        for i, sfile in enumerate([u['source']] + list(u.get('more_sources', []))):
            o = os.path.join(tmp, 's%d.o' % i)
            rc, out, err, dt = run(['gcc', '-c', '-O0', '-w', '-I' + REPO, '-I' + os.path.dirname(os.path.join(REPO, sfile)), '-DHAVE_CONFIG_H',
                                    '-D__GMP_WITHIN_GMP', os.path.join(REPO, sfile), '-o', o], 120)
            if rc != 0:
                res['reason'] = 'native compile failed: ' + err[-500:]
                return res
            objs.append(o)
        exe = os.path.join(tmp, 'a.out')
        rc, out, err, dt = run(['gcc', '-O1', '-w', '-I' + REPO, '-o', exe, os.path.join(VERIF, u['driver'])] + objs + [lib, '-lm'], 120)
        if rc != 0:
            res['reason'] = 'native link failed: ' + err[-500:]
            return res
        rc, out, err, dt = run([exe] + list(u.get('args', [])), timeout or u.get('timeout', 300))
        res['solver_s'] = round(dt, 2)
        if rc == 'timeout':
            res['reason'] = 'native driver timeout'
            return res
        ok = rc == 0 and 'PASS' in out
        res['native_output'] = out[-4000:]
        res['obligations'] = [{'id': u['name'] + '.enumeration', 'desc': u.get('desc', '') + ' :: ' + out.strip().splitlines()[-1][:300] if out.strip() else u.get('desc', ''),
                               'status': 'SUCCESS' if ok else ('FAILURE' if 'FAIL' in out else 'ERROR'), 'file': u['driver'], 'line': '', 'function': ''}]
        res['status'] = 'ok' if ok else ('fail' if 'FAIL' in out else 'undecided')
        if res['status'] == 'undecided':
            res['reason'] = 'native driver gave no verdict: ' + (out + err)[-300:]
        return res
    finally:
        res['wall_s'] = round(time.time() - t0, 2)
        shutil.rmtree(tmp, ignore_errors=True)

def _run_unit(u, keep=False, mutant=None, timeout=None, verbose=False, trace=False):
    if u.get('kind') == 'native':
        return run_native_unit(u, timeout)
    """-> dict(status=ok|fail|undecided, obligations=[...], ...)"""
    t0 = time.time()
    tmp = tempfile.mkdtemp(prefix='mpir-verif.%s.' % u['name'], dir=os.environ.get('TMPDIR', '/tmp'))
    res = {'unit': u['name'], 'props': u['props'], 'status': 'undecided', 'obligations': [], 'reason': '',
           'functions': list(u.get('enforce', [])), 'replaced': list(u.get('replace', [])),
           'assumptions': list(u.get('assumptions', [])), 'source': u['source'], 'solver_s': 0.0,
           'bounded': u.get('bounded', ''), 'tmp': tmp if keep else None}
    try:
        shim = build_shim(tmp)
        try:
            path, report = make_tu(u, tmp, shim, mutant)
        except W.WeaveError as e:
            res['reason'] = 'weave: %s' % e
            return res
        res['weave'] = report
        entry = u.get('entry', 'h_' + u['name'])
        gb = os.path.join(tmp, 'a.gb')
        extra = []
        for k, es in enumerate(u.get('extra_sources', [])):
            # further real /repo translation units (tables, helpers), preprocessed the same way and linked into the goto binary unchanged
            eu = dict(u); eu['source'] = es
            et = preprocess(eu, tmp, shim)
            ep = os.path.join(tmp, 'extra%d.c' % k)
            open(ep, 'w').write(et)
            extra.append(ep)
        rc, out, err, dt = run(['goto-cc', '-o', gb, '--function', entry, path] + extra, 300)
        if rc != 0:
            res['reason'] = 'goto-cc: ' + (err or out)[-3000:]
            return res
        gb2 = os.path.join(tmp, 'b.gb')
        cmd = ['goto-instrument', '--dfcc', entry]
        for f in u.get('enforce', []):
            cmd += ['--enforce-contract', f]
        for f in u.get('replace', []):
            cmd += ['--replace-call-with-contract', f]
        cmd += list(u.get('instrument_flags', []))
        cmd += [gb, gb2]
        if u.get('enforce') or u.get('replace'):
            rc, out, err, dt = run(cmd, 600)
            if rc != 0:
                res['reason'] = 'goto-instrument: ' + (err or out)[-3000:]
                return res
            if verbose:
                print(out[-2000:], err[-2000:])
        else:
            gb2 = gb
        tmo = timeout or u.get('timeout', 300)
        cb = ['cbmc'] + [f for f in CBMC_BASE if f not in u.get('drop_checks', [])] + list(u.get('cbmc_flags', []))
        if trace:
            cb.append('--trace')
        if u.get('unwind'):
            cb += ['--unwind', str(u['unwind']), '--unwinding-assertions']
        cb += u.get('solver', SOLVER)
        cb.append(gb2)
        res['checker_cmd'] = ' '.join(cmd[:-2]) + ' ; ' + ' '.join(cb[:-1])
        timed = ['/usr/bin/time', '-f', 'VERIF_MAXRSS_KB %M'] if os.path.exists('/usr/bin/time') else []
        rc, out, err, dt = run(timed + cb, tmo, mem_kb=(int(u['mem_limit_gb'] * 1024 * 1024) if u.get('mem_limit_gb') else None))
        res['solver_s'] = round(dt, 2)
        mm = re.search(r'VERIF_MAXRSS_KB (\d+)', err or '')
        if mm:
            res['peak_mb'] = int(mm.group(1)) // 1024          # largest process of the cbmc run (cbmc itself or the external SAT solver)
            err = err.replace(mm.group(0), '').strip()
        if rc == 'timeout':
            res['reason'] = 'cbmc timeout after %ds' % tmo
            return res
        results, st = parse_cbmc_text(out)
        if results is None:
            res['reason'] = 'cbmc: no result (rc=%s) %s' % (rc, (err or out)[-1500:])
            return res
        if keep:
            open(os.path.join(tmp, 'cbmc.txt'), 'w').write(out)
        obs = []
        nfail = 0
        for r in results:
            sl = r.get('sourceLocation', {})
            o = {'id': r.get('property'), 'desc': r.get('description', ''), 'status': r.get('status'),
                 'file': sl.get('file', ''), 'line': sl.get('line', ''), 'function': sl.get('function', '')}
            if o['status'] == 'FAILURE' and any(re.search(w, o['desc']) for w in u.get('waive', [])):
                # an obligation about a C idiom that is not a listed property (stated verbatim in the unit's assumptions): recorded, not counted
                o['status'] = 'WAIVED'
                res.setdefault('waived', []).append(o['id'])
                continue
            if o['status'] == 'FAILURE':
                nfail += 1
                if 'trace' in r:
                    o['trace'] = r['trace']
            obs.append(o)
        res['obligations'] = obs
        if trace:
            keep_l = []
            on = False
            for ln in out.splitlines():
                if ln.startswith('Trace for '):
                    on = True
                    keep_l.append(ln)
                    continue
                if on and ln.startswith('  ') and '=' in ln and not re.match(r'\s+(__CPROVER|tmp_|return_value___CPROVER|write_set|car|obj_set|idx|elem|max_|dfcc|__caller|__write)', ln):
                    keep_l.append(ln.split(' (')[0][:200])
                if on and ln.startswith('Violated property'):
                    keep_l.append(ln)
                if len(keep_l) > 400:
                    break
            res['trace_excerpt'] = '\n'.join(keep_l)
        if not obs:
            res['reason'] = 'vacuous: zero obligations generated'
            return res
        if any('ignoring' in m for m in (st[1] if st else [])):
            res['reason'] = 'cbmc ignored a quantifier'
            return res
        nund = sum(1 for o in obs if o['status'] not in ('SUCCESS', 'FAILURE'))
        if nund and not nfail:
            res['reason'] = 'no verdict for %d obligations (solver status %s)' % (nund, sorted(set(o['status'] for o in obs if o['status'] not in ('SUCCESS', 'FAILURE'))))
            res['status'] = 'undecided'
            return res
        res['status'] = 'fail' if nfail else 'ok'
        return res
    finally:
        res['wall_s'] = round(time.time() - t0, 2)
        if not keep:
            shutil.rmtree(tmp, ignore_errors=True)

def fmt_ob(o):
    return '%s %s:%s %s: %s' % (o['status'], os.path.relpath(o['file'], REPO) if o['file'].startswith(REPO) else os.path.basename(o['file']), o['line'], o['id'], o['desc'])

# ----------------------------------------------------------------------------- commands

def cmd_unit(args):
    units = load_units()
    name = args[0]
    u = units[name]
    keep = '--keep' in args
    mutant = None
    if '--mutant' in args:
        mutant = u['selftest'][int(args[args.index('--mutant') + 1])]
    r = run_unit(u, keep=keep, mutant=mutant, verbose='--verbose' in args, trace='--trace' in args)
    n = len(r['obligations'])
    f = [o for o in r['obligations'] if o['status'] == 'FAILURE']
    print('unit %s: %s  obligations=%d failed=%d solver=%.1fs wall=%.1fs peak=%sMB %s' %
          (name, r['status'], n, len(f), r['solver_s'], r['wall_s'], r.get('peak_mb', '?'), r['reason']))
    if '--all' in args:
        for o in r['obligations']:
            print('  ' + fmt_ob(o))
    for o in f:
        print('  ' + fmt_ob(o))
    if keep:
        print('kept:', r['tmp'])
    return {'ok': 0, 'fail': 1}.get(r['status'], 2)

def cmd_list(args):
    for n, u in load_units().items():
        print('%-28s %-24s %s' % (n, ' '.join(u['props']), u['source']))
    return 0

def cmd_selftest(args):
    units = load_units()
    names = [a for a in args if not a.startswith('-')] or list(units)
    jobs = []
    for n in names:
        if units[n].get('tier') == 'off' and n not in args:
            continue
        for i, m in enumerate(units[n].get('selftest', [])):
            jobs.append((n, i, m))
    bad = 0
    with ThreadPoolExecutor(max_workers=int(os.environ.get('VERIF_JOBS', '8'))) as ex:
        futs = [(n, i, m, ex.submit(run_unit, units[n], False, m)) for n, i, m in jobs]
        for n, i, m, f in futs:
            r = f.result()
            ok = r['status'] == 'fail'
            print('selftest %s#%d %s -> %s %s' % (n, i, m[1][:40], 'caught' if ok else 'NOT CAUGHT (%s %s)' % (r['status'], r['reason'][:200]), ''))
            if not ok:
                bad += 1
    return 2 if bad else 0

def main():
    if len(sys.argv) < 2:
        print(__doc__)
        return 2
    c = sys.argv[1]
    if c == 'unit':
        return cmd_unit(sys.argv[2:])
    if c == 'list':
        return cmd_list(sys.argv[2:])
    if c == 'selftest':
        return cmd_selftest(sys.argv[2:])
    if c == 'memtable':
        # merge the peaks recorded in evidence/*.json (per_unit[].peak_mb) into engine/unit_mem.json (committed; read by the memory gate)
        path = os.path.join(VERIF, 'engine', 'unit_mem.json')
        try:
            tab = json.load(open(path))
        except Exception:
            tab = {}
        def walk(x):
            if isinstance(x, dict):
                if 'unit' in x and x.get('peak_mb'):
                    tab[x['unit']] = max(tab.get(x['unit'], 0), int(x['peak_mb']))
                for v in x.values():
                    walk(v)
            elif isinstance(x, list):
                for v in x:
                    walk(v)
        for fn in sorted(os.listdir(os.path.join(VERIF, 'evidence'))):
            if fn.endswith('.json'):
                walk(json.load(open(os.path.join(VERIF, 'evidence', fn))))
        for a in sys.argv[2:]:                       # name=MB pairs measured by hand
            k, v = a.split('=')
            tab[k] = max(tab.get(k, 0), int(v))
        json.dump(tab, open(path, 'w'), indent=0, sort_keys=True)
        print('unit_mem.json: %d units, largest: %s' % (len(tab), sorted(tab.items(), key=lambda kv: -kv[1])[:8]))
        return 0
    if c == 'check':
        import check
        return check.main(sys.argv[2:])
    print(__doc__)
    return 2

if __name__ == '__main__':
    sys.exit(main())
