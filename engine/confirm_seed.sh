#!/bin/bash
# usage: engine/confirm_seed.sh <built scratch worktree> <patch.diff> <demo.c>
# my own confirmation of a sub-agent's seeded change: with the patch the demo fails and the suite passes; without it the demo passes.
wt=$1; patch=$2; demo=$3
cd $wt || exit 2
git diff --quiet || { echo "worktree not clean"; exit 2; }
git apply $patch || { echo "patch does not apply"; exit 2; }
make -j6 >/dev/null 2>&1 || { echo "build failed with patch"; git checkout -- .; exit 2; }
gcc -I$wt $demo $wt/.libs/libmpir.a -o /tmp/demo.$$ -lm 2>/dev/null || { echo "demo does not compile"; git checkout -- .; exit 2; }
/tmp/demo.$$ >/dev/null 2>&1; echo "demo_exit_with_patch=$?"
make -j6 check 2>&1 | grep -E "^# (PASS|FAIL|ERROR):" | awk '{a[$2]+=$3} END {for (k in a) printf "%s%s ", k, a[k]; print ""}'
git checkout -- .
make -j6 >/dev/null 2>&1
gcc -I$wt $demo $wt/.libs/libmpir.a -o /tmp/demo.$$ -lm 2>/dev/null
/tmp/demo.$$ >/dev/null 2>&1; echo "demo_exit_clean=$?"
rm -f /tmp/demo.$$
