# claims.py -- which properties are claimed, at what level, and which are not (exec'd by manifest.py)
SOURCE_COMMITS = []
EXTRA_ONLY = set()
NOTES = ("Technique family: contract-based deductive verification of the real code. Exit codes of every check: 0 discharged, "
         "1 VIOLATION (refuted obligation), 2 undecided (time-out/weaver abort; never a violation). See DESIGN.md. Genuine defects repaired in /repo by unguarded fix: commits "
         "(known_findings.txt): 0e2256e mpz_inp_raw short read, 12a3475 and d465c1e gmp_printf flag rules, 6510f97 block byte sizes in int, ea6e797 LC generator with odd m2exp, "
         "e76c625 mpz_get_str beyond INT_MAX digits, bc7e1ad mpq_mul_2exp/div_2exp in place. No hook commits: nothing in /repo tests the guard define.")

TB = ("Trusted: CBMC 6.11 + kissat; the loop-cut weaver (engine/weave.py; must-fail mutants per unit in the thorough tier); "
      "shim models of the x86-64 inline asm in longlong.h; operand length <= 2^40 limbs; the telescoping-sum lemma (carry chain at "
      "every position <=> value equation). ")

claim('C03',
      "Unbounded proof (all lengths <= 2^40 limbs, all limb contents, every permitted overlap) that each of the 14 mpn functions meets its "
      "limb-exact contract: carry/borrow chain at an arbitrary ghost position incl. returned carry, shifted-out bits, copy/compare/zero-test "
      "relations; loops closed by inductive invariants, no unwinding. On top of these contracts: mpz_add, mpz_sub, mpz_add_ui, mpz_sub_ui, mpz_ui_sub, "
      "mpz_neg, mpz_abs, mpz_set, mpz_swap return the exact signed result limb for limb (carry/borrow chains on the magnitudes, minuend chosen by "
      "size then by the highest differing limb, size normalised, sign), for every allocation and every alias partition.",
      TB + "mpz_mul_2exp is NOT decided (no solver verdict for the symbolic limb offset, DESIGN 11.3); the x86 add/sub_err asm files are out of reach. "
      "mpz sizes are bounded by 2^30-1 limbs (int fields).")
claim('C10',
      "Unbounded proof of the eight mpn logic functions and mpn_com (pointwise at an arbitrary ghost limb, every permitted overlap) and of "
      "mpn_scan0/scan1 (first 0/1 bit at or after the start, all earlier bits have the other value, at a ghost bit position). mpz_tstbit, mpz_scan0, "
      "mpz_scan1 against the infinite two's-complement limb function (ghost lowest-non-zero-limb index), incl. the 'no such bit' answers; mpz_com "
      "as ~x = -x-1 on limb chains, all alias partitions. mpz_setbit and mpz_clrbit (all signs, all sizes, bit index below, at and beyond the operand, growth by a limb, "
      "normalisation): every limb of the result equals the CLOSED FORM of the two's-complement definition - for d < 0, |d'| = ((|d|-1) with the bit cleared/set) + 1, whose "
      "borrow and carry are functions of the ghost lowest-non-zero-limb index (clrbit at that limb: carry chain with ghost carries, a carry out of the top limb becomes a new limb 1). "
      "mpz_combit in two partitions (d >= 0; d < 0 with the bit inside the low zero limbs: borrow chain). BOUNDED stand-ins (complete enumeration of 431 small operands, not proof): "
      "mpz_and/ior/xor for all operand pairs and alias modes, setbit/clrbit/combit x 19 bit indices.",
      TB + "NOT decided: the value returned by mpn_popcount/mpn_hamdist (SWAR adder tree: SAT time-out; only their memory safety, frame and "
      "termination are proved); mpz_and/ior/xor: bounded enumeration only (the proof units of mpz_xor for mixed signs ran out of memory, DESIGN 11.3); mpz_combit for d < 0 with the bit at or above the "
      "lowest non-zero limb: bounded enumeration only; in mpz_combit the length argument of the in-place mpn_sub_1 call is read as dsize - limb_index (stated rewrite, listed in the evidence); "
      "mpz_popcount/hamdist: no unit. The ghost g_lz of the mpz units is defined by a "
      "forall that is instantiated by woven assumes at the limbs each loop iteration reads (listed in the evidence).")
claim('C11',
      "Full-domain proofs (loop-free code, all 2^64 limb values, all sizes and allocations) that mpz_cmp_ui/_si, mpz_cmpabs_ui, the eight "
      "mpz_fits_*_p, mpz_get_ui/si/ux/sx and mpz_set_ui/si/ux/sx agree with exact 128-bit arithmetic (predicates true exactly on the "
      "representable range); mpz_cmp/mpz_cmpabs/mpn_cmp: sign decided by sizes, else by the highest differing limb (loop closed by invariant). "
      "mpf_cmp (sign of the exact difference at the highest differing limb after exponent alignment), mpf_cmp_ui, mpf_cmp_si, the six mpf_fits_*_p, mpf_get_ui/si, mpf_set_ui/si: the same full-domain statements on the mpf format. Doubles: __gmp_extract_double - for EVERY positive finite double, normal or subnormal, the two limbs and the limb "
      "exponent it returns denote d exactly ({rp[1],rp[0]} * 2^(64(e-2)) == m * 2^p with m, p read off the IEEE-754 fields; subnormal loop unwound completely); on top of it mpz_set_d (= trunc(d), sign, size, zero fill, "
      "reallocation), mpz_cmp_d and mpz_cmpabs_d (sign of z - d resp. |z| - |d| for every z and every double incl. infinities: limb count, then the two significand limbs, then any non-zero lower limb of z / a fraction of d) and mpf_set_d (exact).",
      TB + "Four units are proved under two's-complement wrap-around of '-LONG_MIN' (signed-overflow check off, listed in evidence). "
      "NOT covered: the conversions TO double (mpn_get_d: mpz_get_d, mpz_get_d_2exp, mpq_get_d, mpf_get_d), mpq_set_d, mpf_cmp_d; NaN traps; mpq_cmp*, mpz_sgn (a macro); mpq_equal is proved under C12.")
claim('C12',
      "Unbounded limb-exact proofs of mpq_inv (incl. dest==src pointer swap, sign moved to the numerator, DIVIDE_BY_ZERO exactly for 0), "
      "mpq_neg, mpq_abs, mpq_set, mpq_set_z, mpq_set_ui/si, mpq_set_num/den, mpq_get_num/den, mpq_swap: parts copied limb for limb, "
      "denominator positive, both parts well-formed in distinct blocks - hence canonical form is preserved.",
      TB + "mpq_mul/div/add/sub/canonicalize are GLUE proofs on value tokens over ASSUMED gcd/divexact/mul/add contracts (the result is the reduced "
      "fraction expressed through those uninterpreted functions, denominator positive, every aliasing). mpq_mul_2exp / mpq_div_2exp (mord_2exp) ARE proved, in sixteen path partitions (function x in place or not x whole limbs stripped or not x copy or bit shift), for every operand, every count n <= 2^35: with s = min (n, trailing zero bits of the divided part R) stated through the ghost index of R's lowest non-zero limb, limb gk of the result is limb gk of R >> s, its size is |R| - s/64 or one less with a non-zero top limb, sign kept, and the other part is handed to mpz_mul_2exp (or mpz_set, or left alone in place) with exactly n - s - over ASSUMED stub models of mpz_mul_2exp / mpz_set (well-formed result of the right sign and size, arbitrary limbs: the VALUE of mpz_mul_2exp is not decided). The bounded unit mpq_2exp_enum (complete enumeration of canonical fractions over 431 small operands x 19 counts x in place or not) exhibited defect bc7e1ad - overlapping copy in the wrong direction in place - which is repaired. NOT covered: mpq_set_d/set_f, "
      "mpq_cmp*. mpq_equal IS proved (1 exactly when both parts agree in size and limb for limb). _mpz_realloc is used by contract (proved in unit mpz_realloc_int against the allocator model).")
claim('C04',
      "For every function under contract: the representation invariant (allocation >= 1, |size| <= allocation, block of exactly ALLOC limbs, no "
      "leading zero limb at a ghost position) is a proved post-condition from ANY well-formed pre-state with ANY allocation (inductive over call "
      "histories); DFCC frame obligations prove only owned blocks are written; CBMC pointer/bounds checks on every access; _mpz_realloc passes the "
      "exact current size to the reallocate function and clears a value that no longer fits (allocator model installed through the public pointers). "
      "Lifecycle: mpz_init/init2/clear/realloc2, mpq_init/clear, mpf_init2/clear/set_prec allocate and free blocks of exactly the recorded size (in bytes, "
      "computed without int overflow - defect 6510f97 was found here) and leak nothing.",
      TB + "Covers only the functions listed in the evidence (mpn kernels, mpz_add/sub/neg/abs/set/swap, set/get/cmp/fits, mpq copy functions, "
      "_mpz_realloc, the init/clear functions, mpz_mul/tdiv_qr/tdiv_r glue, raw I/O). 'Every sequence of API calls' is covered inductively for these "
      "functions only; the printf/scanf/string layers are covered only as far as C18 says.", cat='proof')
claim('C05',
      "Every identification of output and input arguments that the manual permits is a separate symbolic branch of each unit's harness (mpz: "
      "w==u, w==v, u==v, all equal; mpq dest==src; mpn: identical pointers, and partial overlap in the permitted direction for copyi/copyd/"
      "lshift/rshift), and the same limb-exact post-condition, phrased over pre-state snapshots, is proved in each; operands that are not "
      "outputs are proved unmodified (frame + explicit 'source unchanged' obligations).",
      TB + "Only for functions under contract (list in evidence). For mpz_mul, mpz_tdiv_qr, mpz_tdiv_r the aliased partitions are proved over ASSUMED "
      "shape contracts of the multi-limb kernels; for the fdiv/cdiv/mod, mpq arithmetic, invert and lcm glue units over value tokens.")
claim('C15',
      "Frame-derived: for every function under contract DFCC proves, for all inputs, that it writes nothing but argument-reachable blocks and "
      "ghost variables - in particular no static-storage object, so two threads on distinct destinations touch disjoint memory. Supporting static "
      "fact: all 506 library sources are recompiled and the set of symbols in writable sections must equal the committed baseline (a new static "
      "cache or lazily initialised table is reported).",
      TB + "Schedules are not explored: race-freedom is derived from frames, not observed. Writes to an EXISTING writable table from a function "
      "that is not under contract are not detected.", cat='other', technique='contract frames (DFCC assigns clauses) + writable-symbol baseline (nm)')

claim('C01',
      "Unbounded proof (all lengths, all limb contents, rp==up overlap) that mpn_mul_1, mpn_addmul_1 and mpn_submul_1 - the generic C kernels this "
      "build links - satisfy the product carry chain r[k] + co*B = (r0[k] +/-) u[k]*v + ci at every position, incl. the returned high limb, "
      "relative to the machine word multiply (mulq as an uninterpreted hi/lo pair). mpz_mul (every partition in which the result aliases an operand or "
      "the operands alias each other): sign, size, zero short-cut, reallocation with the old block freed at its exact size, faithful temporary copies, "
      "operand order and non-overlap preconditions of the multi-limb multipliers, no leak - over ASSUMED shape contracts of mpn_mul/sqr/basecase.",
      TB + "NOT decided: the VALUE computed by mpn_mul/mul_n/sqr and every algorithm above one row (schoolbook accumulation, Karatsuba, Toom, FFT) - they "
      "need mathematical integers / polynomial identities that CBMC's bit-vector logic cannot express; mpz_mul with three distinct arguments (no solver "
      "verdict, DESIGN 11.3) and mpz_addmul/submul(_ui) (mpz_aorsmul_1): no PROOF unit - only the BOUNDED stand-in mpz_aorsmul_enum (complete enumeration of 431 small operands x multipliers x alias modes, 10.3 million calls against two's-complement schoolbook arithmetic written in the driver; labelled bounded, not proof). mpz_mul_ui / mpz_mul_si ARE proved limb-exact over the proved mpn_mul_1 contract (sign, size un or un+1, carry limb, w == u).")
claim('C02',
      "Glue proofs over ASSUMED truncating division: for every value and every permitted aliasing of (q, r, n, d), mpz_fdiv_qr/q/r, mpz_cdiv_qr/q/r and "
      "mpz_mod return exactly the manual's floor/ceiling/non-negative quotient and remainder expressed through the truncating pair (adjust iff the "
      "remainder is non-zero and the signs differ / agree), keep a temporary copy of the divisor when it is an output, and raise DIVIDE_BY_ZERO iff d == 0. "
      "mpz_tdiv_qr (six partitions in which an output aliases an input or n == d): limb-level glue over an ASSUMED shape contract of mpn_tdiv_qr - "
      "|n| < |d| short-cut, temporary copies, the divider sees the original operand limbs, normal divisor top limb, non-overlap, quotient/remainder "
      "sizes and signs, well-formed results. mpz_tdiv_r and mpz_tdiv_q (four partitions each) likewise. mpz_tdiv_ui/fdiv_ui/cdiv_ui and mpz_tdiv_r_ui/fdiv_r_ui/"
      "cdiv_r_ui: return value |r| and stored remainder follow the rounding rule (d - t exactly when the truncated remainder t is non-zero and the sign "
      "condition holds), DIVIDE_BY_ZERO iff d == 0, over an ASSUMED mpn_mod_1. mpz_{t,f,c}div_q_ui and _qr_ui (all alias partitions) over an ASSUMED mpn_divrem_1: "
      "the adjustment |q| = |q_trunc| + 1 is PROVED on the limbs (MPN_INCR_U loop: trailing all-ones limbs become 0, the next limb is incremented, the rest unchanged), "
      "applied exactly when r != 0 and the sign condition holds; quotient size and sign, remainder sign, return value |r|. mpz_divisible_2exp_p: 1 exactly when the low d bits of |a| are "
      "zero (witness limb for the answer 0), only 0 divisible when d reaches past the top limb. mpz_tdiv_q_2exp: unbounded limb-exact proof (every limb of |w| is bits [cnt+64k, cnt+64k+64) of |u|, size, sign, w == u) over the proved mpn_rshift / copy contracts. "
      "BOUNDED stand-in (complete enumeration of 431 small operands x 19 shift counts x aliasing, not proof): "
      "mpz_{t,f,c}div_{q,r}_2exp satisfy u == q*2^cnt + r with the remainder range of the rounding mode.",
      TB + "In the floor/ceiling glue mpz_tdiv_qr/q/r are ASSUMED (uninterpreted quotient/remainder with sgn r in {0, sgn n}, |r| < |d|); values are 64-bit tokens for the interpreted "
      "+/- steps. NOT covered: the quotient/remainder VALUES of the truncating family (mpn_tdiv_qr is assumed), the _2exp forms other than mpz_tdiv_q_2exp beyond the bounded enumeration, mpn_tdiv_qr/divrem/divrem_1/mod_1, divexact, divisible_p/_ui_p, congruent_*, "
      "and the word-division primitives (undecided by SAT, DESIGN 8).", technique='contract-based glue proof against assumed callee contracts (value tokens, CBMC)')
claim('C17',
      "mpz_inp_raw: for EVERY 4-byte header the body region lies inside the (re)allocated block (no out-of-bounds write for any byte stream), the header "
      "is decoded as a big-endian two's-complement byte count, limbs are reversed and byte-swapped exactly (unbounded, invariant-closed), and after a "
      "failed or truncated read at any point the function returns 0 with a well-formed destination. mpz_out_raw: byte image = 4-byte signed count + "
      "big-endian magnitude without leading zero bytes, every limb placed exactly; returns 0 iff the write fails; the scratch block is freed with its "
      "exact size on both paths and nothing leaks. mpz_export with byte-sized words (size == 1) and EVERY nail count 0..7, both orders, unbounded operand length: the word count is "
      "exact and word w holds exactly the k-bit field [wk, wk+k) of |z| (k = 8 - nail), fields straddling limbs and the zero-extended top word included, nothing outside the "
      "count bytes is written (nail counts 0, 4, 6, 7 in the quick tier; 1, 2, 3, 5 take 8-15 min each and run in the thorough tier). mpz_import with byte-sized words and every nail count 0..7 (the inverse relation: word w "
      "contributes its low k bits as the field [wk, wk+k) of the result, nail bits ignored, result normalised; quick tier). BOUNDED stand-in (not proof) for the rest of the parameter space: complete enumeration of size{1,2,3,4,5,8,9,16} x every nail x order x "
      "endian x alignment over operands of 0..3 limbs from a five-letter limb alphabet - export against the bit-field definition, then import of the result.",
      TB + "fread/fwrite are stubs with the ISO C contract (any transfer count <= requested, arbitrary buffer contents). The byte-level round trip "
      "inp_raw(out_raw(x)) == x is the composition of the two limb-placement contracts (stated in DESIGN, not a separate machine-checked lemma). NOT "
      "covered by proof: mpz_export / mpz_import for word sizes other than 1 (incl. the whole-limb fast paths), out_str/inp_str for mpz/mpq/mpf, gmp_fprintf. In the export units "
      "the address idiom `(char *) data - (char *) NULL` is REWRITTEN to an integer cast (the one spot where the verified text differs from /repo, stated in the evidence).",
      technique='contract-based proof (CBMC, inductive invariants) + bounded native enumeration of the export/import parameter space (labelled bounded)')

claim('C06',
      "Power-of-two bases 2,4,...,256, unbounded in the operand length (inductive invariants, one unit per base, the real mp_bases table linked in): "
      "mpn_get_str returns exactly D digits, D being the unique count with (D-1)k < bitlength <= Dk (a ghost pinned by these two inequalities: no division by k in the specification), and digit j is the k-bit field [(D-1-j)k, (D-j)k) of the operand, for EVERY j (ghost digit "
      "index), incl. fields that straddle two limbs and the zero-padded top digit; mpn_set_str places EVERY digit in its k-bit field of the result, writes "
      "exactly the full limbs plus a non-zero partial top limb, no bit at or above len*k - the two contracts are inverse relations, so the round trip is exact. "
      "mpz_sizeinbase is the exact digit count ceil(bitlength/k), 1 for zero. mpz_get_str for the bases 2,4,8,16,32,-2,-16 over that proved mpn_get_str contract: minus sign, every digit "
      "character (lower / upper case alphabet), terminating NUL, a caller block of sizeinbase+2 bytes suffices, a block allocated for the caller is resized to exactly strlen+1 bytes, "
      "nothing leaks (defect e76c625 - int loop counter - was found here). mpz_set_str for base 16 (unit mpz_set_str_b16, unbounded string length, over the proved mpn_set_str contract): leading white space, optional '-', "
      "skipped leading zeros and blanks, -1 exactly when the first character after the sign or some non-blank character of the digit part is no hexadecimal digit (with a witness position; x then unchanged), 0 for an all-zero digit part, sign, "
      "every digit character lands in the 4-bit field given by its rank among the non-blank characters, the destination block is large enough for what mpn_set_str writes (floating-point size estimate), the top limb is non-zero, the scratch block is released on every path. "
      "BOUNDED stand-in for the bases that are no power of two (unit mpz_str_enum, not proof): 19352 structured digit strings (zero runs, (base-1) runs, lengths around the algorithm thresholds up to 4500 digits) in 8 bases: "
      "mpz_set_str == Horner evaluation, mpz_get_str == the digits, sizeinbase within one of the digit count.",
      TB + "Tiers: the mpz_get_str units and mpn_get_str for base 128 take 5-17 minutes each and run in the THOROUGH tier only (vp check stopped the quick tier after 900 s with them in it); the quick tier runs mpn_get_str / mpn_set_str for the other bases, mpz_sizeinbase, mpz_set_str_b16 and the bounded unit. NOT covered: every base that is not a power of two (mpn_sb_get_str / mpn_dc_get_str / mpn_bc_set_str / mpn_dc_set_str: multi-limb division and "
      "multiplication by powers of the base - needs mathematical integers), mpz_get_str for other bases (beyond the bounded enumeration), mpz_set_str for bases other than 16 incl. the base-0 prefix rules (proof), the mpq/mpf string layers, "
      "mpz_inp_str/out_str, mpz_sizeinbase for other bases. mpn_set_str: 'every digit is below the base' is a precondition, "
      "instantiated at the digit each loop iteration reads; its `for (s = end; s >= str; s--)` header is evaluated as 'stop when s == str' (DESIGN 11.2).")
claim('C18',
      "Integer layout (__gmp_doprnt_integer, the routine behind %Z/%Q/%N): for symbolic width, precision, flags-derived parameters, base, sign and a "
      "digit string of unbounded length, the byte at EVERY output position (ghost position) is the one the C rule places there - [pad][sign][prefix]"
      "[precision zeros][0-flag pad][digits][pad] - the total equals max(width, ...), and -1 is returned exactly when an output callback fails. "
      "BOUNDED stand-in (not proof) for the flag parser of __gmp_doprnt, which CBMC could not reach: complete native enumeration of "
      "% flags{0..3} width precision Z conv over 9 values and of all pairs of ten conversions in one format, gmp_sprintf vs the C library.",
      TB + "Four genuine defects were found by these two checks on the original tree and repaired in /repo (known_findings.txt). NOT covered: %Q with a "
      "slash, %F (doprntf.c), %N/%M, gmp_asprintf/obstack sinks, every scanf function. The four sink callbacks of gmp_snprintf (format, memory, reps, final) ARE "
      "proved: never a byte past the buffer, always terminated, would-be length returned (vsnprintf as an ISO C stub). The bounded part trusts glibc's sprintf as the oracle.",
      technique='contract-based proof of the layout routine (CBMC, ghost output position) + bounded native enumeration of the format grammar (labelled bounded)')
claim('C19',
      "Range post-conditions with the generator behind _gmp_rand as an assumed contract: gmp_urandomb_ui < 2^bits; gmp_urandomm_ui in [0,n-1] "
      "including the 80-iteration fallback (loop unwound completely) and DIVIDE_BY_ZERO exactly for n == 0; mpn_urandomm: result < modulus "
      "(highest differing limb smaller, limbs above equal); mpz_urandomb: well formed, non-negative, below 2^nbits for every nbits; mpz_urandomm: 0 <= result < |n| against the ORIGINAL n also when rop == n (temporary copy freed, no leak), 0 for n == 1, DIVIDE_BY_ZERO for n == 0, and - the property's power-of-two detection - unless |n| is a power of two (witness: the top limb, or a non-zero lower limb at a ghost position) the generator is asked for exactly bitlength(|n|) bits, so no part of [0, n) is excluded by a too small bit count. randget_lc (thorough tier): the "
      "LC generator meets that assumed generator contract for every m2exp <= 2^30 and every nbits - no bit at or above nbits, no write outside the destination - "
      "over an assumed contract of one lc() step (defect ea6e797 was found here). randseed_lc: after seeding every state limb is the limb of seed mod 2^m2exp or "
      "zero, so nothing of the previous state survives (reproducibility of re-seeded states).",
      TB + "The Mersenne Twister is ASSUMED to fill ceil(nbits/64) limbs with zero bits above nbits (no unit); lc() (one LC step: mpn_mul, add, shift) is assumed; no unit covers "
      "mpz_rrandomb, mpn_randomb/rrandom, mpf_urandomb, gmp_randinit_set, seeding reproducibility or the statistical clauses. "
      "Termination of rejection loops is not proved.")

claim('C07',
      "Glue only, over ASSUMED gcd/gcdext/divexact/mul on value tokens: mpz_invert reports existence exactly when x != 0, |n| > 1 and gcd(x,n) == 1 and "
      "returns the cofactor reduced into [0,|n|) for every sign of n and every aliasing; mpz_lcm (multi-limb operands) returns |(u/gcd(u,v))*v|, 0 for a "
      "zero operand; inputs that are not the result are unchanged. mpz_gcd_ui (limb level, over an ASSUMED mpn_gcd_1): gcd(0,v) = v, gcd(u,0) = |u| stored limb "
      "for limb and returned only when it fits, otherwise one single-limb gcd whose result is returned and stored; NULL result and w == u.",
      TB + "NOTHING under the gcd algorithms is verified: mpn_gcd, mpn_gcd_1, mpn_gcdext, HGCD, Lehmer and all Jacobi/Kronecker code are assumed or not "
      "covered; mpz_gcd, mpz_gcdext, mpz_lcm_ui, the single-limb paths of mpz_lcm and every symbol function have no unit. The claim is the "
      "argument/sign/range handling of three functions.", technique='contract-based glue proof against assumed callee contracts (value tokens, CBMC)')
na('C08', 'no unit built in this round: only argument-handling glue of mpz_powm/pow_ui over ASSUMED REDC/powm kernels would be in reach (DESIGN 6 C08, 11.4)')
na('C09', 'core slice attempted and undecided: the modexact identity behind the perfect-square residue filters did not come back from kissat in 10 min per divisor, the whole-function form in 30 min (DESIGN 11.3); Newton/Zimmermann root iterations are out of reach')
claim('C13',
      "For the functions that are exact on the stored value - mpf_neg, mpf_abs, mpf_set (top min(size, prec+1) limbs, same exponent, every precision and "
      "r == u), mpf_integer_p, mpf_get_ui, mpf_get_si, the six mpf_fits_*_p, mpf_set_ui/si, mpf_set_z, mpf_cmp, mpf_cmp_ui, mpf_cmp_si, mpf_swap, mpf_trunc, mpf_ceil, mpf_floor (increment exactly when a dropped limb is non-zero in the rounding direction), mpf_mul_2exp, mpf_div_2exp (top limbs shifted by e mod 64 bits, exponent adjusted, carry limb), mpf_set_d (exact for every finite double, over the proved __gmp_extract_double), mpf_set_prec, mpf_init2, mpf_clear - unbounded limb-exact proofs, and the mpf "
      "format rules (top limb non-zero, at most prec+1 limbs in a block of exactly prec+1 limbs, zero has exponent 0) as a proved post-condition.",
      TB + "NOT covered: mpf_add/sub/mul/div/sqrt and their _ui forms, mpf_set_q/set_str, mpf_get_str, mpf_ceil/floor with r == u (they hand mpn_add_1 a partially overlapping pair), mpf_mul_2exp/div_2exp with r == u and a bit shift (CBMC out of memory: undecided) - "
      "i.e. every function with rounding; the 2^(2-p) relative error bound is a statement over reals that no contract here expresses.")
na('C14', 'CBMC has no x86-64 assembly front end, so "assembly kernel == C kernel" is not a contract obligation for any .asm/.as file; fat binary and --enable-* build variants are configurations, not functions under contract (DESIGN.md section 6 C14)')
na('C16', 'n!, binomials, Fibonacci/Lucas and primality are defined by unbounded products/recurrences and number theory; CBMC has no mathematical integers or induction over them, so no contract within reach expresses the property (DESIGN.md section 6 C16)')
na('C20', "CBMC's C++ front end cannot parse mpirxx.h (templates, libstdc++ headers); no deductive C++ verifier is installed (DESIGN.md section 6 C20)")
