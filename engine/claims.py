# claims.py -- which properties are claimed, at what level, and which are not (exec'd by manifest.py)
SOURCE_COMMITS = []
EXTRA_ONLY = set()
NOTES = ("Technique family: contract-based deductive verification of the real code. Exit codes of every check: 0 discharged, "
         "1 VIOLATION (refuted obligation), 2 undecided (time-out/weaver abort; never a violation). See DESIGN.md.")

TB = ("Trusted: CBMC 6.11 + kissat; the loop-cut weaver (engine/weave.py; must-fail mutants per unit in the thorough tier); "
      "shim models of the x86-64 inline asm in longlong.h; operand length <= 2^40 limbs; the telescoping-sum lemma (carry chain at "
      "every position <=> value equation). ")

claim('C03',
      "Unbounded proof (all lengths <= 2^40 limbs, all limb contents, every permitted overlap) that each of the 14 mpn functions meets its "
      "limb-exact contract: carry/borrow chain at an arbitrary ghost position incl. returned carry, shifted-out bits, copy/compare/zero-test "
      "relations; loops closed by inductive invariants, no unwinding.",
      TB + "mpz layer of C03 (mpz_add ... mpz_swap) is covered only as far as the mpz units listed in the evidence are green; "
      "x86 add/sub_err asm is out of reach.")

for p, why in (
    ('C01', 'not yet implemented in this session (planned: mul_1/addmul_1/submul_1 L-proofs)'),
    ('C02', 'not yet implemented in this session'),
    ('C04', 'not yet implemented in this session'),
    ('C05', 'not yet implemented in this session'),
    ('C06', 'not yet implemented in this session'),
    ('C07', 'not yet implemented in this session'),
    ('C08', 'not yet implemented in this session'),
    ('C09', 'not yet implemented in this session'),
    ('C10', 'not yet implemented in this session'),
    ('C11', 'not yet implemented in this session'),
    ('C12', 'not yet implemented in this session'),
    ('C13', 'not yet implemented in this session'),
    ('C15', 'not yet implemented in this session'),
    ('C17', 'not yet implemented in this session'),
    ('C18', 'not yet implemented in this session'),
    ('C19', 'not yet implemented in this session'),
):
    na(p, why)
na('C14', 'CBMC has no x86-64 assembly front end, so "assembly kernel == C kernel" is not a contract obligation for any .asm/.as file; fat binary and --enable-* build variants are configurations, not functions under contract (DESIGN.md section 6 C14)')
na('C16', 'n!, binomials, Fibonacci/Lucas and primality are defined by unbounded products/recurrences and number theory; CBMC has no mathematical integers or induction over them, so no contract within reach expresses the property (DESIGN.md section 6 C16)')
na('C20', "CBMC's C++ front end cannot parse mpirxx.h (templates, libstdc++ headers); no deductive C++ verifier is installed (DESIGN.md section 6 C20)")
