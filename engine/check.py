#!/usr/bin/env python3
"""check.py -- per-property check: run every unit serving the property, write evidence, report.

Called as:  python3 engine/vf.py check <PROP> [--tier quick|thorough]
  exit 0  every obligation of every unit discharged (KNOWN-FINDING lines do not change this)
  exit 1  + 'VIOLATION property=<id> replay=<path>' : an obligation that is discharged on the unchanged
          tree FAILED (counterexample from the verifier); replay file names it and carries the native replay
  exit 2  undecided (time-out / weaver abort / tool error): never a violation
"""
import sys, os, json, time, re
from concurrent.futures import ThreadPoolExecutor
import vf
import replay as RP

VERIF = vf.VERIF

def load_known():
    path = os.path.join(VERIF, 'known_findings.txt')
    out = []
    if os.path.exists(path):
        for ln in open(path):
            ln = ln.strip()
            if ln.startswith('finding:'):
                d = dict(kv.split('=', 1) for kv in ln[len('finding:'):].split() if '=' in kv and kv.split('=')[0] in ('property', 'unit', 'obligation'))
                d['text'] = ln
                out.append(d)
    return out

def relevant(ob, prop):
    tags = vf.TAG.findall(ob['desc'])
    return (not tags) or (prop in tags)

def main(argv):
    t0 = time.time()
    prop = argv[0]
    tier = os.environ.get('VERIF_TIER', 'quick')
    if '--tier' in argv:
        tier = argv[argv.index('--tier') + 1]
    seed = int(os.environ.get('VERIF_SEED', '1') or 1)
    units = vf.load_units()
    extra = sys.modules.get('extra_checks')
    # quick: the units whose primary property (props[0]) is this one, or that list it under quick_props;
    # thorough: every unit that carries the property tag.  tier 'off' units are kept in the tree but never run.
    def wanted(u):
        if prop not in u['props'] or u.get('tier') == 'off':
            return False
        if tier == 'thorough':
            return True
        return u.get('tier', 'quick') == 'quick' and (u['props'][0] == prop or prop in u.get('quick_props', []))
    sel = [u for u in units.values() if wanted(u)]
    evid_path = os.path.join(VERIF, 'evidence', prop + '.json')
    os.makedirs(os.path.dirname(evid_path), exist_ok=True)
    if not sel:
        print('no unit serves', prop)
        return 2
    jobs = int(os.environ.get('VERIF_JOBS', '14'))
    # longest first
    sel.sort(key=lambda u: -u.get('cost', 30))
    results = []
    with ThreadPoolExecutor(max_workers=jobs) as ex:
        futs = [(u, ex.submit(vf.run_unit, u, False, None, u.get('timeout', 300) * (3 if tier == 'thorough' else 1))) for u in sel]
        for u, f in futs:
            results.append(f.result())
    # thorough tier: must-fail mutants (trust in the weaver/engine) -- a mutant that passes makes the run undecided
    selftest_bad = []
    selftest_n = 0
    if tier == 'thorough':
        with ThreadPoolExecutor(max_workers=jobs) as ex:
            futs = []
            for u in sel:
                # must-fail mutants are run with the unit's PRIMARY property (and its quick_props): C04/C05/C15 tag nearly every unit and
                # would otherwise repeat the whole mutant battery of every other property
                if not (u['props'][0] == prop or prop in u.get('quick_props', [])):
                    continue
                for i, m in enumerate(u.get('selftest', [])):
                    futs.append((u, i, m, ex.submit(vf.run_unit, u, False, m)))
            for u, i, m, f in futs:
                selftest_n += 1
                r = f.result()
                if r['status'] != 'fail':
                    selftest_bad.append('%s#%d' % (u['name'], i))
    known = load_known()
    n_ob = n_ok = 0
    viol = []
    struct_viol = []
    newcallee = {}
    bounded = []
    undec = []
    knownhits = []
    samples = []
    functions = []
    assumptions = set()
    trusted = set()
    per_unit = []
    solver_s = 0.0
    for r in results:
        u = units[r['unit']]
        solver_s += r.get('solver_s', 0)
        per_unit.append({'unit': r['unit'], 'status': r['status'], 'source': r['source'], 'functions_under_contract': r['functions'],
                         'callees_replaced_by_contract': r['replaced'], 'obligations': len(r['obligations']),
                         'discharged': sum(1 for o in r['obligations'] if o['status'] == 'SUCCESS'),
                         'solver_s': r.get('solver_s', 0), 'peak_mb': r.get('peak_mb'), 'reason': r['reason'], 'bounded': r.get('bounded', ''),
                         'loops': r.get('weave', {}).get('functions', {}), 'checker_cmd': r.get('checker_cmd', '')})
        functions += r['functions']
        for a in r['assumptions']:
            assumptions.add(a)
        for g in r['replaced']:
            if g not in u.get('proved_callees', r['replaced']):
                assumptions.add('assumed contract (not proved by any unit): ' + g)
        if r['status'] == 'undecided':
            if r['reason'].startswith(('weave:', 'goto-cc:', 'goto-instrument:')):
                # structural change (loop structure, or the signature / types the contract prototype was written against): contracts cannot attach;
                # a violation is reported only with a concrete failing input of the real code
                spath, sfound = RP.structural(u, r['reason'], prop, seed)
                if sfound:
                    struct_viol.append((r['unit'], spath))
                    continue
            undec.append('%s: %s' % (r['unit'], r['reason'][:300]))
            continue
        is_bounded = bool(u.get('kind') == 'native' or u.get('bounded'))
        if is_bounded:
            bounded.append({'unit': r['unit'], 'bound': r.get('bounded', ''), 'status': r['status'],
                            'result': [o['desc'][-200:] for o in r['obligations']][:3]})
        for o in r['obligations']:
            if not is_bounded:
                n_ob += 1
            if o['status'] == 'SUCCESS':
                if not is_bounded:
                    n_ok += 1
                if len(samples) < 12 and ('[%s]' % prop) in o['desc']:
                    samples.append({'unit': r['unit'], 'obligation': o['id'], 'where': '%s:%s' % (o['file'], o['line']), 'text': o['desc'], 'status': 'discharged'})
            elif o['status'] == 'FAILURE':
                if not relevant(o, prop):
                    continue
                if 'undefined function should be unreachable' in o['desc']:
                    newcallee.setdefault(r['unit'], []).append(o)
                    continue
                hit = None
                for k in known:
                    if k.get('property') == prop and k.get('unit') == r['unit'] and k.get('obligation') == o['id']:
                        hit = k
                if hit:
                    knownhits.append((hit, o))
                else:
                    viol.append((r, o))
            else:
                undec.append('%s: obligation %s status %s' % (r['unit'], o['id'], o['status']))
    if len(samples) < 3:
        for r in results:
            for o in r['obligations'][:3]:
                samples.append({'unit': r['unit'], 'obligation': o['id'], 'where': '%s:%s' % (o['file'], o['line']), 'text': o['desc'], 'status': o['status']})
    # a call to a function without a contract in the unit (e.g. a new helper): not a refutation of the property.  The native driver
    # decides: a concrete failing input -> violation; otherwise the unit is undecided.
    for un, obs in newcallee.items():
        if any(r0['unit'] == un for r0, _ in viol):
            continue
        spath, sfound = RP.structural(units[un], 'call to a function that has no contract in this unit: ' + '; '.join(vf.fmt_ob(o) for o in obs)[:600], prop, seed)
        if sfound:
            struct_viol.append((un, spath))
        else:
            undec.append('%s: calls a function without contract (%s); native evaluation found no failing input' % (un, obs[0]['id']))
    rc = 0
    out_lines = []
    extra_info = {}
    if prop == 'C15':
        # supporting static fact (not proof): writable-section symbol set of the rebuilt library objects == committed baseline
        import statics
        st = statics.check()
        extra_info['static_symbol_scan'] = {'library_sources_compiled': st['files'], 'writable_symbols': st['symbols'],
                                            'new_or_grown': st['new'], 'compile_errors': st['errors'][:5], 'symbols': st['list']}
        if st['errors']:
            undec.append('statics: %d library sources did not compile: %s' % (len(st['errors']), st['errors'][0][:200]))
        if st['new']:
            rp = os.path.join(VERIF, 'replay', 'out', 'C15.statics.replay.txt')
            os.makedirs(os.path.dirname(rp), exist_ok=True)
            with open(rp, 'w') as f:
                f.write('property: C15\nobligation: writable-section symbol set of the library == /verif/contracts/static_baseline.txt\n'
                        'verifier: gcc -c of every library source of /repo working tree + nm (engine/statics.py)\n\n' + '\n'.join(st['new']) +
                        '\n\nno-failing-input-found: a new shared mutable object is a structural violation; no schedule is exhibited.\n')
            out_lines.append('VIOLATION property=C15 replay=%s no-failing-input-found' % rp)
            extra_viol = len(st['new'])
        else:
            extra_viol = 0
    else:
        extra_viol = 0
    for hit, o in knownhits:
        out_lines.append('KNOWN-FINDING: property=%s %s' % (prop, hit['text']))
    replay_paths = []
    if viol:
        byunit = {}
        for r, o in viol:
            byunit.setdefault(r['unit'], []).append(o)
        for un, obs in byunit.items():
            path, found = RP.replay(units[un], obs, prop, seed)
            replay_paths.append(path)
            out_lines.append('VIOLATION property=%s replay=%s%s' % (prop, path, '' if found else ' no-failing-input-found'))
        rc = 1
    elif undec or selftest_bad:
        rc = 2
    for un, spath in struct_viol:
        out_lines.append('VIOLATION property=%s replay=%s' % (prop, spath))
        rc = 1
    if extra_viol:
        rc = 1
    # extra (non-CBMC) supporting checks registered for the property
    ev = {
        'property_id': prop, 'tier': tier, 'seed': seed, 'level': {'C15': 'other'}.get(prop, 'proof'),
        'coverage': {
            'obligations': n_ob, 'discharged': n_ok,
            'checker_cmd': 'goto-cc --function h_<unit> <woven TU> ; goto-instrument --dfcc h_<unit> --enforce-contract <f> --replace-call-with-contract <g>... ; cbmc %s %s  (per unit; exact lines under units[].checker_cmd)' % (' '.join(vf.CBMC_BASE), ' '.join(vf.SOLVER)),
            'trusted_base': sorted(trusted | {
                'CBMC 6.11.0 (C front end, goto-instrument --dfcc contract instrumentation, bit-blasting) + kissat SAT back end',
                '/verif/engine/weave.py inductive loop cut (loop skeleton -> assert INV; havoc; assume INV; body; assert INV+variant; assume false)',
                '/verif/shim/longlong_models.h replaces the x86-64 inline asm of longlong.h (mulq/divq uninterpreted, bsr/bsf/bswap exact)',
                'operand length bound n <= 2^40 limbs; gcc -O0 build semantics = C semantics',
                'telescoping-sum lemma: carry/borrow chain at every position k (shared carries) <=> value equation (DESIGN 3.3), not machine-checked',
            }),
            'units': per_unit,
            'functions_under_contract': sorted(set(functions)),
            'samples': samples[:12],
            'solver_s': round(solver_s, 1),
            'bounded_standins_not_counted_as_proved': bounded,
            'supporting_static_facts': extra_info,
            'undecided': undec,
            'selftest_mutants_run': selftest_n, 'selftest_mutants_not_caught': selftest_bad,
            'explanation': 'Each unit: the real /repo source is preprocessed on this run, its loops are replaced by inductive cuts, and CBMC discharges the function contract (requires/ensures/assigns) with callees replaced by their contracts. obligations/discharged are counted from CBMC output of this run.',
        },
        'assumptions': sorted(assumptions),
        'wall_s': round(time.time() - t0, 1),
        'violations': len(viol) + extra_viol + len(struct_viol),
    }
    with open(evid_path, 'w') as f:
        json.dump(ev, f, indent=1)
    print('check %s tier=%s units=%d obligations=%d discharged=%d undecided=%d violations=%d wall=%.0fs' %
          (prop, tier, len(sel), n_ob, n_ok, len(undec), len(viol), time.time() - t0))
    for r in results:
        print('  unit %-26s %-9s obligations=%-4d solver=%.1fs %s' % (r['unit'], r['status'], len(r['obligations']), r.get('solver_s', 0), r['reason'][:160]))
    for r, o in viol:
        print('  FAILED %s: %s' % (r['unit'], vf.fmt_ob(o)))
    for s in selftest_bad:
        print('  SELFTEST mutant not caught:', s)
    for l in out_lines:
        print(l)
    if rc == 2:
        print('UNDECIDED property=%s (%d unit(s)); not a violation' % (prop, len(undec) + len(selftest_bad)))
    return rc
