#!/bin/bash
# usage: engine/seedtest.sh <seeded dir> <PROP> [tier]   -- apply the seeded change to /repo, run the check, undo straight afterwards
sd=$1; prop=$2; tier=${3:-quick}
cd /repo && git diff --quiet || { echo "/repo not clean"; exit 2; }
git -C /repo apply $sd/patch.diff || { echo "patch does not apply"; exit 2; }
cd /verif && ./check.sh $prop $tier 2>&1 | grep -v "^WARNING" | grep -E "^check|VIOLATION|FAILED|UNDECIDED|KNOWN" | cut -c1-400
rc=${PIPESTATUS[0]}
git -C /repo checkout -- .
echo "seedtest $(basename $sd) $prop $tier -> exit $rc"
