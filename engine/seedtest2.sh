#!/bin/bash
# usage: engine/seedtest2.sh <seeded dir (absolute)> <PROP> [tier]   -- like seedtest.sh, but on a scratch copy of /repo (VERIF_REPO) so that checks
# of the real /repo can run at the same time.  The scratch copy (a git worktree with /repo's build outputs) must exist: /tmp/seedrepo.
sd=$1; prop=$2; tier=${3:-quick}; R=${SEEDREPO:-/tmp/seedrepo}
cd $R && git diff --quiet || { echo "$R not clean"; exit 2; }
git -C $R apply $sd/patch.diff || { echo "patch does not apply"; exit 2; }
cp /verif/evidence/$prop.json /tmp/.evidence_$prop.save 2>/dev/null
cd /verif && VERIF_REPO=$R ./check.sh $prop $tier 2>&1 | grep -v "^WARNING" | grep -E "^check|VIOLATION|FAILED|UNDECIDED|KNOWN" | cut -c1-400
rc=${PIPESTATUS[0]}
git -C $R checkout -- .
cp /tmp/.evidence_$prop.save /verif/evidence/$prop.json 2>/dev/null
echo "seedtest2 $(basename $sd) $prop $tier -> exit $rc"
