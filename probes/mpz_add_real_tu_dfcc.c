#include "mpir.h"
#include "gmp-impl.h"
#define NMAX 1000000000L
#define WF(x) (ALLOC(x) >= 1 && ALLOC(x) <= NMAX && ABSIZ(x) <= ALLOC(x) && __CPROVER_w_ok(PTR(x), ALLOC(x)*8) && (SIZ(x) != 0 ==> PTR(x)[ABSIZ(x)-1] != 0))
/* callee contracts (minimal for the probe) */
mp_limb_t mpn_add (mp_ptr wp, mp_srcptr xp, mp_size_t xn, mp_srcptr yp, mp_size_t yn)
__CPROVER_requires(0 <= yn && yn <= xn && xn <= NMAX && __CPROVER_w_ok(wp, xn*8) && __CPROVER_r_ok(xp, xn*8) && __CPROVER_r_ok(yp, yn*8))
__CPROVER_assigns(__CPROVER_object_upto(wp, xn*8))
__CPROVER_ensures(__CPROVER_return_value <= 1)
__CPROVER_ensures((__CPROVER_return_value == 0 && xn > 0 && __CPROVER_old(xp[xn-1]) != 0) ==> wp[xn-1] != 0);
mp_limb_t mpn_sub (mp_ptr wp, mp_srcptr xp, mp_size_t xn, mp_srcptr yp, mp_size_t yn)
__CPROVER_requires(0 <= yn && yn <= xn && xn <= NMAX && __CPROVER_w_ok(wp, xn*8) && __CPROVER_r_ok(xp, xn*8) && __CPROVER_r_ok(yp, yn*8))
__CPROVER_assigns(__CPROVER_object_upto(wp, xn*8))
__CPROVER_ensures(__CPROVER_return_value <= 1);
mp_limb_t mpn_sub_n (mp_ptr wp, mp_srcptr xp, mp_srcptr yp, mp_size_t n)
__CPROVER_requires(1 <= n && n <= NMAX && __CPROVER_w_ok(wp, n*8) && __CPROVER_r_ok(xp, n*8) && __CPROVER_r_ok(yp, n*8))
__CPROVER_assigns(__CPROVER_object_upto(wp, n*8))
__CPROVER_ensures(__CPROVER_return_value <= 1);
int mpn_cmp (mp_srcptr xp, mp_srcptr yp, mp_size_t n)
__CPROVER_requires(0 <= n && n <= NMAX && __CPROVER_r_ok(xp, n*8) && __CPROVER_r_ok(yp, n*8))
__CPROVER_assigns();
void *_mpz_realloc (mpz_ptr m, mp_size_t new_alloc)
__CPROVER_requires(__CPROVER_w_ok(m, sizeof(*m)) && ALLOC(m) >= 1 && new_alloc >= 1 && new_alloc <= NMAX+1 && __CPROVER_w_ok(PTR(m), ALLOC(m)*8))
__CPROVER_assigns(*m)
__CPROVER_frees(PTR(m))
__CPROVER_ensures(ALLOC(m) == new_alloc && __CPROVER_is_fresh(PTR(m), new_alloc*8) && (__CPROVER_old(SIZ(m)) <= new_alloc && -__CPROVER_old(SIZ(m)) <= new_alloc ==> SIZ(m) == __CPROVER_old(SIZ(m))));

#undef MPN_NORMALIZE
mp_size_t nondet_size(void);
#define NINV(DST,NLIMBS) (0 <= (NLIMBS) && (NLIMBS) <= abs_usize)
#define MPN_NORMALIZE(DST, NLIMBS) \
  do { __CPROVER_assert(NINV(DST,NLIMBS), "norm base"); (NLIMBS) = nondet_size(); __CPROVER_assume(NINV(DST,NLIMBS)); \
    if ((NLIMBS) > 0) { mp_size_t __d0 = (NLIMBS); \
      if ((DST)[(NLIMBS) - 1] != 0) goto CAT(__exit,__LINE__); \
      (NLIMBS)--; \
      __CPROVER_assert(NINV(DST,NLIMBS), "norm step"); __CPROVER_assert((NLIMBS) < __d0, "norm decreases"); __CPROVER_assume(0); } \
    CAT(__exit,__LINE__): ; } while (0)
#define CAT(a,b) CAT2(a,b)
#define CAT2(a,b) a##b

void mpz_add (mpz_ptr w, mpz_srcptr u, mpz_srcptr v)
__CPROVER_requires(WF(w) && WF(u) && WF(v))
__CPROVER_assigns(*w, __CPROVER_object_whole(PTR(w)))
__CPROVER_frees(PTR(w))
__CPROVER_ensures(WF(w));

#include "/repo/mpz/add.c"

void harness(void){
  __mpz_struct W, U, V; 
  mp_size_t aw, au, av; __CPROVER_assume(aw>=1 && aw<=NMAX && au>=1 && au<=NMAX && av>=1 && av<=NMAX);
  W._mp_d = malloc(aw*8); W._mp_alloc = aw; U._mp_d = malloc(au*8); U._mp_alloc = au; V._mp_d = malloc(av*8); V._mp_alloc = av;
  mpz_ptr w = &W; mpz_srcptr u = &U, v = &V;
  _Bool a1, a2, a3; if (a1) u = w; if (a2) v = w; if (a3) v = u;   /* all alias partitions */
  mpz_add(w, u, v);
}
