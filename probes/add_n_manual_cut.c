typedef unsigned long mp_limb_t;
typedef long mp_size_t;
typedef mp_limb_t *mp_ptr;
typedef const mp_limb_t *mp_srcptr;
typedef unsigned __int128 u128;
mp_size_t gk;  /* ghost index */
mp_limb_t g_ci, g_co;
mp_size_t nondet_size(void);
mp_limb_t nondet_limb(void);

#define INV (1 <= n && n <= n0 && up == up0 + (n0-n) && vp == vp0 + (n0-n) && rp == rp0 + (n0-n) && cy <= 1 && \
  (gk < n0-n ==> (g_co <= 1 && g_ci <= 1 && (u128)rp0[gk] + ((u128)g_co << 64) == (u128)up0[gk] + (u128)vp0[gk] + (u128)g_ci)) && \
  (gk == n0-n-1 ==> g_co == cy) && (n == n0 ==> cy == 0) && (gk == 0 && gk < n0-n ==> g_ci == 0))

mp_limb_t
mpn_add_n (mp_ptr rp, mp_srcptr up, mp_srcptr vp, mp_size_t n)
__CPROVER_requires(n >= 1 && n <= NMAX && 0 <= gk && gk < n)
__CPROVER_requires(__CPROVER_is_fresh(rp, n*8))
__CPROVER_requires(__CPROVER_is_fresh(up, n*8))
__CPROVER_requires(__CPROVER_is_fresh(vp, n*8))
__CPROVER_assigns(__CPROVER_object_whole(rp), g_ci, g_co)
__CPROVER_ensures(g_co <= 1 && g_ci <= 1 && (u128)rp[gk] + ((u128)g_co << 64) == (u128)up[gk] + (u128)vp[gk] + (u128)g_ci)
__CPROVER_ensures(gk == 0 ==> g_ci == 0)
__CPROVER_ensures(gk == n-1 ==> g_co == __CPROVER_return_value)
{
  mp_limb_t ul, vl, sl, rl, cy, cy1, cy2;
  mp_size_t n0 = n; mp_ptr rp0 = rp; mp_srcptr up0 = up, vp0 = vp;
  cy = 0;
  __CPROVER_assert(INV, "loop base");
  { mp_size_t d = nondet_size(); __CPROVER_assume(0 <= d && d < n0); n = n0 - d; up = up0 + d; vp = vp0 + d; rp = rp0 + d;
    ul=nondet_limb(); vl = nondet_limb(); sl = nondet_limb(); rl = nondet_limb(); cy = nondet_limb(); cy1 = nondet_limb(); cy2 = nondet_limb();
    g_ci = nondet_limb(); g_co = nondet_limb();
    __CPROVER_havoc_object(rp0);
    __CPROVER_assume(INV); }
  mp_size_t n_old = n;
  do
    {
      if (n0-n == gk) g_ci = cy;
      ul = *up++;
      vl = *vp++;
      sl = ul + vl;
      cy1 = sl < ul;
      rl = sl + cy;
      cy2 = rl < sl;
      cy = cy1 | cy2;
      *rp++ = rl;
      if (n0-n == gk) g_co = cy;
    }
  while (--n != 0 && ({ __CPROVER_assert(INV, "loop step"); __CPROVER_assert(n < n_old && n >= 0, "decreases"); __CPROVER_assume(0); 1;}));
  return cy;
}

void harness(void){
  mp_ptr rp; mp_srcptr up, vp; mp_size_t n;
  mpn_add_n(rp,up,vp,n);
}
