#include <stdint.h>
typedef uint32_t mp_limb_t;
typedef int32_t mp_limb_signed_t;
typedef uint64_t u2;
#define GMP_LIMB_BITS 32
#define GMP_LIMB_HIGHBIT ((mp_limb_t)1 << 31)
#define MP_LIMB_T_MAX (~(mp_limb_t)0)
#define CNST_LIMB(x) ((mp_limb_t)x)
#define umul_ppmm(w1,w0,u,v) do { u2 __p = (u2)(u) * (u2)(v); (w1) = (mp_limb_t)(__p >> 32); (w0) = (mp_limb_t)__p; } while (0)
#define add_ssaaaa(sh, sl, ah, al, bh, bl) do { u2 __a = ((u2)(ah) << 32 | (al)) + ((u2)(bh) << 32 | (bl)); (sh) = (mp_limb_t)(__a >> 32); (sl) = (mp_limb_t)__a; } while (0)
#define LIMB_HIGHBIT_TO_MASK(n)                                 \
  (((mp_limb_signed_t) -1 >> 1) < 0                             \
   ? (mp_limb_signed_t) (n) >> (GMP_LIMB_BITS - 1)              \
   : (n) & GMP_LIMB_HIGHBIT ? MP_LIMB_T_MAX : CNST_LIMB(0))
#define udiv_qrnnd_preinv2(q, r, nh, nl, d, di)				\
  do {									\
    mp_limb_t _n2, _n10, _nmask, _nadj, _q1;				\
    mp_limb_t _xh, _xl;							\
    _n2 = (nh);								\
    _n10 = (nl);							\
    _nmask = LIMB_HIGHBIT_TO_MASK (_n10);				\
    _nadj = _n10 + (_nmask & (d));					\
    umul_ppmm (_xh, _xl, di, _n2 - _nmask);				\
    add_ssaaaa (_xh, _xl, _xh, _xl, _n2, _nadj);			\
    _q1 = ~_xh;								\
    umul_ppmm (_xh, _xl, _q1, d);					\
    add_ssaaaa (_xh, _xl, _xh, _xl, nh, nl);				\
    _xh -= (d);					/* xh = 0 or -1 */	\
    (r) = _xl + ((d) & _xh);						\
    (q) = _xh - _q1;							\
  } while (0)
void harness(void){
  mp_limb_t nh, nl, d, di, q, r;
  __CPROVER_assume(d & GMP_LIMB_HIGHBIT);
  __CPROVER_assume(nh < d);
  /* di = floor((B^2-1)/d) - B, stated without division: di*d + B*d <= B^2-1 < (di+1)*d + B*d */
  u2 t = (u2)di * d + ((u2)d << 32);
  __CPROVER_assume(t >= (u2)di * d);            /* no overflow */
  __CPROVER_assume(~(u2)0 - t < d);
  udiv_qrnnd_preinv2(q, r, nh, nl, d, di);
  u2 n = (u2)nh << 32 | nl;
  __CPROVER_assert(r < d, "r<d");
  __CPROVER_assert((u2)q * d + r == n, "n = q d + r");
}
