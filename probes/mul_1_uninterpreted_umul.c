typedef unsigned long mp_limb_t;
typedef long mp_size_t;
typedef mp_limb_t *mp_ptr;
typedef const mp_limb_t *mp_srcptr;
typedef unsigned __int128 u128;
mp_size_t gk;  /* ghost index */
mp_limb_t g_ci, g_co;
mp_size_t nondet_size(void);
mp_limb_t nondet_limb(void);
mp_limb_t __CPROVER_uninterpreted_mulhi(mp_limb_t,mp_limb_t); mp_limb_t __CPROVER_uninterpreted_mullo(mp_limb_t,mp_limb_t);
#define umul_ppmm(w1,w0,u,v) do { (w1) = __CPROVER_uninterpreted_mulhi(u,v); (w0) = __CPROVER_uninterpreted_mullo(u,v); __CPROVER_assume((w1) <= ~(mp_limb_t)1); } while (0)

#define REL(r,u) ((u128)(r) + ((u128)g_co << 64) == (((u128)__CPROVER_uninterpreted_mulhi(u,vl) << 64) | __CPROVER_uninterpreted_mullo(u,vl)) + (u128)g_ci)
#define INV (1 <= n && n <= n0 && up == up0 + (n0-n) && rp == rp0 + (n0-n) && \
  (gk < n0-n ==> REL(rp0[gk], up0[gk])) && \
  (gk == n0-n-1 ==> g_co == cl) && (n == n0 ==> cl == 0) && (gk == 0 && gk < n0-n ==> g_ci == 0))

mp_limb_t
mpn_mul_1 (mp_ptr rp, mp_srcptr up, mp_size_t n, mp_limb_t vl)
__CPROVER_requires(n >= 1 && n <= NMAX && 0 <= gk && gk < n)
__CPROVER_requires(__CPROVER_is_fresh(rp, n*8))
__CPROVER_requires(__CPROVER_is_fresh(up, n*8))
__CPROVER_assigns(__CPROVER_object_whole(rp), g_ci, g_co)
__CPROVER_ensures(REL(rp[gk], up[gk]))
__CPROVER_ensures(gk == 0 ==> g_ci == 0)
__CPROVER_ensures(gk == n-1 ==> g_co == __CPROVER_return_value)
{
  mp_limb_t ul, cl, hpl, lpl;
  mp_size_t n0 = n; mp_ptr rp0 = rp; mp_srcptr up0 = up;
  cl = 0;
  __CPROVER_assert(INV, "loop base");
  { mp_size_t d = nondet_size(); __CPROVER_assume(0 <= d && d < n0); n = n0 - d; up = up0 + d; rp = rp0 + d;
    ul=nondet_limb(); cl = nondet_limb(); hpl = nondet_limb(); lpl = nondet_limb(); 
    g_ci = nondet_limb(); g_co = nondet_limb();
    __CPROVER_havoc_object(rp0);
    __CPROVER_assume(INV); }
  mp_size_t n_old = n;
  do
    {
      if (n0-n == gk) g_ci = cl;
      ul = *up++;
      umul_ppmm (hpl, lpl, ul, vl);

      lpl += cl;
      cl = (lpl < cl) + hpl;

      *rp++ = lpl;
      if (n0-n == gk) g_co = cl;
    }
  while (--n != 0 && ({ __CPROVER_assert(INV, "loop step"); __CPROVER_assert(n < n_old && n >= 0, "decreases"); __CPROVER_assume(0); 1;}));
  return cl;
}

void harness(void){
  mp_ptr rp; mp_srcptr up; mp_size_t n; mp_limb_t v;
  mpn_mul_1(rp,up,n,v);
}
