#include <stdio.h>
#include <stdlib.h>
#include <stdarg.h>
#include <string.h>
#include "mpir.h"
#include "gmp-impl.h"
/* ghost string model: s points into a big buffer; g_len = strlen(s) as seen at call time */
size_t g_len_total;            /* length of the original string (with optional '-') */
const char *g_s0;              /* original s */
#define strlen verif_strlen
#define strchr verif_strchr
static size_t verif_strlen(const char *s){ __CPROVER_assert(__CPROVER_same_object(s,g_s0) && s >= g_s0 && (size_t)(s-g_s0) <= g_len_total, "strlen arg inside string"); return g_len_total - (size_t)(s-g_s0); }
static char *verif_strchr(const char *s, int c){ return NULL; }   /* integer (no '/') case of the probe */
/* recording sink */
enum {EV_REPS=1, EV_MEM=2};
int ev_kind[8], ev_c[8]; long ev_n[8]; const char *ev_p[8]; int ev_cnt;
static int sink_reps(void *d, int c, int n){ __CPROVER_assert(ev_cnt<8,"ev"); __CPROVER_assert(n>0,"[C18] reps count positive"); ev_kind[ev_cnt]=EV_REPS; ev_c[ev_cnt]=c; ev_n[ev_cnt]=n; ev_cnt++; return n; }
static int sink_mem(void *d, const char *p, size_t n){ __CPROVER_assert(ev_cnt<8,"ev"); ev_kind[ev_cnt]=EV_MEM; ev_p[ev_cnt]=p; ev_n[ev_cnt]=(long)n; ev_cnt++; return (int)n; }
#include "/repo/printf/doprnti.c"
#undef strlen
#undef strchr
void harness(void){
  struct doprnt_funs_t funs = {0, sink_mem, sink_reps, 0};
  struct doprnt_params_t p;
  size_t cap; __CPROVER_assume(cap >= 2 && cap <= 100000);
  char *buf = malloc(cap); __CPROVER_assume(buf != NULL); size_t len; __CPROVER_assume(len >= 1 && len < cap);
  __CPROVER_assume(buf[len] == 0);
  g_s0 = buf; g_len_total = len;
  _Bool neg = (buf[0] == '-'); __CPROVER_assume(!neg || len >= 2);
  __CPROVER_assume(buf[neg] >= '0' && buf[neg] <= 'f');
  __CPROVER_assume(buf[neg] != '0' || len == (size_t)neg + 1);           /* get_str gives no leading zeros: "0" only for zero */
  __CPROVER_assume(p.width >= 0 && p.width <= 100000 && p.prec >= -1 && p.prec <= 100000);
  __CPROVER_assume(p.sign == '+' || p.sign == ' ' || p.sign == 0);
  __CPROVER_assume(p.base == 10 || p.base == 16 || p.base == -16 || p.base == 8);
  __CPROVER_assume(p.showbase == DOPRNT_SHOWBASE_NO || p.showbase == DOPRNT_SHOWBASE_YES || p.showbase == DOPRNT_SHOWBASE_NONZERO);
  __CPROVER_assume(p.justify == DOPRNT_JUSTIFY_LEFT || p.justify == DOPRNT_JUSTIFY_RIGHT || p.justify == DOPRNT_JUSTIFY_INTERNAL);
  int ret = __gmp_doprnt_integer(&funs, 0, &p, buf);
  /* oracle: C rules for an integer conversion */
  long ndig = (long)len - neg; _Bool iszero = buf[neg]=='0';
  if (iszero && p.prec == 0) ndig = 0;
  long signlen = (neg || p.sign) ? 1 : 0;
  long pref = 0; if (p.showbase != DOPRNT_SHOWBASE_NO && !(p.showbase==DOPRNT_SHOWBASE_NONZERO && iszero)) pref = (p.base==16||p.base==-16)?2:(p.base==8?1:0);
  long zeros = p.prec > ndig ? p.prec - ndig : 0;
  long body = signlen + pref + zeros + ndig;
  long total = body > p.width ? body : p.width;
  long sum = 0; for (int i=0;i<8;i++) if (i<ev_cnt) sum += ev_n[i];
  __CPROVER_assert(ret == total, "[C18] return value = max(width, sign+prefix+max(prec,digits))");
  __CPROVER_assert(sum == total, "[C18] bytes emitted = return value");
}
