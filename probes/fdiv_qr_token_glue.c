#include "mpir.h"
#include "gmp-impl.h"
typedef long tok_t;
/* registry: object address -> token */
#define NREG 8
const void *reg_key[NREG]; tok_t reg_val[NREG]; int reg_n;
static int reg_find(const void *p){ for (int i=0;i<NREG;i++) if (i<reg_n && reg_key[i]==p) return i; return -1; }
static tok_t val(mpz_srcptr x){ int i=reg_find(x); __CPROVER_assert(i>=0,"registered"); return reg_val[i]; }
static void setval(mpz_ptr x, tok_t v){ int i=reg_find(x); if(i<0){ __CPROVER_assert(reg_n<NREG,"room"); i=reg_n++; reg_key[i]=x; } reg_val[i]=v;
  /* representation link: sign of SIZ == sign of token; magnitude limbs abstract */
  mp_size_t s; __CPROVER_assume((v==0)==(s==0) && (v>0)==(s>0) && s>-1000 && s<1000); x->_mp_size = s; }
tok_t __CPROVER_uninterpreted_tdivq(tok_t,tok_t); tok_t __CPROVER_uninterpreted_tdivr(tok_t,tok_t);
/* assumed contracts of callees, as token-level stubs */
void mpz_tdiv_qr(mpz_ptr q, mpz_ptr r, mpz_srcptr n, mpz_srcptr d){
  __CPROVER_assert(q!=r,"q!=r"); tok_t vn=val(n), vd=val(d); __CPROVER_assert(vd!=0,"d!=0");
  tok_t vq=__CPROVER_uninterpreted_tdivq(vn,vd), vr=__CPROVER_uninterpreted_tdivr(vn,vd);
  __CPROVER_assume(vr==0 || ((vr>0)==(vn>0)));      /* remainder has sign of n */
  __CPROVER_assume(vq>-4611686018427387904L && vq<4611686018427387904L && vr>-4611686018427387904L && vr<4611686018427387904L);
  setval(q,vq); setval(r,vr); }
void mpz_sub_ui(mpz_ptr w, mpz_srcptr u, mpir_ui v){ setval(w, val(u)-(tok_t)v); }
void mpz_add(mpz_ptr w, mpz_srcptr u, mpz_srcptr v){ setval(w, val(u)+val(v)); }
void mpz_set(mpz_ptr w, mpz_srcptr u){ tok_t t=val(u); setval(w,t); }
#include "/repo/mpz/fdiv_qr.c"
void harness(void){
  __mpz_struct Q,R,N,D; mp_limb_t lq[1],lr[1],ln[1],ld[1];
  Q._mp_d=lq;R._mp_d=lr;N._mp_d=ln;D._mp_d=ld; Q._mp_alloc=R._mp_alloc=N._mp_alloc=D._mp_alloc=1;
  mpz_ptr q=&Q,r=&R; mpz_srcptr n=&N,d=&D;
  tok_t vn,vd; __CPROVER_assume(vd!=0 && vn>-4611686018427387904L && vn<4611686018427387904L && vd>-4611686018427387904L && vd<4611686018427387904L);
  _Bool a,b,c,e; if(a) n=q; else if(b) n=r; if(c) d=q; else if(e) d=r;     /* alias partitions, q!=r */
  setval((mpz_ptr)&Q,0); setval((mpz_ptr)&R,0); setval((mpz_ptr)n,vn); setval((mpz_ptr)d,vd);
  __CPROVER_assume(val(n)==vn && val(d)==vd);   /* n==d aliasing via same object excluded unless equal */
  mpz_fdiv_qr(q,r,n,d);
  tok_t tq=__CPROVER_uninterpreted_tdivq(vn,vd), tr=__CPROVER_uninterpreted_tdivr(vn,vd);
  _Bool adj = tr!=0 && ((vn<0)!=(vd<0));
  __CPROVER_assert(val(q)==tq-(adj?1:0), "[C02] floor quotient = trunc quotient - adj");
  __CPROVER_assert(val(r)==tr+(adj?vd:0), "[C02] floor remainder = trunc remainder + adj*d");
}
