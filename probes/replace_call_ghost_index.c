typedef unsigned long mp_limb_t;
typedef long mp_size_t;
typedef mp_limb_t *mp_ptr;
typedef const mp_limb_t *mp_srcptr;
typedef unsigned __int128 u128;
mp_size_t gk; mp_limb_t g_ci, g_co;
#define SEP_OR_SAME(a,b,n) ((a)==(b) || !__CPROVER_same_object(a,b) || (a)+(n) <= (b) || (b)+(n) <= (a))
/* contract on a separate prototype */
mp_limb_t mpn_add_n (mp_ptr rp, mp_srcptr up, mp_srcptr vp, mp_size_t n)
__CPROVER_requires(n >= 1 && n <= 100000000 && 0 <= gk)
__CPROVER_requires(__CPROVER_w_ok(rp, n*8) && __CPROVER_r_ok(up, n*8) && __CPROVER_r_ok(vp, n*8))
__CPROVER_requires(SEP_OR_SAME(rp,up,n) && SEP_OR_SAME(rp,vp,n))
__CPROVER_assigns(__CPROVER_object_upto(rp, n*8), g_ci, g_co)
__CPROVER_ensures(gk < n ==> (g_co <= 1 && g_ci <= 1 && (u128)rp[gk] + ((u128)g_co << 64) == (u128)__CPROVER_old(up[gk]) + (u128)__CPROVER_old(vp[gk]) + (u128)g_ci))
__CPROVER_ensures(gk == 0 ==> g_ci == 0)
__CPROVER_ensures(gk == n-1 ==> g_co == __CPROVER_return_value)
__CPROVER_ensures(__CPROVER_return_value <= 1)
;
/* caller: doubles the top m limbs of a vector in place */
mp_limb_t dbl_high(mp_ptr p, mp_size_t n, mp_size_t m)
__CPROVER_requires(1 <= m && m <= n && n <= 100000000 && __CPROVER_is_fresh(p, n*8) && 0 <= gk && gk < m)
__CPROVER_assigns(__CPROVER_object_whole(p), g_ci, g_co)
__CPROVER_ensures((u128)p[n-m+gk] + ((u128)g_co << 64) == 2*(u128)__CPROVER_old(p[n-m+gk]) + g_ci)
{
  return mpn_add_n(p + (n-m), p + (n-m), p + (n-m), m);
}
void harness(void){ mp_ptr p; mp_size_t n, m; dbl_high(p,n,m); }
