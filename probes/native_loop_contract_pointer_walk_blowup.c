typedef unsigned long mp_limb_t;
typedef long mp_size_t;
typedef mp_limb_t *mp_ptr;
typedef const mp_limb_t *mp_srcptr;
mp_size_t gk;
void
copyw (mp_ptr rp, mp_srcptr up, mp_size_t n)
__CPROVER_requires(n >= 1 && n <= NMAX && 0 <= gk && gk < n)
__CPROVER_requires(__CPROVER_is_fresh(rp, n*8))
__CPROVER_requires(__CPROVER_is_fresh(up, n*8))
__CPROVER_assigns(__CPROVER_object_whole(rp))
__CPROVER_ensures(rp[gk] == up[gk])
{
  mp_size_t n0 = n; mp_ptr rp0 = rp; mp_srcptr up0 = up;
#ifdef DOWHILE
  do
#else
  while (n != 0)
#endif
  __CPROVER_assigns(up,rp,n,__CPROVER_object_whole(rp0))
  __CPROVER_loop_invariant(LOW <= n && n <= n0 && up == up0 + (n0-n) && rp == rp0 + (n0-n))
  __CPROVER_loop_invariant(gk < n0-n ==> rp0[gk] == up0[gk])
  __CPROVER_decreases(n)
    {
      *rp++ = *up++;
#ifdef DOWHILE
    }
  while (--n != 0);
#else
      n--;
    }
#endif
}
void harness(void){
  mp_ptr rp; mp_srcptr up; mp_size_t n;
  copyw(rp,up,n);
}
